#!/usr/bin/env python3
"""Regenerate MANIFEST.json from tools/manifest_data.json (one source of truth for the per-property texts)."""
import json
import os

HERE = os.path.dirname(os.path.dirname(os.path.abspath(__file__)))
data = json.load(open(os.path.join(HERE, "tools", "manifest_data.json")))
props = [json.loads(l) for l in open(os.path.join(HERE, "properties.jsonl"))]
checks, na = [], []
for p in props:
    pid = p["id"]
    d = data.get(pid)
    if not d or not d.get("claimed"):
        na.append({"property_id": pid, "reason": (d or {}).get("reason", "check not built yet (in progress)")})
        continue
    checks.append({
        "property_id": pid,
        "quick_cmd": "bin/check %s --tier quick" % pid,
        "thorough_cmd": "bin/check %s --tier thorough" % pid,
        "evidence_file": "evidence/%s.json" % pid,
        "replay_cmd_template": "bin/check %s --replay {path}" % pid,
        "engine": "tla-conformance",
        "level_claimed": {"category": "model_checking", "text": d["text"], "design_ref": d.get("design_ref", "DESIGN.md §3 " + pid)},
        "level_note": d["note"],
        "technique": d["technique"],
    })
m = {
    "version": 1,
    "setup_cmd": "tools/setup.sh",
    "hooks": {
        "guard": "INSCRIPTALABS_BIOCANTOR_VERIF",
        "enable": "no in-repo hooks: the library is sequential and its abstract state is observable through the public API; observation wrappers live in /verif/harness only",
        "baseline_off_cmd": "cd /repo && /venv/bin/python -m pytest -ra -q -p no:cacheprovider --timeout=900 --continue-on-collection-errors",
        "source_commits": [],
        "add_only": True,
    },
    "engines": [{"name": "tla-conformance", "path": "harness/bcverif", "serves_properties": [c["property_id"] for c in checks],
                 "kind_free_text": "explicit TLA+ specification (spec/*.tla) model-checked by TLC (and Apalache for integer obligations); bound to the code by TLC-judged traces of the real library (code->spec) and replay of TLC behaviours (spec->code)"}],
    "checks": checks,
    "not_applicable": na,
    "notes": data.get("_notes", ""),
}
json.dump(m, open(os.path.join(HERE, "MANIFEST.json"), "w"), indent=1)
print("MANIFEST: %d checks, %d not_applicable" % (len(checks), len(na)))
