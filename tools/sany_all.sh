#!/bin/sh
# SANY-parse every specification module (used by setup_cmd)
set -e
T=$(mktemp -d /verif/build/sany.XXXXXX 2>/dev/null || (mkdir -p /verif/build && mktemp -d /verif/build/sany.XXXXXX))
cp /verif/spec/*.tla /verif/spec/trace/*.tla "$T"/
cd "$T"
rc=0
for f in *.tla; do
  if ! java -cp /opt/veriftools/tla/tla2tools.jar:/opt/veriftools/tla/CommunityModules-deps.jar tla2sany.SANY "$f" > "$f.out" 2>&1 || grep -q "Error\|Could not parse" "$f.out"; then
    echo "SANY FAILED: $f"; grep -v "^Parsing\|^Semantic" "$f.out" | head -15; rc=1
  fi
done
cd /verif && rm -rf "$T"
[ $rc = 0 ] && echo "SANY: all modules parse"
exit $rc
