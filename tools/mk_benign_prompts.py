#!/usr/bin/env python3
"""usage: tools/mk_benign_prompts.py <round-dir> <ID...>  -- prompts for sub-agents that make a behaviour-VISIBLE change which
keeps the property true (false-alarm measurement); one scratch worktree per property; nothing from /verif is shown."""
import json, os, subprocess, sys
rd = sys.argv[1]
ids = sys.argv[2:]
os.makedirs(rd + "/prompts", exist_ok=True)
os.makedirs(rd + "/out", exist_ok=True)
props = {json.loads(l)["id"]: json.loads(l) for l in open("/verif/properties.jsonl")}
for pid in ids:
    p = props[pid]
    wt = "%s/%s" % (rd, pid)
    if not os.path.isdir(wt):
        subprocess.run(["git", "-C", "/repo", "worktree", "add", "-q", "--detach", wt, "HEAD"], check=True)
    a = p["anchors"]
    mech = "\n".join("   - %s (%s)" % (m["name"], m["where"]) for m in a.get("mechanism", []))
    txt = f"""You are helping to evaluate a verification framework for the Python library BioCantor (InscriptaLabs/BioCantor: genomic feature arithmetic, nested coordinate systems, CDS frame/codon logic, GenBank/GFF3/BED/VCF IO). This time the question is whether the framework raises FALSE ALARMS. Your job is to act as a developer who makes a legitimate, behaviour-visible change that KEEPS the property below true for every input.

You have your own scratch git worktree of the repository at {wt} (work ONLY there; never touch /repo, and do not read or write anything under /verif).

## The property that must REMAIN TRUE

{pid}: {p['title']}

Statement: {p['statement']}

Quantified over: {p['quantifier']['text']}

Code anchors: files {', '.join(a['files'])}; mechanisms:
{mech}

## What to produce

A non-trivial change to the library source under {wt}/inscripta such that:
 1. the property above still holds for ALL inputs (argue this carefully; if in doubt, test it yourself on thousands of random inputs against an independent oracle written from the statement);
 2. every OTHER documented behaviour of the public API is preserved as far as the documentation promises it (you are a careful maintainer, not a saboteur);
 3. BUT something observable changes that a sloppy checker might wrongly depend on - things the property statement deliberately leaves free. Ideas (pick what fits the code paths the property is about, make 3-5 such changes, the more "visible" the better, as long as 1 and 2 hold): the REPRESENTATION of a result where the statement only fixes its meaning (an equal location built from differently structured but equivalent pieces where the statement speaks about bases; a tuple instead of a list; Python ints where numpy ints came back or vice versa); the ORDER of things the statement does not order (members of a returned set-like collection, qualifier keys, attribute order in a written row, records that the format does not order); EXTRA output that is legal (additional qualifiers / attributes / comment lines / records of types the gene models are not written with); a DIFFERENT documented exception class (or a NEW subclass of a documented one) for input that was already refused, validation done earlier or later; memoisation ADDED or REMOVED, cache sizes changed, lazily vs eagerly computed members; iterators vs lists where the signature says Iterable; log messages and warnings; message texts; private attribute names and private helper signatures (anything starting with an underscore is not API);
 4. the code still imports and BOTH test-suites still give exactly the same summary lines as without your change ("1466 passed, 16 errors" and "3 failed, 2117 passed", see Environment). If an existing unit test pins the detail you wanted to change, leave that detail alone and pick another.

Then write:
 * {wt}/patch.diff  - `git diff -- inscripta` of your change, made from the worktree root so that `git apply patch.diff` works on a clean checkout;
 * {wt}/meta.json - {{"property": "{pid}", "summary": "<what was changed, file/function by file/function>", "why_property_still_holds": "<argument + what you ran to convince yourself>", "observable_differences": "<what a caller can now see differently>"}}

Verify it yourself before finishing: both suites with the change (same summary lines), your own randomized check of the property with the change. Leave the worktree WITH the change applied and patch.diff matching it. NEVER use `git stash` (the stash is shared with sibling worktrees that other people are using); to compare with the original use `git diff -- inscripta > patch.diff; git checkout -- inscripta; ...; git apply patch.diff`.

## Environment

Read /tmp/seedkit/README.txt first: this sandbox has no network and newer third-party libraries than the repository expects, so the gene / io layers only import through a small compatibility shim (usage is in that README; it is environment glue, not part of the library). Use /venv/bin/python. Do not install anything. Do not commit. The machine is busy: test runs may take a minute.

Final answer: one paragraph: what you changed, why the property still holds, what is observably different, and the outputs of the two suite runs.
"""
    open("%s/prompts/%s.txt" % (rd, pid), "w").write(txt)
print("prompts:", len(ids))
