#!/usr/bin/env python3
"""usage: tools/mutants.py <n> <seed> [out.json]  -- a cheap, systematic complement to the seeded rounds: n random ONE-TOKEN
mutants of /repo/inscripta (comparison one step off, min/max, and/or, True/False, +1/-1 dropped, [0]/[-1], start/end) are
each applied in a scratch worktree; mutants the repository's pinned suite kills are discarded (they do not "pass the
existing tests"); every survivor is judged by the quick checks that own the mutated file.  Survivors that no check
rejects are printed for triage (equivalent mutants are expected among them).  /repo itself is never touched."""
import json
import os
import random
import re
import subprocess
import sys

N, SEED = int(sys.argv[1]), int(sys.argv[2])
OUT = sys.argv[3] if len(sys.argv) > 3 else "/tmp/mutants_%d.json" % SEED
OWNERS = [
    ("location/", ["C01", "C02", "C03", "C04", "C19"]), ("parent/", ["C04", "C10", "C19"]), ("sequence/", ["C03", "C15"]),
    ("gene/cds.py", ["C05", "C07", "C10", "C19"]), ("gene/cds_frame.py", ["C15", "C05"]), ("gene/codon.py", ["C15", "C05"]),
    ("gene/transcript.py", ["C06", "C07", "C08", "C14", "C19"]), ("gene/feature.py", ["C14", "C20", "C08", "C07", "C19"]),
    ("gene/gene.py", ["C20", "C09", "C08", "C19"]), ("gene/collections.py", ["C09", "C16", "C20", "C08", "C19"]),
    ("gene/variants.py", ["C13", "C08", "C19"]), ("gene/interval.py", ["C06", "C07", "C10", "C08"]), ("gene/biotype.py", ["C15"]),
    ("util/bins.py", ["C16"]), ("util/hashing.py", ["C08"]), ("util/object_validation.py", ["C19", "C04"]),
    ("io/gff3/", ["C11", "C18", "C19"]), ("io/genbank/", ["C12", "C18"]), ("io/ncbi/", ["C17"]), ("io/bed/", ["C14"]),
    ("io/vcf/", ["C13"]), ("io/features", ["C18"]), ("io/models.py", ["C08", "C19"]), ("io/parser.py", ["C07", "C08"]),
    ("io/fasta", ["C11"]), ("constants.py", ["C15"]), ("exc.py", ["C19"]), ("__init__.py", ["C15", "C10"]),
]
RULES = [(r"<=", "<"), (r"(?<![<>=!])<(?![=<])", "<="), (r">=", ">"), (r"(?<![<>=!-])>(?![=>])", ">="), (r"==", "!="), (r"!=", "=="),
         (r"\bmin\(", "max("), (r"\bmax\(", "min("), (r"\band\b", "or"), (r"\bor\b", "and"), (r"\bTrue\b", "False"),
         (r"\bFalse\b", "True"), (r" \+ 1\b", ""), (r" - 1\b", ""), (r"\[0\]", "[-1]"), (r"\[-1\]", "[0]"),
         (r"\.start\b", ".end"), (r"\.end\b", ".start"), (r"\bstarts\b", "ends"), (r"\bnot ", "")]


def owners(path):
    for k, v in OWNERS:
        if k in path:
            return v
    return []


def candidates():
    out = []
    root = "/repo/inscripta/biocantor"
    for dp, _dn, fn in os.walk(root):
        for f in fn:
            if not f.endswith(".py"):
                continue
            p = os.path.join(dp, f)
            rel = os.path.relpath(p, "/repo")
            if not owners(rel):
                continue
            indoc = False
            for i, line in enumerate(open(p).read().split("\n")):
                st = line.strip()
                if st.count('"""') == 1:
                    indoc = not indoc
                    continue
                if indoc or not st or st.startswith(("#", '"""', "import ", "from ", "@", "raise ", "logger.", "warnings.")):
                    continue
                code = line.split("#")[0]
                if '"' in code and ("f\"" in code or "Error(" in code or "Exception(" in code):
                    continue
                for ri, (pat, _rep) in enumerate(RULES):
                    for m in re.finditer(pat, code):
                        out.append((rel, i, m.start(), m.end(), ri))
    return out


def sh(cmd, cwd=None, timeout=1800):
    return subprocess.run(cmd, shell=True, cwd=cwd, capture_output=True, text=True, timeout=timeout)


rnd = random.Random(SEED)
cands = candidates()
rnd.shuffle(cands)
results = []
tried = 0
for (rel, li, a, b, ri) in cands:
    if len(results) >= N:
        break
    tried += 1
    wt = "/tmp/mut_wt_%d" % os.getpid()
    sh("git -C /repo worktree remove --force %s; git -C /repo worktree add -q --detach %s HEAD" % (wt, wt))
    p = os.path.join(wt, rel)
    lines = open(p).read().split("\n")
    old = lines[li]
    lines[li] = old[:a] + RULES[ri][1] + old[b:]
    open(p, "w").write("\n".join(lines))
    rec = {"file": rel, "line": li + 1, "old": old.strip(), "new": lines[li].strip()}
    r = sh("/venv/bin/python -c 'import inscripta.biocantor.gene, inscripta.biocantor.location.location_impl'", cwd=wt)
    if r.returncode != 0:
        rec["status"] = "does-not-import"
    else:
        r = sh("/venv/bin/python -m pytest -q -p no:cacheprovider --timeout=900 --continue-on-collection-errors -W ignore 2>&1 | tail -1", cwd=wt)
        if "1466 passed" not in r.stdout:
            rec["status"] = "killed-by-pinned-suite"
        else:
            r = sh("PYTHONPATH=/tmp/seedkit /venv/bin/python -m pytest -q -p no:cacheprovider -p bcverif.pytest_shim -W ignore 2>&1 | tail -1", cwd=wt)
            if "2117 passed" not in r.stdout:
                rec["status"] = "killed-by-shim-suite"
            else:
                diff = sh("git diff -- inscripta", cwd=wt).stdout
                pf = "/tmp/mut_%d_%d.diff" % (SEED, len(results))
                open(pf, "w").write(diff)
                o = sh("/verif/tools/try_seed.sh %s %s" % (pf, " ".join(owners(rel))), timeout=3600).stdout
                caught = re.findall(r"--- (C\d\d) exit=1", o)
                broken = re.findall(r"--- (C\d\d) exit=2", o)
                rec["status"] = "caught" if caught else ("machinery" if broken else "SURVIVED")
                rec["by"] = caught or broken
                rec["patch"] = pf
                results.append(rec)
                print(json.dumps(rec), flush=True)
    sh("git -C /repo worktree remove --force %s" % wt)
json.dump({"tried": tried, "judged": results}, open(OUT, "w"), indent=1)
surv = [r for r in results if r["status"] == "SURVIVED"]
print("tried %d one-token mutants; %d survive both suites; %d of those rejected by a check; %d survive: see %s"
      % (tried, len(results), sum(1 for r in results if r["status"] == "caught"), len(surv), OUT))
