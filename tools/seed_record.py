#!/usr/bin/env python3
"""usage: tools/seed_record.py <seed-name> [note]   -- run the seed's property check against the seeded change (scratch
worktree, /repo untouched) and record the catching clauses in seeded/<name>/meta.json"""
import json, re, subprocess, sys, collections
name = sys.argv[1]
note = sys.argv[2] if len(sys.argv) > 2 else None
d = "/verif/seeded/" + name
meta = json.load(open(d + "/meta.json"))
pid = meta["property"]
out = subprocess.run(["/verif/tools/try_seed.sh", d + "/patch.diff", pid], capture_output=True, text=True).stdout
cl = collections.Counter(re.findall(r"clause=(\S+)", out))
m = re.search(r"violations=(\d+)", out)
ex = re.search(r"exit=(\d+)", out)
meta["detected_by"] = {"check": "bin/check %s --tier quick" % pid, "clauses": sorted(cl), "rejected_events": int(m.group(1)) if m else None,
                       "exit": int(ex.group(1)) if ex else None}
if note:
    meta["detected_by"]["note"] = note
json.dump(meta, open(d + "/meta.json", "w"), indent=1)
print(name, meta["detected_by"]["exit"], meta["detected_by"]["rejected_events"], sorted(cl))
