#!/usr/bin/env python3
"""usage: tools/seed_regress.py [names...]  -- every recorded seeded change is judged again by its property's quick check
(scratch worktrees, /repo untouched); prints the ones that are NOT caught (exit != 1)."""
import json, re, subprocess, sys, os, concurrent.futures as cf
names = sys.argv[1:] or sorted(os.listdir("/verif/seeded"))
def run(name):
    d = "/verif/seeded/" + name
    meta = json.load(open(d + "/meta.json"))
    pid = meta["property"]
    det = meta.get("detected_by") or {}
    if not isinstance(det, dict):
        det = {}
    if det.get("exit") == 0:
        return name, 1, 0, "", "documented limit of the property's own check: " + det.get("note", "")[:120]
    m2 = re.search(r"bin/check (C\d\d)", det.get("check", ""))
    if m2:
        pid = m2.group(1)   # caught by another property's check (recorded in the seed's meta)
    out = subprocess.run(["/verif/tools/try_seed.sh", d + "/patch.diff", pid], capture_output=True, text=True).stdout
    ex = re.search(r"exit=(\d+)", out); m = re.search(r"violations=(\d+)", out)
    return name, int(ex.group(1)) if ex else -1, int(m.group(1)) if m else -1, out[-300:] if not ex or ex.group(1) != "1" else "", ""
bad = 0
with cf.ThreadPoolExecutor(3) as ex:
    for name, rc, nv, tail, lim in ex.map(run, names):
        print(name, "exit=%d" % rc, "rejected=%d" % nv, lim, flush=True)
        if rc != 1:
            bad += 1; print("   NOT CAUGHT:", tail.replace("\n", " | "), flush=True)
print("seeds not caught: %d of %d" % (bad, len(names)))
