#!/bin/sh
# usage: tools/regress_seeds.sh [pattern]  -- apply every kept seeded change in turn and require its check to reject it
cd /verif
for d in seeded/${1:-*}; do
  n=$(basename $d); id=$(echo $n | cut -d- -f1)
  if ! git -C /repo apply --check /verif/$d/patch.diff 2>/dev/null; then echo "$n SKIP (patch no longer applies)"; continue; fi
  out=$(tools/try_seed.sh /verif/$d/patch.diff $id 2>&1)
  v=$(echo "$out" | grep "^violations:" | cut -d' ' -f2); rc=$(echo "$out" | grep "^exit=" | cut -d= -f2)
  echo "$n exit=$rc violations=$v $(echo "$out" | grep -c MACHINERY) machinery"
done
