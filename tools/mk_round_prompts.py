#!/usr/bin/env python3
"""usage: tools/mk_round_prompts.py <round-dir> <round-number>   -- write one sub-agent prompt per property into
<round-dir>/prompts/<ID>.txt (two independent changes A and B per agent) and create the scratch worktrees <round-dir>/<ID>.
The agents get ONLY the property (text + anchors) and the one-line summaries of the changes already made for it (so that
they do something else); nothing from /verif's machinery."""
import glob
import json
import os
import subprocess
import sys

rd, rn = sys.argv[1], sys.argv[2]
os.makedirs(rd + "/prompts", exist_ok=True)
os.makedirs(rd + "/out", exist_ok=True)
props = [json.loads(l) for l in open("/verif/properties.jsonl")]
earlier = {}
for m in sorted(glob.glob("/verif/seeded/*/meta.json")):
    d = json.load(open(m))
    earlier.setdefault(d["property"], []).append(d["summary"][:260].replace("\n", " "))

DIRECTIONS = {
    "A": "an ORDINARY regression of the kind a tired developer makes while refactoring: a comparison operator one step off "
         "(< for <=), two arguments swapped, a special case dropped, a default changed, a loop bound one short, a sort key "
         "simplified, min for max, a strand branch merged into the other, a copy replaced by a reference, an early return "
         "moved. Put it in a function of the anchored files (or a helper they call) that NONE of the earlier changes listed "
         "below touched. It must still need a specific (if unremarkable) input to show: the test-suites must not notice.",
    "B": "an INVENTIVE one. Directions that have hardly been used: behaviour that depends on which OTHER objects exist in the "
         "process (module-level or class-level state, caches shared between objects); objects obtained as results of other "
         "operations and fed back in; the same public answer reachable by two routes that now disagree; conversions between "
         "the library's own types; an argument that is legal but rarely given (a keyword nobody passes, a flag combination, "
         "an empty-but-not-None container, a subclass instance, a numpy / bool / Fraction number where an int is expected); "
         "the SECOND element / child / block / record where the first is fine; mirrored (minus-strand) coordinate systems; "
         "text with legal but unusual content; the interplay of two public methods each correct alone.",
}

if os.environ.get("ROUND_MODE") == "ordinary":
    DIRECTIONS["B"] = ("a SECOND ordinary regression of the same everyday kind as A (off-by-one, swapped arguments, wrong variable of "
                       "two similar ones, dropped branch, wrong default, min/max or start/end confused, a condition negated or "
                       "weakened, a missing copy), but in a DIFFERENT file or class than A and, if at all possible, in a public "
                       "method or helper that none of the earlier changes touched. Prefer code that ordinary callers reach often.")

for p in props:
    pid = p["id"]
    wt = "%s/%s" % (rd, pid)
    if not os.path.isdir(wt):
        subprocess.run(["git", "-C", "/repo", "worktree", "add", "-q", "--detach", wt, "HEAD"], check=True)
    a = p["anchors"]
    mech = "\n".join("   - %s (%s)" % (m["name"], m["where"]) for m in a.get("mechanism", []))
    el = earlier.get(pid, [])
    elist = "\n".join("   %d. %s ..." % (i + 1, s) for i, s in enumerate(el))
    txt = f"""You are helping to evaluate how well a verification framework for the Python library BioCantor (InscriptaLabs/BioCantor: genomic feature arithmetic with nested coordinate systems, CDS frame/codon logic, GenBank/GFF3/BED/VCF parsers and writers) detects realistic regressions. Your job is to act as a developer who introduces SUBTLE, REALISTIC BUGS - TWO independent ones of different character.

You have your own scratch git worktree of the repository at {wt} (work ONLY there; never touch /repo, and do not read or write anything under /verif).

## The property your changes must break

{pid}: {p['title']}

Statement: {p['statement']}

Quantified over: {p['quantifier']['text']}

Why the existing unit tests cannot settle it: {p['why_tests_cant']}

Code anchors: files {', '.join(a['files'])}; mechanisms:
{mech}

## What to produce

TWO separate, independent changes A and B to the library source under {wt}/inscripta (each applied to the ORIGINAL code on its own, not on top of each other; each plausible as a well-meant refactoring, optimisation, robustness fix or clean-up that a reviewer could wave through), in DIFFERENT functions:

 * change A: {DIRECTIONS['A']}
 * change B: {DIRECTIONS['B']}

For each of them:
 1. the property above no longer holds for some inputs / call sequences;
 2. the code still imports and BOTH test-suites still give exactly the same results as without the change (see "Environment": expected summary lines "1466 passed, 16 errors" and "3 failed, 2117 passed");
 3. the violation needs something specific to manifest - NOT something the test-suites expose;
 4. it is different in mechanism AND location from ALL of these earlier changes already made for this property (do not reuse the same function + same idea; read the list carefully):
{elist}

For each change X in (A, B) write, under {wt}/X/ :
 * patch.diff  - `git diff -- inscripta` of that change alone, made from the worktree root so that `git apply X/patch.diff` works on a clean checkout;
 * demo_{pid}.py - a small stand-alone program (run from the worktree root with /venv/bin/python X/demo_{pid}.py) that exits 0 on the ORIGINAL code and exits non-zero (assertion failure) WITH that change, demonstrating the property violation through the public API. It must check a genuine consequence of the property statement (not an implementation detail such as a private attribute).
 * meta.json - {{"property": "{pid}", "summary": "<file, function, what was changed and why it breaks the property>", "needs": "<what exactly is needed for the violation to manifest, and why everyday use and the test-suites do not hit it>"}}

Verify each yourself before finishing: apply A alone, run both suites (same summary lines as without), run its demo (fails); `git checkout -- inscripta`; the demo passes; then the same for B. Leave the worktree CLEAN at the end (`git checkout -- inscripta`), with both patch files in place. NEVER use `git stash` (the stash is shared between all worktrees of this repository and other people are working in sibling worktrees).

## Environment

Read /tmp/seedkit/README.txt first: this sandbox has no network and newer third-party libraries than the repository expects, so the gene / io layers only import through a small compatibility shim (usage is in that README; it is environment glue, not part of the library). Use /venv/bin/python. Do not install anything. Do not commit. The machine is busy: test runs may take a minute.

Final answer: for each of A and B one short paragraph: file/function changed, the trigger, and the outputs of the suite runs and demo runs.
"""
    open("%s/prompts/%s.txt" % (rd, pid), "w").write(txt)
open(rd + "/process.sh", "w").write(f"""#!/bin/sh
# usage: process.sh ID...   confirm + try the two seeds of each agent
cd /verif
for id in "$@"; do
  for x in A B; do
    lc=$(echo $x | tr AB ab)
    name=$id-{rn}$lc; [ $id = C01 ] && name=C01-{int(rn) + 1}$lc   # C01 seeds are numbered one ahead
    [ -f {rd}/$id/$x/patch.diff ] || {{ echo "$name MISSING"; continue; }}
    [ -d /verif/seeded/$name ] && {{ echo "$name EXISTS"; continue; }}
    c=$(tools/confirm_seed.sh {rd}/$id/$x $id $name 2>&1 | grep -E "CONFIRMED|PATCH DOES NOT" | tr '\\n' ' ')
    if echo "$c" | grep -q "CONFIRMED=1"; then
      r=$(tools/seed_regress.py $name 2>&1 | grep "exit=" | head -1)
      echo "$name $c $r"
    else
      echo "$name $c (not confirmed)"
    fi
  done
done
""")
os.chmod(rd + "/process.sh", 0o755)
print("prompts:", len(props))
