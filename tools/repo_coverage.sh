#!/bin/sh
# Which lines of /repo do the quick checks execute?  (guide for extending the specification: code never observed is
# code about which nothing is decided).  Usage: tools/repo_coverage.sh [IDs...]; report in build/cov/report.txt
HERE="$(cd "$(dirname "$0")/.." && pwd)"
export PYTHONPATH="$HERE/harness"
export PYTHONHASHSEED=0 PYTHONDONTWRITEBYTECODE=1
COV="$HERE/build/cov"; mkdir -p "$COV"; rm -f "$COV"/.coverage*
cat > "$COV/rc" <<EOT
[run]
source = /repo/inscripta
parallel = True
concurrency = multiprocessing
data_file = $COV/.coverage
EOT
IDS="${*:-C01 C02 C03 C04 C05 C06 C07 C08 C09 C10 C11 C12 C13 C14 C15 C16 C17 C18 C19 C20}"
cd "$HERE"
for id in $IDS; do
  /venv/bin/python -m coverage run --rcfile="$COV/rc" -m bcverif.main $id --tier quick > "$COV/$id.log" 2>&1
  echo "$id rc=$?"
done
cd "$COV" && /venv/bin/python -m coverage combine --rcfile="$COV/rc" >/dev/null 2>&1
/venv/bin/python -m coverage report --rcfile="$COV/rc" -m > "$COV/report.txt" 2>&1
tail -3 "$COV/report.txt"
