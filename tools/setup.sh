#!/bin/sh
# Offline setup: parse every spec module, check the toolchain, validate the compatibility shim.
set -e
cd "$(dirname "$0")/.."
mkdir -p build evidence
tools/sany_all.sh
java -version 2>&1 | head -1
# shim validation: the repository's own suite under the shim must give 2117 passed / 3 failed (VCF file reader)
OUT=$(cd /repo && PYTHONPATH=/verif/harness /venv/bin/python -m pytest -q -p no:cacheprovider -p bcverif.pytest_shim -W ignore 2>&1 | tail -1)
echo "shim suite: $OUT"
echo "$OUT" | grep -q "3 failed, 2117 passed" || { echo "SETUP: shim validation counts differ (expected 3 failed, 2117 passed)"; exit 2; }
echo "setup ok"
