#!/bin/sh
# /tmp/seedkit: the environment-compatibility shim alone (no verification machinery), so that sub-agents and
# tools/confirm_seed.sh can run the repository's full test-suite (2 117 pass / 3 fail) in a scratch worktree.
mkdir -p /tmp/seedkit/bcverif
HERE="$(cd "$(dirname "$0")/.." && pwd)"
: > /tmp/seedkit/bcverif/__init__.py
cp "$HERE/harness/bcverif/compat.py" "$HERE/harness/bcverif/pytest_shim.py" /tmp/seedkit/bcverif/
cat > /tmp/seedkit/README.txt <<'EOT'
Environment note (this sandbox has newer third-party libraries than the repository was written for):
  * pinned baseline:   cd <worktree> && /venv/bin/python -m pytest -q -p no:cacheprovider --continue-on-collection-errors -W ignore
                       -> "1466 passed, 16 errors" (the 16 collection errors are dependency drift, expected)
  * full suite (shim): cd <worktree> && PYTHONPATH=/tmp/seedkit /venv/bin/python -m pytest -q -p no:cacheprovider -p bcverif.pytest_shim -W ignore
                       -> "3 failed, 2117 passed" (the 3 failures need a VCF reader that is not installed, expected)
  * in your own scripts, to import the gene / io layers:   import sys; sys.path.insert(0, "/tmp/seedkit"); from bcverif import compat; compat.install()
    BEFORE any `import inscripta`, and run them from the worktree root (the package is not installed).
EOT
echo ok
