#!/bin/sh
# usage: tools/seedsweep.sh "C01 C02" "1 2 3"  -- run quick checks over several seeds, summarise
for p in $1; do for s in $2; do
  VERIF_SEED=$s bin/check $p > /tmp/sweep_${p}_$s.out 2>&1; rc=$?
  echo "$p seed=$s rc=$rc $(grep -c '^VIOLATION' /tmp/sweep_${p}_$s.out) viol; $(tail -1 /tmp/sweep_${p}_$s.out | cut -c1-150)"
done; done
