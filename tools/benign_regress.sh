#!/bin/sh
# usage: tools/benign_regress.sh [IDs...]  -- every behaviour-preserving patch under benign/ judged by the named quick checks
# (default: all twenty) in scratch worktrees; any exit != 0 is a false alarm of the check
IDS="${*:-C01 C02 C03 C04 C05 C06 C07 C08 C09 C10 C11 C12 C13 C14 C15 C16 C17 C18 C19 C20}"
cd /verif
bad=0
for d in benign/*/; do
  n=$(basename $d)
  out=$(tools/try_seed.sh $d/patch.diff $IDS 2>&1 | grep -E "^--- " | grep -v "exit=0 " )
  if [ -n "$out" ]; then echo "$n FALSE ALARM: $out"; bad=$((bad+1)); else echo "$n clean ($IDS)"; fi
done
echo "benign patches with an alarm: $bad"
