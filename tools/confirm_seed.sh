#!/bin/sh
# usage: tools/confirm_seed.sh <seed-src-dir> <ID> <name>
# Confirms a seeded change in a scratch worktree of /repo HEAD: applies, both suites green, demo fails with / passes without.
SRC="$1"; ID="$2"; NAME="$3"
WT=/tmp/confirm_$NAME
git -C /repo worktree remove --force $WT 2>/dev/null
git -C /repo worktree add -q --detach $WT HEAD || exit 3
cp $SRC/demo_$ID.py $WT/ 2>/dev/null || cp $SRC/demo*.py $WT/demo_$ID.py
cd $WT
R=""
if ! git apply $SRC/patch.diff; then echo "PATCH DOES NOT APPLY"; git -C /repo worktree remove --force $WT; exit 4; fi
P1=$(/venv/bin/python -m pytest -q -p no:cacheprovider --continue-on-collection-errors -W ignore 2>&1 | tail -1)
P2=$(PYTHONPATH=/tmp/seedkit /venv/bin/python -m pytest -q -p no:cacheprovider -p bcverif.pytest_shim -W ignore 2>&1 | tail -1)
/venv/bin/python demo_$ID.py > /tmp/confirm_$NAME.with 2>&1; RC_WITH=$?
git checkout -q -- inscripta
/venv/bin/python demo_$ID.py > /tmp/confirm_$NAME.without 2>&1; RC_WITHOUT=$?
cd /verif
git -C /repo worktree remove --force $WT
echo "pinned: $P1"; echo "shim: $P2"; echo "demo with change rc=$RC_WITH; without rc=$RC_WITHOUT"
OK=0
echo "$P1" | grep -q "1466 passed" && echo "$P2" | grep -q "3 failed, 2117 passed" && [ $RC_WITH -ne 0 ] && [ $RC_WITHOUT -eq 0 ] && OK=1
echo "CONFIRMED=$OK"
if [ $OK = 1 ]; then
  D=/verif/seeded/$NAME; mkdir -p $D
  cp $SRC/patch.diff $D/patch.diff; cp $SRC/demo_$ID.py $D/demo.py 2>/dev/null || cp $SRC/demo*.py $D/demo.py
  python3 - "$SRC" "$ID" "$D" "$P1" "$P2" "$RC_WITH" "$RC_WITHOUT" <<'PY'
import json,sys,subprocess
src,pid,d,p1,p2,rw,rwo=sys.argv[1:8]
try: m=json.load(open(src+'/meta.json'))
except Exception: m={}
head=subprocess.run(['git','-C','/repo','rev-parse','--short','HEAD'],capture_output=True,text=True).stdout.strip()
out={"property":pid,"summary":m.get("summary"),"needs":m.get("needs"),"author":"independent sub-agent given only the property text and a scratch worktree",
 "confirmed_by_me":{"repo_head":head,"pinned_suite":p1,"shim_suite":p2,"demo_rc_with_change":int(rw),"demo_rc_without_change":int(rwo),
 "how":"tools/confirm_seed.sh in a scratch worktree of /repo HEAD (removed afterwards)"}, "detected_by": None}
json.dump(out,open(d+'/meta.json','w'),indent=1)
PY
fi
