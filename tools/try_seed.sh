#!/bin/sh
# usage: tools/try_seed.sh <patch.diff> <ID> [tier]   -- apply a seeded change to /repo, run the check, undo
P="$1"; ID="$2"; TIER="${3:-quick}"
git -C /repo apply "$P" || exit 3
cd /verif && bin/check "$ID" --tier "$TIER" > /tmp/try_seed_$ID.out 2>&1; rc=$?
git -C /repo checkout -- . 
grep -c "^VIOLATION" /tmp/try_seed_$ID.out | sed "s/^/violations: /"
grep "^VIOLATION" /tmp/try_seed_$ID.out | sed 's/replay=[^ ]*//' | sort | uniq -c | head -8
grep "MACHINERY" /tmp/try_seed_$ID.out | head -3
tail -1 /tmp/try_seed_$ID.out
echo "exit=$rc"
