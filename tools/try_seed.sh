#!/bin/sh
# usage: tools/try_seed.sh <patch.diff> <ID...>   -- judge a seeded change WITHOUT touching /repo: the patch is applied in a
# scratch worktree of /repo HEAD (BCVERIF_REPO), build / evidence / replays go to a scratch BCVERIF_OUT; both removed after
P="$(readlink -f "$1")"; shift
TAG="$(echo "$P" | md5sum | cut -c1-8)_$$"
WT=/tmp/tryseed_wt_$TAG; OUT=/tmp/tryseed_out_$TAG
git -C /repo worktree add -q --detach $WT HEAD || exit 3
( cd $WT && git apply "$P" ) || { git -C /repo worktree remove --force $WT; echo "PATCH DOES NOT APPLY"; exit 3; }
mkdir -p $OUT
for ID in "$@"; do
  ( cd /verif && BCVERIF_REPO=$WT BCVERIF_OUT=$OUT TIER="${TIER:-quick}" bin/check "$ID" --tier "${TIER:-quick}" > /tmp/try_seed_${ID}_$TAG.out 2>&1 ); rc=$?
  echo "--- $ID exit=$rc violations: $(grep -c '^VIOLATION' /tmp/try_seed_${ID}_$TAG.out)"
  grep "^VIOLATION" /tmp/try_seed_${ID}_$TAG.out | sed 's/replay=[^ ]*//' | sort | uniq -c | head -8
  grep "MACHINERY" /tmp/try_seed_${ID}_$TAG.out | head -3
  tail -1 /tmp/try_seed_${ID}_$TAG.out | cut -c1-200
  rm -f /tmp/try_seed_${ID}_$TAG.out
done
git -C /repo worktree remove --force $WT; rm -rf $OUT
