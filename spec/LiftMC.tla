------------------------------- MODULE LiftMC -------------------------------
(* A child location is lifted level by level up a hierarchy by the library's algorithm (one LiftOne action per
   level).  Invariant: at every level the current location has exactly the bases obtained by composing, base by
   base, the placement maps of the levels crossed, with the product strand -- and reads the same sequence. *)
EXTENDS Lift, TLC
CONSTANTS G, K, Depth, Variant
VARIABLES Ps, child, cur, lvl
vars == <<Ps, child, cur, lvl>>
Clean(l) == (\A i \in DOMAIN l[1] : BLen(l[1][i]) > 0) /\ ~SelfOverlap(l)
Init == /\ \E p1 \in {l \in LocsGK(G, K) : Clean(l)} :
            IF Depth = 1 THEN Ps = <<p1>>
            ELSE \E p2 \in {l \in LocsGK(LenLoc(p1), K) : Clean(l)} : Ps = <<p1, p2>>
        /\ child \in {l \in LocsGK(LenLoc(Ps[Len(Ps)]), K) : LenLoc(l) > 0 /\ ~SelfOverlap(l)}
        /\ cur = child /\ lvl = Len(Ps)
LiftOne == /\ lvl > 0
           /\ cur' = (IF Variant = "forget-strand" THEN <<AlgoLiftOne(cur, Ps[lvl])[1], St(cur)>> ELSE AlgoLiftOne(cur, Ps[lvl]))
           /\ lvl' = lvl - 1 /\ UNCHANGED <<Ps, child>>
Next == LiftOne
Spec == Init /\ [][Next]_vars
Root == [i \in 1..G |-> <<"A", "C", "G", "T", "a", "n", "R", "-">>[((i - 1) % 8) + 1]]
Composes == /\ Bases(cur) = LiftBases(Bases(child), Ps, Len(Ps), lvl)
            /\ St(cur) = LiftStrand(St(child), Ps, Len(Ps), lvl)
SequencePreserved == Extract(cur, LevelSeq(Root, Ps, lvl)) = Extract(child, LevelSeq(Root, Ps, Len(Ps)))
WF == WellFormed(cur, IF lvl = 0 THEN G ELSE LenLoc(Ps[lvl]))
=============================================================================
