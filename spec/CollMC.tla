-------------------------------- MODULE CollMC --------------------------------
(* Range queries as AnnotationCollection._query_by_position computes them without an interval tree: a bin pre-filter
   on the grandchildren (strict mode only, and only when start and end are non-zero) followed by the exact span
   test.  Scaled bin scheme.  Queries apply to query results (chained).  Invariant: every answer is the specified
   member set with the specified bounds, whatever the indexing shortcut does. *)
EXTENDS Collection
CONSTANTS F, N, L, Variant, D
VARIABLES coll, lastq, ok
vars == <<coll, lastq, ok>>
M == MaxSize(F, N, L)
Spans == {p \in (0..(M - 1)) \X (1..(M - 1)) : p[1] < p[2] /\ p[2] - p[1] <= 6}
(* a member with one or two children; children lie inside the member and one of them spans it *)
Members == {<<1, "gene", p[1], p[2], cdg, {<<10, p[1], p[2]>>, <<11, p[1], p[1] + 1>>}>> : p \in Spans, cdg \in BOOLEAN}
Init == /\ \E m1 \in Members : \E p2 \in Spans : \E c2 \in BOOLEAN :
             coll = <<0, M - 1, {m1, <<2, "feature", p2[1], p2[2], FALSE, {<<20, p2[1], p2[2]>>}>>}>>
        /\ lastq = <<>> /\ ok = TRUE
ChildBin(x) == AlgoBin(F, N, L, x[2], x[3], 0)
AlgoMembers(c, qs, qe, codingOnly, cw) ==
  LET bs == IF cw /\ qs # 0 /\ qe # 0
            THEN (IF Variant = "decremented-query" THEN AlgoBinSet(F, N, L, qs, qe - 1, 0) \ (IF qe % Pow(2, F) = 0 THEN {1} ELSE {})
                  ELSE AlgoBinSet(F, N, L, qs, qe, 0))
            ELSE {} IN
  {m \in c[3] : /\ (codingOnly => MCoding(m))
                /\ (bs = {} \/ \E x \in MChildren(m) : ChildBin(x) \in bs)
                /\ Hit(m, qs, qe, cw)}
Query(qs, qe, codingOnly, cw, expand) ==
  /\ ValidRange(coll, qs, qe)
  /\ LET got == AlgoMembers(coll, qs, qe, codingOnly, cw)
         b == SemPositionBounds(coll, qs, qe, codingOnly, cw, expand) IN
     /\ ok' = (got = SemPositionMembers(coll, qs, qe, codingOnly, cw))
     /\ coll' = <<b[1], b[2], got>>
     /\ lastq' = <<qs, qe, codingOnly, cw, expand>>
Next == \E qs, qe \in 0..(M - 1) : \E co, cw, ex \in BOOLEAN : Query(qs, qe, co, cw, ex)
Spec == Init /\ [][Next]_vars
Depth == TLCGet("level") <= D
View == <<coll, ok>>
PrefilterNeverChangesTheAnswer == ok
BoundsContainStrictMembers == (lastq # <<>> /\ lastq[4]) => \A m \in coll[3] : coll[1] <= MS(m) /\ ME(m) <= coll[2]
=============================================================================
