-------------------------------- MODULE Quals --------------------------------
(* Identifier / qualifier extraction (property C18).  Keys come from a finite pool of spellings; Canon maps a
   spelling to the recognised key it matches exactly and case-insensitively, or to "-" (look-alikes).
   A qualifier dictionary is a sequence of <<key, values>> in insertion order; every Sem operator is a function of
   the SET of pairs, hence order-free by construction. *)
EXTENDS Naturals, Integers, Sequences, FiniteSets, FiniteSetsExt, SequencesExt

Canon(k) ==
  CASE k \in {"feature_name", "FEATURE_NAME", "Feature_Name"} -> "feature_name"
    [] k \in {"standard_name", "STANDARD_NAME", "Standard_name"} -> "standard_name"
    [] k \in {"name", "Name", "NAME"} -> "name"
    [] k \in {"gene", "Gene", "GENE"} -> "gene"
    [] k \in {"gene_name", "Gene_Name"} -> "gene_name"
    [] k \in {"label", "LABEL"} -> "label"
    [] k \in {"operon", "Operon"} -> "operon"
    [] k \in {"feature_id", "feature_ID", "FEATURE_ID"} -> "feature_id"
    [] k \in {"id", "ID", "Id"} -> "id"
    [] OTHER -> "-"
NameRank(c) == CASE c = "feature_name" -> 0 [] c = "standard_name" -> 10 [] c = "name" -> 15 [] c = "gene" -> 20
                 [] c = "gene_name" -> 30 [] c = "label" -> 40 [] c = "operon" -> 50 [] OTHER -> -1
IdRank(c) == CASE c = "feature_id" -> 0 [] c = "id" -> 255 [] OTHER -> -1
IsNameKey(k) == NameRank(Canon(k)) >= 0
IsIdKey(k) == IdRank(Canon(k)) >= 0
(* type-like keys: contain _class, gbkey or _type, case-insensitively (table over the pool) *)
IsTypeKey(k) == k \in {"gbkey", "GBKey", "mol_type", "feature_class", "Feature_Class", "sub_type", "_type", "gbkey2",
                       "feature_type", "feature_collection_type"}

NONE == "<none>"
(* q = sequence of <<key, values>>; the value of the present key of least rank, NONE when absent *)
Pick(q, IsKey(_), Rank(_)) ==
  LET cand == {i \in DOMAIN q : IsKey(q[i][1])} IN
  IF cand = {} THEN NONE
  ELSE LET best == CHOOSE i \in cand : \A j \in cand : Rank(Canon(q[i][1])) <= Rank(Canon(q[j][1])) IN q[best][2][1]
(* NAMED DEVIATION (keyed known finding quals:rank0-key-unset): the code's left fold over the qualifiers IN THE ORDER
   GIVEN, whose "nothing seen yet" test (`not feature_key`) is also true for the rank-0 key itself -- so a rank-0 key seen
   earlier is overridden by any recognised key seen later.  CodeFold is that fold, order-dependent on purpose: it
   predicts the wrong answer the code gives, and only that answer is filed under the finding. *)
RECURSIVE CodeFoldNameFrom(_, _, _, _)
CodeFoldNameFrom(q, i, bestRank, bestVal) ==
  IF i > Len(q) THEN bestVal
  ELSE IF IsNameKey(q[i][1]) /\ (bestRank <= 0 \/ NameRank(Canon(q[i][1])) < bestRank)
       THEN CodeFoldNameFrom(q, i + 1, NameRank(Canon(q[i][1])), q[i][2][1])
       ELSE CodeFoldNameFrom(q, i + 1, bestRank, bestVal)
RECURSIVE CodeFoldIdFrom(_, _, _, _)
CodeFoldIdFrom(q, i, bestRank, bestVal) ==
  IF i > Len(q) THEN bestVal
  ELSE IF IsIdKey(q[i][1]) /\ (bestRank <= 0 \/ IdRank(Canon(q[i][1])) < bestRank)
       THEN CodeFoldIdFrom(q, i + 1, IdRank(Canon(q[i][1])), q[i][2][1])
       ELSE CodeFoldIdFrom(q, i + 1, bestRank, bestVal)
CodeFoldName(q) == CodeFoldNameFrom(q, 1, -1, NONE)
CodeFoldId(q) == CodeFoldIdFrom(q, 1, -1, NONE)
SemName(q) == Pick(q, IsNameKey, NameRank)
SemId(q) == Pick(q, IsIdKey, IdRank)
SemTypes(initial, q) == initial \cup UNION {{q[i][2][j] : j \in DOMAIN q[i][2]} : i \in {n \in DOMAIN q : IsTypeKey(q[n][1])}}
(* merge: key-wise union, values ascending (values are naturals standing for order-preserving strings) *)
KeysOf(q) == {q[i][1] : i \in DOMAIN q}
ValsOf(q, k) == UNION {{q[i][2][j] : j \in DOMAIN q[i][2]} : i \in {n \in DOMAIN q : q[n][1] = k}}
SemMerge(q1, q2) == [k \in KeysOf(q1) \cup KeysOf(q2) |-> SetToSortSeq(ValsOf(q1, k) \cup ValsOf(q2, k), <)]
=============================================================================
