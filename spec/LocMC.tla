------------------------------- MODULE LocMC -------------------------------
(* The Location API as a calculator state machine (LocAlgebra of DESIGN §3 C01/C02): the state is the current
   location, an action is one public call with its arguments, the next state is the location the LIBRARY'S
   ALGORITHM (the Algo layer, transcribed) returns.  Action properties state that every step agrees with the declarative
   meaning (the Sem layer), the invariant that every reachable location is well-formed.  Exhaustive over Locs(G, K) and
   all operands in Locs(G, KO), chained to depth D. *)
EXTENDS Loc, TLC
CONSTANTS G, K, KO, D, Variant
VARIABLES cur, last        \* last = <<action name, args..., result-as-observed>> (hidden by VIEW)
vars == <<cur, last>>

Locs(k) == LocsGK(G, k)
MkLoc(bs, st) == IF bs = <<>> THEN EMPTY ELSE <<LibSort(bs, st), st>>

(* ---------------- transcriptions of the library's algorithms ---------------- *)
AlgoOptimize(l) == IF IsEmptyLoc(l) THEN l ELSE AlgoCombine(l, FALSE)
AlgoOptimizeCombine(l) == IF IsEmptyLoc(l) THEN l ELSE AlgoCombine(l, TRUE)
(* relative_interval_to_parent_location: walk, re-sort, optimise, set strand *)
AlgoSub(l, a, b, rs) ==
  IF a = b THEN LET q == IF St(l) = "-" THEN Rel2Par(l, a) + 1 ELSE Rel2Par(l, a)     \* the 5' edge of base a
                IN << <<<<q, q>>>>, RelStrand(rs, St(l)) >>
  ELSE LET w == AlgoWalk(l, a, b)
           w2 == IF Variant = "walk-off-by-one" /\ St(l) = "-" /\ Len(w) > 1
                 THEN [w EXCEPT ![1] = <<w[1][1] + 1, w[1][2]>>] ELSE w
       IN LET o == AlgoOptimize(MkLoc(w2, St(l))) IN MkLoc(o[1], RelStrand(rs, St(l)))   \* reset_strand re-sorts
BlkOverlap(x, y) == BLen(x) > 0 /\ BLen(y) > 0 /\ BlockPos(x) \cap BlockPos(y) # {}
(* _intersection_compound_interval without cgranges: all overlapping block pairs, then optimise *)
AlgoIntersect(a, b, matchStrand) ==
  IF (matchStrand /\ St(a) # St(b)) \/ PosSet(a) \cap PosSet(b) = {} THEN EMPTY
  ELSE LET pairs == {<<i, j>> \in (DOMAIN a[1]) \X (DOMAIN b[1]) : BlkOverlap(a[1][i], b[1][j])}
           blk(p) == <<Max2(a[1][p[1]][1], b[1][p[2]][1]), Min2(a[1][p[1]][2], b[1][p[2]][2])>>
           lst == SetToSeq(pairs)
       IN AlgoOptimize(MkLoc([n \in DOMAIN lst |-> blk(lst[n])], St(a)))
AlgoMinus(a, b, matchStrand) ==
  IF (matchStrand /\ St(a) # St(b)) \/ PosSet(a) \cap PosSet(b) = {} THEN AlgoOptimize(a)
  ELSE LET parts == FlattenSeq([i \in DOMAIN a[1] |-> AlgoMinusBlock(a[1][i], b)])
       IN IF parts = <<>> THEN EMPTY ELSE AlgoOptimize(MkLoc(parts, St(a)))
(* union: left is the accumulated block list, right one block (reduce over the sorted blocks) *)
AlgoUnionStep(left, r, st) ==
  IF Len(left) = 1 THEN
     LET x == left[1] IN
     IF BLen(x) = 0 THEN <<r>> ELSE IF BLen(r) = 0 THEN <<x>>
     ELSE IF BlkOverlap(x, r) THEN << <<Min2(x[1], r[1]), Max2(x[2], r[2])>> >>
     ELSE LibSort(<<x, r>>, st)                                    \* SingleUnionKeepsAdjacent
  ELSE LET ov == SelectSeq(left, LAMBDA x : BlkOverlap(x, r))
           non == SelectSeq(left, LAMBDA x : ~BlkOverlap(x, r))
           merged == IF ov = <<>> THEN r
                     ELSE IF Variant = "union-first-last"
                          THEN <<Min2(r[1], ov[1][1]), Max2(r[2], ov[Len(ov)][2])>>
                          ELSE <<Min2(r[1], Min({ov[i][1] : i \in DOMAIN ov})), Max2(r[2], Max({ov[i][2] : i \in DOMAIN ov}))>>
       IN AlgoOptimize(MkLoc(Append(non, merged), st))[1]
AlgoUnion(a, b) ==
  LET all == SortSeq(a[1] \o b[1], LAMBDA x, y : x[1] < y[1] \/ (x[1] = y[1] /\ x[2] < y[2]))
  IN <<FoldLeft(LAMBDA acc, r : AlgoUnionStep(acc, r, St(a)), <<all[1]>>, Tail(all)), St(a)>>
(* the single/compound and compound/single entry points: compound.union(single) applies one step to a's blocks *)
Fix(l) == IF l[1] = <<>> THEN EMPTY ELSE l
AlgoUnionAny(a, b) == Fix(
  IF NB(a) = 1 /\ NB(b) = 1 THEN <<AlgoUnionStep(a[1], b[1][1], St(a)), St(a)>>
  ELSE IF NB(b) = 1 THEN <<AlgoUnionStep(a[1], b[1][1], St(a)), St(a)>>
  ELSE IF NB(a) = 1 THEN <<AlgoUnionStep(b[1], a[1][1], St(a)), St(a)>>
  ELSE AlgoUnion(a, b))
AlgoGaps(l) ==
  LET o == AlgoOptimizeCombine(l) IN
  IF IsEmptyLoc(o) \/ NB(o) < 2 THEN EMPTY
  ELSE <<[i \in 1..(NB(o) - 1) |-> <<o[1][i][2], o[1][i + 1][1]>>], St(l)>>

(* ---------------- the machine ---------------- *)
Operands == Locs(KO)
Init == cur \in Locs(K) /\ last = <<"init">>
NonEmpty == ~IsEmptyLoc(cur)
Sub(a, b, rs) == /\ NonEmpty /\ 0 <= a /\ a <= b /\ b <= LenLoc(cur) /\ (a = b => a < LenLoc(cur))
                 /\ cur' = AlgoSub(cur, a, b, rs) /\ last' = <<"sub", a, b, rs>>
Optimize == NonEmpty /\ cur' = AlgoOptimize(cur) /\ last' = <<"opt">>
OptimizeCombine == NonEmpty /\ cur' = AlgoOptimizeCombine(cur) /\ last' = <<"optc">>
Intersect(o, ms) == NonEmpty /\ cur' = AlgoIntersect(cur, o, ms) /\ last' = <<"and", o, ms>>
Minus(o, ms) == NonEmpty /\ cur' = AlgoMinus(cur, o, ms) /\ last' = <<"minus", o, ms>>
Union(o) == NonEmpty /\ St(o) = St(cur) /\ cur' = AlgoUnionAny(cur, o) /\ last' = <<"or", o>>
Gaps == NonEmpty /\ cur' = AlgoGaps(cur) /\ last' = <<"gaps">>
Next == \/ \E a, b \in 0..(2 * G) : \E rs \in {"+", "-"} : Sub(a, b, rs)
        \/ Optimize \/ OptimizeCombine \/ Gaps
        \/ \E o \in Operands : \E ms \in BOOLEAN : Intersect(o, ms) \/ Minus(o, ms)
        \/ \E o \in Operands : Union(o)
Spec == Init /\ [][Next]_vars
Depth == TLCGet("level") <= D
View == cur

(* ---------------- properties ---------------- *)
WF == WellFormed(cur, -1)
(* C01: the sub-interval has exactly the bases of the point-wise map.  As a multiset always; in the same ORDER
   whenever the selected bases never turn back along the parent (always, without self-overlap) -- the library
   re-sorts and merges sub-blocks by coordinate: named deviation SelfOverlapOrderLost. *)
SharedStart(l, a, b) == LET w == AlgoWalk(l, a, b) IN \E i, j \in DOMAIN w : i # j /\ w[i][1] = w[j][1]
BagOf(s) == [x \in Range(s) |-> Cardinality({i \in DOMAIN s : s[i] = x})]
(* `last'` names the action just taken and its arguments, so each property is evaluated once per transition *)
Act(name) == last'[1] = name
SubIsPointwise ==
  [][(Act("sub") /\ last'[2] < last'[3]) =>
        LET a == last'[2] b == last'[3] rs == last'[4] IN
        /\ BagOf(Bases(cur')) = BagOf(SubBases(cur, a, b, rs))
        /\ (Monotone(SubBases(cur, a, b, rs), RelStrand(St(cur), rs)) => Bases(cur') = SubBases(cur, a, b, rs))
        /\ WalkBases(cur, a, b) = SubSeq(Bases(cur), a + 1, b)
        /\ St(cur') = RelStrand(St(cur), rs)]_vars
SubStrict ==   \* expected to FAIL on self-overlapping layouts (spec-level image of the C01 known finding)
  [][(Act("sub") /\ last'[2] < last'[3]) => Bases(cur') = SubBases(cur, last'[2], last'[3], last'[4])]_vars
OptimizeSem == [][(Act("opt") \/ Act("optc")) => (PosSet(cur') = PosSet(cur) /\ Optimised(cur')
                                                  /\ (Act("optc") => CombinedNF(cur')))]_vars
IntersectSem == [][Act("and") =>
                     /\ PosSet(cur') = SemIntersectPos(cur, last'[2], NoParent, NoParent, last'[3], FALSE)
                     /\ (IsEmptyLoc(cur') \/ St(cur') = St(cur)) /\ Optimised(cur')]_vars
(* difference: claimed for operands without self-overlap *)
MinusSem == [][(Act("minus") /\ ~SelfOverlap(cur) /\ ~SelfOverlap(last'[2])) =>
                     /\ PosSet(cur') = SemMinusPos(cur, last'[2], NoParent, NoParent, last'[3])
                     /\ (IsEmptyLoc(cur') \/ St(cur') = St(cur)) /\ Optimised(cur')]_vars
UnionSem == [][Act("or") => (PosSet(cur') = SemUnionPos(cur, last'[2]) /\ (IsEmptyLoc(cur') \/ St(cur') = St(cur)))]_vars
GapsSem == [][Act("gaps") => (PosSet(cur') = SemGapsPos(cur) /\ (IsEmptyLoc(cur') \/ St(cur') = St(cur)))]_vars
(* algebraic sanity of the Sem layer itself *)
ASSUME \A S \in SUBSET (0..5) : S = {} \/ PosSet(<<CanonBlocks(S), "+">>) = S
=============================================================================
