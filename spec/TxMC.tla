-------------------------------- MODULE TxMC --------------------------------
(* A cursor that is converted between the chromosome, transcript and CDS coordinate systems of one transcript by
   the public conversion calls.  Ghost variable `base` = the chromosome base the cursor denotes.  Invariant: every
   path of conversions denotes the same base (the systems commute), conversions out of a system's range are
   refused; UTR5 . CDS . UTR3 is an exact partition of the exons. *)
EXTENDS Tx, TLC
CONSTANTS G, K, Variant
VARIABLES ex, ca, cb, sys, pos, base, refused
vars == <<ex, ca, cb, sys, pos, base, refused>>
Layouts == {l \in LocsGK(G, K) : (\A i \in DOMAIN l[1] : BLen(l[1][i]) > 0) /\ ~SelfOverlap(l)}
Init == /\ ex \in Layouts /\ ca \in 0..G /\ cb \in 0..G /\ ca < cb /\ cb <= LenLoc(ex)
        /\ sys = "chr" /\ pos \in PosSet(ex) /\ base = pos /\ refused = FALSE
Cds == CdsLoc(ex, ca, cb)
(* the library composes tx <-> cds through the chromosome *)
ChrToTx == sys = "chr" /\ sys' = "tx" /\ pos' = Min(Par2RelSet(ex, pos)) /\ UNCHANGED <<ex, ca, cb, base, refused>>
TxToChr == sys = "tx" /\ sys' = "chr" /\ pos' = Rel2Par(ex, pos) /\ UNCHANGED <<ex, ca, cb, base, refused>>
ChrToCds == /\ sys = "chr"
            /\ IF pos \in PosSet(Cds) THEN sys' = "cds" /\ pos' = Min(Par2RelSet(Cds, pos)) /\ UNCHANGED refused
               ELSE refused' = TRUE /\ UNCHANGED <<sys, pos>>
            /\ UNCHANGED <<ex, ca, cb, base>>
CdsToChr == sys = "cds" /\ sys' = "chr" /\ pos' = Rel2Par(Cds, pos) /\ UNCHANGED <<ex, ca, cb, base, refused>>
TxToCds == /\ sys = "tx"
           /\ LET upper == IF Variant = "span-bound" THEN MaxEnd(Cds) - MinStart(Cds) ELSE cb - ca IN
              IF ca <= pos /\ pos - ca < upper THEN sys' = "cds" /\ pos' = pos - ca /\ UNCHANGED refused
              ELSE refused' = TRUE /\ UNCHANGED <<sys, pos>>
           /\ UNCHANGED <<ex, ca, cb, base>>
CdsToTx == sys = "cds" /\ sys' = "tx" /\ pos' = pos + ca /\ UNCHANGED <<ex, ca, cb, base, refused>>
Next == ~refused /\ (ChrToTx \/ TxToChr \/ ChrToCds \/ CdsToChr \/ TxToCds \/ CdsToTx)
Spec == Init /\ [][Next]_vars
Denotes == ~refused => base = (CASE sys = "chr" -> pos [] sys = "tx" -> Rel2Par(ex, pos) [] sys = "cds" -> Rel2Par(Cds, pos))
InRange == ~refused => (CASE sys = "chr" -> pos \in PosSet(ex) [] sys = "tx" -> pos \in 0..(LenLoc(ex) - 1)
                          [] sys = "cds" -> pos \in 0..(cb - ca - 1))
RefusedOnlyOutside == refused => base \notin PosSet(Cds)
Partition == /\ Utr5Bases(ex, ca) \o Bases(Cds) \o Utr3Bases(ex, cb) = TxBases(ex)
             /\ Bases(Cds) = CdsBases(ex, ca, cb)
             /\ CdsStartOnTx(ex, Cds) = ca
IntronsAreSpanMinusExons == IntronPos(ex) \cap PosSet(ex) = {} /\ IntronPos(ex) \cup PosSet(ex) = MinStart(ex)..(MaxEnd(ex) - 1)
=============================================================================
