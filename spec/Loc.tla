-------------------------------- MODULE Loc --------------------------------
(* Locations: coordinate maps (C01) and set algebra (C02).
   A location value is <<blocks, strand>> with blocks a sequence of <<s, e>> (0-based half-open) in the order the
   library exposes them (ascending start), strand in {"+", "-", "."}.  EMPTY is << <<>>, "e" >>.
   Sem* operators are the declarative meaning (position sets, base lists); Algo* operators transcribe the
   library's case analysis and loops.  TLC proves Algo* = Sem* on all bounded instances (LocMC);
   verdicts on the implementation use the Sem layer only. *)
EXTENDS Naturals, Integers, Sequences, FiniteSets, SequencesExt, FiniteSetsExt, Tables

EMPTY == << <<>>, "e" >>
IsEmptyLoc(l) == l[2] = "e"
Blocks(l) == l[1]
St(l) == l[2]
NB(l) == Len(l[1])
BLen(b) == b[2] - b[1]
Max2(a, b) == IF a >= b THEN a ELSE b
Min2(a, b) == IF a <= b THEN a ELSE b
Abs(x) == IF x < 0 THEN -x ELSE x
SumSeq(s) == FoldLeft(LAMBDA acc, x : acc + x, 0, s)
LenLoc(l) == SumSeq([i \in DOMAIN l[1] |-> BLen(l[1][i])])
BlockPos(b) == b[1]..(b[2] - 1)
PosSet(l) == UNION {BlockPos(l[1][i]) : i \in DOMAIN l[1]}
StartOf(l) == l[1][1][1]
LastEnd(l) == l[1][Len(l[1])][2]                     \* what the library calls .end (end of the last block)
MaxEnd(l) == Max({l[1][i][2] : i \in DOMAIN l[1]})     \* the true end of the span
MinStart(l) == Min({l[1][i][1] : i \in DOMAIN l[1]})
SelfOverlap(l) == \E i, j \in DOMAIN l[1] : i < j /\ BlockPos(l[1][i]) \cap BlockPos(l[1][j]) # {}
Nested(l) == ~IsEmptyLoc(l) /\ LastEnd(l) # MaxEnd(l)
Directional(s) == s \in {"+", "-"}

(* ---------------------------------------------------------------- C01: coordinate maps *)
(* the order in which the library stores blocks: by (start, end) on "+" and by (start, -end) otherwise *)
LibLess(x, y, st) == x[1] < y[1] \/ (x[1] = y[1] /\ (IF st = "+" THEN x[2] <= y[2] ELSE x[2] >= y[2]))
LibSort(bs, st) == SortSeq(bs, LAMBDA x, y : LibLess(x, y, st) /\ x # y)
BlockBases(b, st) == IF st = "-" THEN [i \in 1..BLen(b) |-> b[2] - i] ELSE [i \in 1..BLen(b) |-> b[1] + i - 1]
ScanOrder(l) == IF St(l) = "-" THEN Reverse(l[1]) ELSE l[1]
(* parent positions of the location's bases in 5'->3' order *)
Bases(l) == FlattenSeq([i \in DOMAIN l[1] |-> BlockBases(ScanOrder(l)[i], St(l))])
Rel2Par(l, i) == Bases(l)[i + 1]                                       \* 0-based relative position
Par2RelSet(l, p) == {i - 1 : i \in {j \in DOMAIN Bases(l) : Bases(l)[j] = p}}
(* A base list is MONOTONE for strand ns when it runs along the parent in the direction of ns without turning back: only then is its order representable by
   coordinate-sorted blocks in every case.  Always true for sub-intervals of locations without self-overlap. *)
Monotone(sub, ns) == IF ns = "-" THEN \A i \in 1..(Len(sub) - 1) : sub[i] > sub[i + 1]
                     ELSE \A i \in 1..(Len(sub) - 1) : sub[i] < sub[i + 1]
(* relative sub-interval [a, b) read on relative strand rs: the bases, in the order of the NEW location *)
SubBases(l, a, b, rs) == LET sub == SubSeq(Bases(l), a + 1, b) IN IF rs = "-" THEN Reverse(sub) ELSE sub
(* q relative to outer: relative positions (in outer) of the parent positions q shares with outer *)
RelToPosSet(q, outer) == UNION {Par2RelSet(outer, p) : p \in PosSet(q) \cap PosSet(outer)}

(* the library's block walk for relative_interval_to_parent_location (CompoundInterval) *)
RECURSIVE AlgoWalkRec(_, _, _, _, _)
AlgoWalkRec(blocks, st, tillStart, tillEnd, acc) ==
  IF blocks = <<>> \/ tillEnd < 1 THEN acc
  ELSE LET blk == Head(blocks) n == BLen(blk) IN
       IF n <= tillStart THEN AlgoWalkRec(Tail(blocks), st, tillStart - n, tillEnd, acc)
       ELSE LET a == tillStart
                b == Min2(n, tillStart + tillEnd)
                sub == IF st = "-" THEN <<blk[2] - b, blk[2] - a>> ELSE <<blk[1] + a, blk[1] + b>>
            IN AlgoWalkRec(Tail(blocks), st, 0, tillEnd - (b - a), Append(acc, sub))
AlgoWalk(l, a, b) == AlgoWalkRec(ScanOrder(l), St(l), a, b - a, <<>>)
(* bases covered by the walk's sub-blocks, in walk order (before the library re-sorts them) *)
WalkBases(l, a, b) == LET w == AlgoWalk(l, a, b) IN FlattenSeq([i \in DOMAIN w |-> BlockBases(w[i], St(l))])

(* the bounded input space: every layout of 1..k blocks over 0..g in the order the library stores them *)
BlockSetG(g) == {b \in (0..g) \X (0..g) : b[1] <= b[2]}
LibSorted(bs, st) == \A i \in 1..(Len(bs) - 1) : LibLess(bs[i], bs[i + 1], st)
LocsGK(g, k) == UNION { UNION { {<<bs, st>> : bs \in {f \in [1..n -> BlockSetG(g)] : LibSorted(f, st)}} : n \in 1..k } : st \in {"+", "-"} }

(* ---------------------------------------------------------------- outcomes of calls *)
(* an outcome is <<"v", value...>> or <<"x", exception class name>> *)
IsVal(o) == o[1] = "v"
IsExc(o) == o[1] = "x"
DocumentedExc == {"BioCantorException", "InvalidStrandException", "InvalidPositionException",
  "UnsupportedOperationException", "LocationException", "LocationOverlapException", "EmptyLocationException",
  "AlphabetError", "NoSuchAncestorException", "ValidationException", "InvalidCDSIntervalError",
  "EmptySequenceFastaError", "NoncodingTranscriptError", "InvalidAnnotationError", "InvalidQueryError",
  "ParentException", "MismatchedParentException", "NullParentException", "NullSequenceException",
  "MismatchedFrameException", "DuplicateFeatureError", "DuplicateTranscriptError", "BioCantorIOException",
  "InvalidInputError", "DuplicateSequenceException", "BEDExportException", "BEDMissingSequenceNameError",
  "FastaExportError", "GenBankParserError", "GenBankLocusTagError", "GenBankMultipleTranscriptFeatureError",
  "EmptyGenBankError", "GenBankExportError", "GenBankLocationException", "GenBankNullStrandException",
  "GFF3FastaException", "GFF3ExportException", "GFF3MissingSequenceNameError", "GFF3ParserError",
  "GFF3ChildParentMismatchError", "GFF3LocusTagError", "EmptyGFF3Exception", "TblExportException",
  "LocusTagException", "ValueError", "TypeError", "NotImplementedError"}
Rejected(o) == IsExc(o) /\ o[2] \in DocumentedExc

(* ---------------------------------------------------------------- C02: set algebra *)
(* normal forms *)
NonEmptyBlocks(bs) == SelectSeq(bs, LAMBDA b : b[2] > b[1])
RECURSIVE MergeRec(_, _, _)
(* bs sorted by start; overlapToo = FALSE merges only exactly-adjacent blocks (optimize_blocks),
   TRUE merges adjacent and overlapping ones (optimize_and_combine_blocks) *)
MergeRec(bs, overlapToo, acc) ==
  IF bs = <<>> THEN acc
  ELSE IF acc = <<>> THEN MergeRec(Tail(bs), overlapToo, <<Head(bs)>>)
  ELSE LET cur == acc[Len(acc)] nxt == Head(bs)
           combine == IF overlapToo THEN cur[2] >= nxt[1] ELSE cur[2] = nxt[1] IN
       IF combine THEN MergeRec(Tail(bs), overlapToo, [acc EXCEPT ![Len(acc)] = <<cur[1], Max2(cur[2], nxt[2])>>])
       ELSE MergeRec(Tail(bs), overlapToo, Append(acc, nxt))
AlgoCombine(l, overlapToo) ==
  LET m == MergeRec(NonEmptyBlocks(l[1]), overlapToo, <<>>) IN IF m = <<>> THEN EMPTY ELSE <<m, l[2]>>
(* canonical block list of a position set: maximal runs, ascending *)
RunStarts(S) == {p \in S : (p - 1) \notin S}
RunEnd(S, p) == CHOOSE e \in {q + 1 : q \in S} : e > p /\ (e \notin S) /\ \A r \in p..(e - 1) : r \in S
CanonBlocks(S) == LET st == SetToSortSeq(RunStarts(S), <) IN [i \in DOMAIN st |-> <<st[i], RunEnd(S, st[i])>>]
LocOfSet(S, strand) == IF S = {} THEN EMPTY ELSE <<CanonBlocks(S), strand>>
IsSortedBlocks(bs) == \A i \in 1..(Len(bs) - 1) : bs[i][1] <= bs[i + 1][1]
(* structural well-formedness of any returned location; bound = sequence length of the parent or -1 *)
WellFormed(l, bound) ==
  \/ IsEmptyLoc(l) /\ l[1] = <<>>
  \/ /\ l[2] \in Strands /\ Len(l[1]) >= 1
     /\ \A i \in DOMAIN l[1] : 0 <= l[1][i][1] /\ l[1][i][1] <= l[1][i][2]
     /\ IsSortedBlocks(l[1])
     /\ (bound >= 0 => MaxEnd(l) <= bound)
(* after optimisation: no empty blocks, no exactly-adjacent neighbours *)
Optimised(l) == IsEmptyLoc(l) \/ (/\ \A i \in DOMAIN l[1] : l[1][i][1] < l[1][i][2]
                                  /\ \A i \in 1..(Len(l[1]) - 1) : l[1][i][2] # l[1][i + 1][1])
CombinedNF(l) == IsEmptyLoc(l) \/ (/\ \A i \in DOMAIN l[1] : l[1][i][1] < l[1][i][2]
                                   /\ \A i \in 1..(Len(l[1]) - 1) : l[1][i][2] < l[1][i + 1][1])

(* spans: the meaning uses the true span [MinStart, MaxEnd) *)
SpanPos(l) == IF IsEmptyLoc(l) THEN {} ELSE MinStart(l)..(MaxEnd(l) - 1)
EffPos(l, fullSpan) == IF fullSpan THEN SpanPos(l) ELSE PosSet(l)
StrandOK(a, b, matchStrand) == ~matchStrand \/ St(a) = St(b)

(* parents: a parent descriptor is <<id, seqlen>> with id = "" for no parent, seqlen = -1 for no sequence.
   ParentsAgree = the library's equals_except_location on such flat parents *)
NoParent == <<"", -1>>
ParentsAgree(pa, pb) == pa = pb
SemOverlap(a, b, pa, pb, matchStrand, fullSpan) ==
  /\ ~IsEmptyLoc(a) /\ ~IsEmptyLoc(b)
  /\ ParentsAgree(pa, pb) /\ StrandOK(a, b, matchStrand)
  /\ EffPos(a, fullSpan) \cap EffPos(b, fullSpan) # {}
SemIntersectPos(a, b, pa, pb, matchStrand, fullSpan) ==
  IF SemOverlap(a, b, pa, pb, matchStrand, fullSpan) THEN EffPos(a, fullSpan) \cap EffPos(b, fullSpan) ELSE {}
SemMinusPos(a, b, pa, pb, matchStrand) ==
  IF SemOverlap(a, b, pa, pb, matchStrand, FALSE) THEN PosSet(a) \ PosSet(b) ELSE PosSet(a)
SemUnionPos(a, b) == PosSet(a) \cup PosSet(b)
SemContains(a, b, pa, pb, matchStrand, fullSpan) ==
  /\ SemOverlap(a, b, pa, pb, matchStrand, fullSpan)
  /\ EffPos(b, fullSpan) \subseteq EffPos(a, fullSpan)
HullPos(S) == IF S = {} THEN {} ELSE Min(S)..Max(S)
SemGapsPos(l) == HullPos(PosSet(l)) \ PosSet(l)        \* positions strictly between covered positions
(* documented distance: functions of the end points *)
BlockGap(x, y) == Min2(Abs(x[1] - y[2]), Abs(x[2] - y[1]))
SemDistance(a, b, kind) ==
  CASE kind = "STARTS" -> Abs(MinStart(a) - MinStart(b))
    [] kind = "ENDS" -> Abs(MaxEnd(a) - MaxEnd(b))
    [] kind = "OUTER" -> Max2(Abs(MinStart(a) - MaxEnd(b)), Abs(MaxEnd(a) - MinStart(b)))
    [] kind = "INNER" -> IF PosSet(a) \cap PosSet(b) # {} THEN 0
                         ELSE Min({BlockGap(a[1][i], b[1][j]) : i \in DOMAIN a[1], j \in DOMAIN b[1]})
ShiftLoc(l, d) == <<[i \in DOMAIN l[1] |-> <<l[1][i][1] + d, l[1][i][2] + d>>], l[2]>>
SemExtendAbsPos(l, x, y) == PosSet(l) \cup ((MinStart(l) - x)..(MinStart(l) - 1)) \cup (MaxEnd(l)..(MaxEnd(l) + y - 1))
(* reflection of a location inside its own span, strand flipped *)
SemReversePos(l) == {MinStart(l) + MaxEnd(l) - 1 - p : p \in PosSet(l)}

(* ---- the library's case analysis for SingleInterval.minus, transcribed (one block of self against other's blocks) *)
RECURSIVE AlgoMinusRec(_, _, _, _)
AlgoMinusRec(cs, ce, others, acc) ==
  IF others = <<>> THEN Append(acc, <<cs, ce>>)
  ELSE LET blk == Head(others) IN
       IF blk[2] <= cs THEN AlgoMinusRec(cs, ce, Tail(others), acc)
       ELSE IF blk[1] >= ce THEN Append(acc, <<cs, ce>>)
       ELSE IF blk[1] >= cs /\ blk[2] <= ce THEN AlgoMinusRec(blk[2], ce, Tail(others), Append(acc, <<cs, blk[1]>>))
       ELSE IF blk[1] < cs /\ blk[2] <= ce THEN AlgoMinusRec(blk[2], ce, Tail(others), acc)
       ELSE Append(acc, <<cs, blk[1]>>)
BlockContains(outer, inner) == outer[1] <= inner[1] /\ inner[2] <= outer[2] /\ inner[2] > inner[1] /\ outer[2] > outer[1]
AlgoMinusBlock(blk, other) ==
  IF BlockPos(blk) \cap PosSet(other) = {} THEN <<blk>>
  ELSE IF \E j \in DOMAIN other[1] : BlockContains(other[1][j], blk) THEN <<>>
  ELSE NonEmptyBlocks(AlgoMinusRec(blk[1], blk[2], other[1], <<>>))
AlgoMinusPos(a, b) == UNION {UNION {BlockPos(x) : x \in Range(AlgoMinusBlock(a[1][i], b))} : i \in DOMAIN a[1]}
=============================================================================
