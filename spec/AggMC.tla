-------------------------------- MODULE AggMC --------------------------------
(* Children are appended one at a time to a gene under construction; after every append the library's primary
   selection (a stable sort by (-cdsLen, -splicedLen) of <<cds, len, index>> triples, first element) must name the
   child the documented rule names.  Variant "reverse-sort" = sorted(triples, reverse=True) (index takes part). *)
EXTENDS Aggregates, TLC
CONSTANTS MaxChildren, MaxLen, Variant
VARIABLES ch
Init == ch = <<>>
Add(c, l, f) == Len(ch) < MaxChildren /\ ch' = Append(ch, <<c, l, f>>)
Next == \E c \in 0..MaxLen : \E l \in 1..MaxLen : \E f \in BOOLEAN : c <= l /\ Add(c, l, f)
Spec == Init /\ [][Next]_ch
(* the library's computation: stable sort of index triples *)
Triples == [i \in DOMAIN ch |-> <<ch[i][1], ch[i][2], i>>]
KeyLess(x, y) == IF Variant = "reverse-sort"
                 THEN x[1] > y[1] \/ (x[1] = y[1] /\ x[2] > y[2]) \/ (x[1] = y[1] /\ x[2] = y[2] /\ x[3] > y[3])
                 ELSE x[1] > y[1] \/ (x[1] = y[1] /\ x[2] > y[2]) \/ (x[1] = y[1] /\ x[2] = y[2] /\ x[3] < y[3])
AlgoPrimary == IF Cardinality(Flagged(ch)) = 1 THEN CHOOSE i \in Flagged(ch) : TRUE
               ELSE SortSeq(Triples, KeyLess)[1][3]
PrimaryAgrees == (ch # <<>> /\ ~PrimaryIsError(ch)) => AlgoPrimary = SemPrimary(ch)
=============================================================================
