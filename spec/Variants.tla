------------------------------ MODULE Variants ------------------------------
(* Variant haplotypes (property C13).  Reference R = sequence of letters; a variant is <<s, e, alt>> (0-based
   half-open reference interval, alt = sequence of letters); a haplotype V = variants in ascending, non-overlapping
   order.  Sem: the literal edit and the edited image of a location.  Algo: the library's per-variant case analysis
   and its sequential application. *)
EXTENDS SeqAlg

Delta(v) == Len(v[3]) - (v[2] - v[1])
RECURSIVE AltRec(_, _, _, _)
AltRec(R, V, k, from) ==                          \* from = next reference position (0-based) not yet copied
  IF k > Len(V) THEN SubSeq(R, from + 1, Len(R))
  ELSE SubSeq(R, from + 1, V[k][1]) \o V[k][3] \o AltRec(R, V, k + 1, V[k][2])
Alt(R, V) == AltRec(R, V, 1, 0)                   \* literal substitution of every variant's bases
(* shift of a reference coordinate x (a block boundary): all variants that end at or before it *)
Shift(V, x) == SumSeq([k \in DOMAIN V |-> IF V[k][2] <= x THEN Delta(V[k]) ELSE 0])
(* the premise of the lift-over claim: every variant lies wholly inside one block or wholly outside all blocks *)
Inside(v, b) == b[1] <= v[1] /\ v[2] <= b[2]
Outside(v, l) == (v[1]..(v[2] - 1)) \cap PosSet(l) = {}
Premise(l, V) == \A k \in DOMAIN V : Outside(V[k], l) \/ \E i \in DOMAIN l[1] : Inside(V[k], l[1][i])
(* edited image of a location: every block keeps its reference bases outside variants and takes the variants' bases *)
SemLiftBlocks(l, V) == [i \in DOMAIN l[1] |-> <<l[1][i][1] + Shift(V, l[1][i][1]), l[1][i][2] + Shift(V, l[1][i][2])>>]
SemLiftPos(l, V) == UNION {BlockPos(SemLiftBlocks(l, V)[i]) : i \in DOMAIN l[1]}
SemLiftLoc(l, V) == LET bs == NonEmptyBlocks(SemLiftBlocks(l, V)) IN IF bs = <<>> THEN EMPTY ELSE <<bs, St(l)>>

(* ---- the library's case analysis for one block and one variant (_lift_over_chromosome_location_single_interval) *)
AlgoBlock(b, v) ==      \* returns <<>> for "EmptyLocation", else <<newStart, newEnd>>
  LET vs == v[1] ve == v[2] a == Len(v[3]) d == Delta(v) os == b[1] oe == b[2] IN
  IF d >= 0 THEN << IF os < ve THEN os ELSE os + d, IF oe < ve THEN oe ELSE oe + d >>
  ELSE IF vs + a <= os /\ os <= oe /\ oe <= ve THEN <<>>
  ELSE LET left == IF vs + a <= os /\ os < ve THEN ve - os ELSE 0
           ns == IF os < ve + d THEN os ELSE os + d + left
           ne == IF oe <= ve + d THEN oe ELSE oe + Max2(d, d - oe + ve) IN <<ns, ne>>
(* lift_over_location of one variant: untouched when the variant keeps the length or lies after the location *)
AlgoLiftSingle(l, v) ==
  IF Delta(v) = 0 \/ MaxEnd(l) <= v[1] THEN l
  ELSE LET bs == SelectSeq([i \in DOMAIN l[1] |-> AlgoBlock(l[1][i], v)], LAMBDA x : x # <<>>) IN
       IF bs = <<>> THEN EMPTY ELSE <<bs, St(l)>>
(* the collection applies its variants left to right, each with its ORIGINAL coordinates (KnownSequentialShift) *)
RECURSIVE AlgoLiftSeq(_, _, _)
AlgoLiftSeq(l, V, k) == IF k > Len(V) \/ IsEmptyLoc(l) THEN l
                        ELSE AlgoLiftSeq(LET bs == SelectSeq([i \in DOMAIN l[1] |-> AlgoBlock(l[1][i], V[k])], LAMBDA x : x # <<>>)
                                         IN IF bs = <<>> THEN EMPTY ELSE <<bs, St(l)>>, V, k + 1)
(* the family on which the sequential application is wrong: a length-changing variant that is not the last *)
ShiftingNonLast(V) == \E k \in 1..(Len(V) - 1) : Delta(V[k]) # 0
=============================================================================
