------------------------------- MODULE CDSMC -------------------------------
(* The library's frame-cleaning loop (_prepare_multi_exon_window_for_scan_codon_locations) as a state machine: one
   action per loop iteration over the exons, with the library's own variables (cleaned relative starts/ends,
   next_frame), followed by Finish (building the cleaned location, which can fail).  Invariant: after every
   iteration the bases selected by the cleaned relative blocks are the bases the declarative walk (CDS!KeptRec)
   has kept.  Variant "no-cascade" is the loop before the repair of the C05 defect (the incomplete codon was removed
   from the last block only, driving it to negative length: TrailingCodonSpansBlocks); it is kept as a control. *)
EXTENDS CDS, TLC
CONSTANTS G, K, Variant
VARIABLES cds, j, cstarts, cends, nextFrame, failed, done
vars == <<cds, j, cstarts, cends, nextFrame, failed, done>>

(* exon layouts: 1..K non-empty blocks, pairwise non-overlapping (0-bp gaps allowed), either strand *)
Layouts == {l \in LocsGK(G, K) : (\A i \in DOMAIN l[1] : BLen(l[1][i]) > 0) /\ ~SelfOverlap(l)}
FrameVecs(n) == [1..n -> 0..2]
Init == /\ \E l \in Layouts : \E fv \in FrameVecs(NB(l)) : cds = <<l, fv>>
        /\ j = 1 /\ cstarts = <<>> /\ cends = <<>> /\ nextFrame = 0 /\ failed = FALSE /\ done = FALSE

Loc0 == cds[1]
Ex == Exons5(cds)
Fr == Frames5(cds)
FirstRel(p) == Min(Par2RelSet(Loc0, p))             \* parent_to_relative_pos returns the first match
TotalCleaned == SumSeq([i \in DOMAIN cstarts |-> cends[i] - cstarts[i]])

RECURSIVE TrimTail(_, _, _)
TrimTail(ss, es, shift) ==
  IF shift > 0 /\ es[Len(es)] - ss[Len(ss)] < shift
  THEN TrimTail(SubSeq(ss, 1, Len(ss) - 1), SubSeq(es, 1, Len(es) - 1), shift - (es[Len(es)] - ss[Len(ss)]))
  ELSE <<ss, [es EXCEPT ![Len(es)] = es[Len(es)] - shift]>>
Step ==
  /\ ~done /\ j <= Len(Ex)
  /\ LET exon == Ex[j] frame == Fr[j]
         a == FirstRel(exon[1]) b == FirstRel(exon[2] - 1)
         rs0 == Min2(a, b) re == Max2(a, b) + 1
         resync == nextFrame # frame
         skipv == IF Variant = "skip-is-phase" THEN (3 - frame) % 3 ELSE frame
         rs == IF resync THEN rs0 + skipv ELSE rs0
         shift == TotalCleaned % 3
         trim == resync /\ shift > 0 /\ Variant # "no-trailing-trim"
         \* the incomplete codon is removed from the tail of the cleaned blocks, popping blocks it swallows
         \* (Variant "no-cascade" = the code before the fix: only the last block is shortened)
         trimmed == IF ~trim THEN <<cstarts, cends>>
                    ELSE IF Variant = "no-cascade" THEN <<cstarts, [cends EXCEPT ![Len(cends)] = cends[Len(cends)] - shift]>>
                    ELSE TrimTail(cstarts, cends, shift)
         starts1 == trimmed[1]
         ends1 == trimmed[2]
         nf0 == IF resync THEN 0 ELSE nextFrame
     IN IF rs >= re
        THEN /\ cends' = ends1 /\ cstarts' = starts1 /\ nextFrame' = nf0
        ELSE /\ cstarts' = Append(starts1, rs) /\ cends' = Append(ends1, re) /\ nextFrame' = (nf0 + re - rs) % 3
  /\ j' = j + 1 /\ UNCHANGED <<cds, failed, done>>
(* building the cleaned location: relative_interval_to_parent_location rejects a block with start > end *)
Finish == /\ ~done /\ j > Len(Ex)
          /\ failed' = ((\E i \in DOMAIN cstarts : cstarts[i] > cends[i]) \/ (\A i \in DOMAIN cstarts : cstarts[i] >= cends[i]))
          /\ done' = TRUE /\ UNCHANGED <<cds, j, cstarts, cends, nextFrame>>
Next == Step \/ Finish
Spec == Init /\ [][Next]_vars

AlgoKept == FlattenSeq([i \in DOMAIN cstarts |-> IF cstarts[i] >= cends[i] THEN <<>> ELSE SubSeq(Bases(Loc0), cstarts[i] + 1, cends[i])])
Broken == \E i \in DOMAIN cstarts : cstarts[i] > cends[i]
(* the declarative walk over the exons processed so far *)
SemSoFar == KeptRec(SubSeq(Ex, 1, j - 1), SubSeq(Fr, 1, j - 1), St(Loc0), 1, <<>>, 0)
(* while the loop is running the last cleaned block may still carry a pending partial codon; compare complete codons *)
Whole(s) == SubSeq(s, 1, Len(s) - (Len(s) % 3))
LoopAgrees == Broken \/ (AlgoKept = SemSoFar)
FinalAgrees == (done /\ ~failed) => Whole(AlgoKept) = CodingBases(cds)
(* the library fails only when there is no complete codon at all, or on the TrailingCodonSpansBlocks family *)
FailsOnlyWhenEmptyOrSpanning == (done /\ failed) => (NumCodons(cds) = 0 \/ Broken)
(* strict form, expected to FAIL: the library never fails when complete codons exist *)
NeverFailsWithCodons == (done /\ failed) => NumCodons(cds) = 0
LenMod3 == Len(CodingBases(cds)) % 3 = 0
(* ConstructFrames yields an uninterrupted frame whenever the first exon is longer than the offset *)
FramesUninterrupted ==
  (j = 1) => \A f0 \in 0..2 : BLen(Ex[1]) > f0 => Uninterrupted(Loc0, ConstructFrames(Loc0, f0), f0)
=============================================================================
