-------------------------------- MODULE PCache --------------------------------
(* The process-wide constructor cache of Parent: `@functools.lru_cache(maxsize=PARENT_CACHE_SIZE)` around the class, so
   `Parent(kwargs...)` first looks its keyword arguments up (by hash and ==) in one bounded LRU table shared by the whole
   process, and only a miss runs __init__.  A hit hands back the very object that an earlier, "equal" call built.

   Machine: tbl = the cached argument tuples, least recently used first; st = <<hits, misses>> as cache_info() shows them.
   Arguments are abstract keys 1..NK (a pool of LOOK-ALIKES: tuples that differ in exactly one component -- id, type,
   strand, location, sequence, ancestor chain) and fresh filler keys NK+1, NK+2, ... used by Flood.  Same(a, b) is the
   equality the cache applies to two argument tuples; in the code it is == of every keyword value, which must be FINER
   than "the constructed objects are observably the same" or a hit hands out an object with somebody else's content
   (Variant "coarse-key": two look-alikes collide -- TLC refutes ContentIsOwn; this is what seeded changes C04-1 and
   C10-4 did through Parent.__hash__ / __eq__). *)
EXTENDS Naturals, Sequences, FiniteSets
CONSTANTS N,        \* capacity (PARENT_CACHE_SIZE; small in the exhaustive configuration)
          NK,       \* number of look-alike keys
          Variant
Keys == 1..NK
Same(a, b) == IF Variant = "coarse-key" THEN (a = b \/ {a, b} = {1, 2}) ELSE a = b
Idx(tb, k) == IF \E i \in DOMAIN tb : Same(tb[i], k) THEN CHOOSE i \in DOMAIN tb : Same(tb[i], k) ELSE 0
Without(tb, i) == [j \in 1..(Len(tb) - 1) |-> IF j < i THEN tb[j] ELSE tb[j + 1]]
Trim(tb) == IF Len(tb) > N THEN SubSeq(tb, Len(tb) - N + 1, Len(tb)) ELSE tb
P0 == [tbl |-> <<>>, st |-> <<0, 0>>, ret |-> 0, fresh |-> NK]
(* Parent(key...): ret = the key whose object is handed back *)
Construct(p, k) ==
  LET i == Idx(p.tbl, k) IN
  IF i # 0 THEN [p EXCEPT !.tbl = Append(Without(@, i), p.tbl[i]), !.st = <<@[1] + 1, @[2]>>, !.ret = p.tbl[i]]
  ELSE [p EXCEPT !.tbl = Trim(Append(@, k)), !.st = <<@[1], @[2] + 1>>, !.ret = k]
(* m unrelated parents nobody asks for again *)
Flood(p, m) == [p EXCEPT !.tbl = Trim(@ \o [i \in 1..m |-> p.fresh + i]), !.st = <<@[1], @[2] + m>>, !.fresh = @ + m]
Clear(p) == [p EXCEPT !.tbl = <<>>, !.st = <<0, 0>>]
Obs(p) == <<p.st[1], p.st[2], Len(p.tbl)>>
=============================================================================
