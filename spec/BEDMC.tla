-------------------------------- MODULE BEDMC --------------------------------
(* Export a transcript to BED12 in chromosome or chunk coordinates the way to_bed12 computes it, then decode.
   Invariant: the record satisfies the format's own invariants and decodes to the exported blocks / strand / CDS
   bounds in that coordinate system.  Variant "chrom-start-in-chunk" is the code before its repair. *)
EXTENDS BED, CDS, TLC
CONSTANTS G, K, Variant
VARIABLES ex, cds, off, rec
vars == <<ex, cds, off, rec>>
Layouts == {l \in LocsGK(G, K) : (\A i \in DOMAIN l[1] : BLen(l[1][i]) > 0) /\ ~SelfOverlap(l)}
(* a CDS is summarised by its chromosome bounds: any pair of exon positions *)
CdsChoices(l) == {EMPTY} \cup {c \in {<< <<<<p[1], p[2] + 1>>>>, St(l) >> : p \in PosSet(l) \X PosSet(l)} : c[1][1][1] < c[1][1][2]}
NoRec == <<>>
Init == /\ ex \in Layouts /\ cds \in CdsChoices(ex) /\ off = 0 /\ rec = NoRec
(* the library's computation *)
AlgoEncode(o) ==
  LET bs == [i \in DOMAIN ex[1] |-> <<ex[1][i][1] - o, ex[1][i][2] - o>>]
      start == bs[1][1]
      firstStart == IF Variant = "chrom-start-in-chunk" THEN ex[1][1][1] ELSE start IN
  << "chrom", start, bs[Len(bs)][2], "n", 0, St(ex),
     IF IsEmptyLoc(cds) THEN 0 ELSE MinStart(cds) - o, IF IsEmptyLoc(cds) THEN 0 ELSE MaxEnd(cds) - o, "0,0,0",
     Len(bs), [i \in DOMAIN bs |-> bs[i][2] - bs[i][1]], [i \in DOMAIN bs |-> bs[i][1] - firstStart] >>
ExportChromosome == rec = NoRec /\ rec' = AlgoEncode(0) /\ off' = 0 /\ UNCHANGED <<ex, cds>>
ExportChunk(ws) == rec = NoRec /\ ws <= MinStart(ex) /\ rec' = AlgoEncode(ws) /\ off' = ws /\ UNCHANGED <<ex, cds>>
Next == ExportChromosome \/ \E ws \in 0..G : ExportChunk(ws)
Spec == Init /\ [][Next]_vars
RecordValid == rec # NoRec => Valid(rec)
RoundTrip == rec # NoRec => /\ Decode(rec)[1] = [i \in DOMAIN ex[1] |-> <<ex[1][i][1] - off, ex[1][i][2] - off>>]
                            /\ Decode(rec)[2] = St(ex)
                            /\ (IsEmptyLoc(cds) => rec[7] = 0 /\ rec[8] = 0)
                            /\ (~IsEmptyLoc(cds) => rec[7] = MinStart(cds) - off /\ rec[8] = MaxEnd(cds) - off)
=============================================================================
