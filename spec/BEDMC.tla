-------------------------------- MODULE BEDMC --------------------------------
(* Export a transcript to BED12 in chromosome or chunk coordinates the way to_bed12 computes it, then decode.
   Invariant: the record satisfies the format's own invariants and decodes to the exported blocks / strand / CDS
   bounds in that coordinate system.  A chunk is a plus-strand window (offset) or a minus-strand window (mirror).
   Variants: "chrom-start-in-chunk" is the code before its repair 3cbc31f; "genomic-blocks-in-chunk" takes sizes and
   offsets from the chromosome blocks in every mode (right for every plus-strand window, wrong on a mirrored one).
   The code writes the CHROMOSOME strand in every mode: on a minus-strand chunk that is the named deviation
   RoundTripStrand refutes (cfg BEDMC_known) -- keyed finding bed:minus-chunk-keeps-chromosome-strand. *)
EXTENDS BED, CDS, TLC
CONSTANTS G, K, Variant, MinusChunks
VARIABLES ex, cds, off, mir, rec
vars == <<ex, cds, off, mir, rec>>
Layouts == {l \in LocsGK(G, K) : (\A i \in DOMAIN l[1] : BLen(l[1][i]) > 0) /\ ~SelfOverlap(l)}
(* a CDS is summarised by its chromosome bounds: any pair of exon positions *)
CdsChoices(l) == {EMPTY} \cup {c \in {<< <<<<p[1], p[2] + 1>>>>, St(l) >> : p \in PosSet(l) \X PosSet(l)} : c[1][1][1] < c[1][1][2]}
NoRec == <<>>
Init == /\ ex \in Layouts /\ cds \in CdsChoices(ex) /\ off = 0 /\ mir = -1 /\ rec = NoRec
(* the library's computation *)
AlgoEncode(o, m) ==
  LET bs == ChunkBlocks(ex[1], o, m)
      start == bs[1][1]
      firstStart == IF Variant = "chrom-start-in-chunk" THEN ex[1][1][1] ELSE start
      shape == IF Variant = "genomic-blocks-in-chunk" THEN [i \in DOMAIN ex[1] |-> <<ex[1][i][1] - ex[1][1][1] + start, ex[1][i][2] - ex[1][1][1] + start>>]
               ELSE bs IN
  << "chrom", start, bs[Len(bs)][2], "n", 0, St(ex),
     IF IsEmptyLoc(cds) THEN 0 ELSE ChunkLo(cds, o, m), IF IsEmptyLoc(cds) THEN 0 ELSE ChunkHi(cds, o, m), "0,0,0",
     Len(bs), [i \in DOMAIN shape |-> shape[i][2] - shape[i][1]], [i \in DOMAIN shape |-> shape[i][1] - firstStart] >>
ExportChromosome == rec = NoRec /\ rec' = AlgoEncode(0, -1) /\ off' = 0 /\ mir' = -1 /\ UNCHANGED <<ex, cds>>
ExportChunk(ws) == rec = NoRec /\ ws <= MinStart(ex) /\ rec' = AlgoEncode(ws, -1) /\ off' = ws /\ mir' = -1 /\ UNCHANGED <<ex, cds>>
ExportMinusChunk(we) == /\ MinusChunks /\ rec = NoRec /\ we >= MaxEnd(ex)
                        /\ rec' = AlgoEncode(0, we) /\ off' = 0 /\ mir' = we /\ UNCHANGED <<ex, cds>>
Next == ExportChromosome \/ (\E ws \in 0..G : ExportChunk(ws)) \/ (\E we \in 0..(G + 1) : ExportMinusChunk(we))
Spec == Init /\ [][Next]_vars
RecordValid == rec # NoRec => Valid(rec)
RoundTrip == rec # NoRec => /\ Decode(rec)[1] = ChunkBlocks(ex[1], off, mir)
                            /\ (IsEmptyLoc(cds) => rec[7] = 0 /\ rec[8] = 0)
                            /\ (~IsEmptyLoc(cds) => rec[7] = ChunkLo(cds, off, mir) /\ rec[8] = ChunkHi(cds, off, mir))
RoundTripStrand == rec # NoRec => Decode(rec)[2] = ChunkSt(St(ex), mir)
(* the deviation, exactly: away from minus-strand chunks the strand column is right *)
StrandRightOffMinusChunks == (rec # NoRec /\ mir < 0) => Decode(rec)[2] = St(ex)
=============================================================================
