----------------------------- MODULE BinsApaOK -----------------------------
EXTENDS Integers
VARIABLES
  \* @type: Int;
  s,
  \* @type: Int;
  e,
  \* @type: Int;
  qs,
  \* @type: Int;
  qe
INSTANCE BinsApa WITH Mutant <- FALSE
=============================================================================
