------------------------------ MODULE BinsApa ------------------------------
(* Full-scale (F,N,L) = (17,3,5) no-hiding theorem for Apalache: for ALL 0 <= s < e, 0 <= qs <= qe, all < 2^29,
   if [s,e) overlaps or lies within [qs,qe) then the bin the library assigns to [s,e) is in the bin set the
   library computes for [qs,qe).  Divisors are literals, so the obligation is linear integer arithmetic.
   The single state of the "machine" is an arbitrary (item, query) pair; the invariant is the theorem. *)
EXTENDS Integers
CONSTANT
  \* @type: Bool;
  Mutant
VARIABLES
  \* @type: Int;
  s,
  \* @type: Int;
  e,
  \* @type: Int;
  qs,
  \* @type: Int;
  qe

D1 == 131072
D2 == 1048576
D3 == 8388608
D4 == 67108864
D5 == 536870912
Max == 536870912

\* the library's bin for (s, e), 'bed' convention, stop not decremented
Level == IF s \div D1 = e \div D1 THEN 1 ELSE IF s \div D2 = e \div D2 THEN 2 ELSE IF s \div D3 = e \div D3 THEN 3
         ELSE IF s \div D4 = e \div D4 THEN 4 ELSE 5
Idx == IF Level = 1 THEN s \div D1 ELSE IF Level = 2 THEN s \div D2 ELSE IF Level = 3 THEN s \div D3
       ELSE IF Level = 4 THEN s \div D4 ELSE s \div D5
Div(l) == IF l = 1 THEN D1 ELSE IF l = 2 THEN D2 ELSE IF l = 3 THEN D3 ELSE IF l = 4 THEN D4 ELSE D5
\* membership of (Level, Idx) in the library's bin set for (qs, qe): per level the index range qs>>sh .. qe>>sh
Upper(l) == IF Mutant THEN (qe \div Div(l)) - 1 ELSE qe \div Div(l)
InSet == (qs \div Div(Level)) <= Idx /\ Idx <= Upper(Level)
\* the assigned bin contains the interval
Contains == Idx * Div(Level) <= s /\ e <= (Idx + 1) * Div(Level)

CInit == TRUE
Init == s \in 0..(Max - 1) /\ e \in 0..(Max - 1) /\ qs \in 0..(Max - 1) /\ qe \in 0..(Max - 1) /\ s < e /\ qs <= qe
Next == UNCHANGED <<s, e, qs, qe>>
NoHide == ((s < qe /\ qs < e) \/ (qs <= s /\ e <= qe)) => InSet
BinContains == Contains
=============================================================================
