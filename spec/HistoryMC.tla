------------------------------- MODULE HistoryMC -------------------------------
(* The memoisation mechanisms behind the accessors, as a state machine of the IMPLEMENTATION: per-object memo tables
   (methodtools.lru_cache), the one mode flag of CDSInterval (codon locations listed), lazily filled slots, and the
   process-wide Parent LRU cache.  Every Call(a) answers through the mechanism; invariant: the answer (value class
   and Python type) is the accessor's own answer in every reachable state, i.e. independent of the history.
   Op(o) must leave the operands' content unchanged.
   Variants: "str-after-codons" = extract_sequence answering a str once codon locations were listed (the code before
   fix 8518d78); "shallow-merge" = export with parent qualifiers mutating the interval's qualifier sets (before 241fec7).
   The history h is carried to EMIT histories for replay on the real classes. *)
EXTENDS History, TLC
CONSTANTS Kind, D, Variant
VARIABLES memo, flag, pcache, content, last, h
vars == <<memo, flag, pcache, content, last, h>>
NoAnswer == <<"none", "none">>
(* the accessor's own answer: a value class (its name) and a Python type class *)
TypeOf(a) == IF a \in {"extract_sequence", "get_cds_sequence", "get_transcript_sequence", "get_spliced_sequence",
                       "translate", "get_protein_sequence"} THEN "Sequence" ELSE "other"
Answer(a) == <<a, TypeOf(a)>>
Memoised == {"extract_sequence", "translate", "chunk_relative_codon_locations", "chromosome_codon_locations",
             "has_in_frame_stop", "get_cds_sequence", "get_transcript_sequence", "get_protein_sequence",
             "chromosome_location", "get_spliced_sequence", "get_reference_sequence", "get_genomic_sequence", "children",
             "has_sequence", "chromosome_gaps_location", "chromosome_span"}
Init == memo = [a \in {} |-> NoAnswer] /\ flag = FALSE /\ pcache = "warm" /\ content = 0 /\ last = NoAnswer /\ h = <<>>
(* what the mechanism computes when the table has no entry *)
Fresh(a) == IF Variant = "str-after-codons" /\ a \in {"extract_sequence", "get_cds_sequence"} /\ flag THEN <<a, "str">> ELSE Answer(a)
Call(a) ==
  /\ a \in Accessors(Kind)
  /\ LET ans == IF a \in DOMAIN memo THEN memo[a] ELSE Fresh(a) IN
     /\ last' = ans
     /\ memo' = IF a \in Memoised /\ a \notin DOMAIN memo THEN [x \in DOMAIN memo \cup {a} |-> IF x = a THEN ans ELSE memo[x]] ELSE memo
  /\ flag' = (flag \/ a \in {"chunk_relative_codon_locations", "num_chunk_relative_codons", "cds_codons"})
  /\ h' = Append(h, a) /\ UNCHANGED <<pcache, content>>
Op(o) ==
  /\ o \in Operations(Kind)
  /\ content' = IF Variant = "shallow-merge" /\ o \in {"to_gff_parent_qualifiers", "export_qualifiers_parent"} THEN content + 1 ELSE content
  /\ last' = NoAnswer /\ h' = Append(h, o) /\ UNCHANGED <<memo, flag, pcache>>
Cache(c) ==
  /\ c \in CacheActions
  /\ pcache' = (CASE c = "cache_clear" -> "cold" [] c = "cache_flood" -> "evicted" [] c = "cache_warm" -> "warm")
  /\ last' = NoAnswer /\ h' = Append(h, c) /\ UNCHANGED <<memo, flag, content>>
Next == (\E a \in Accessors(Kind) : Call(a)) \/ (\E o \in Operations(Kind) : Op(o)) \/ (\E c \in CacheActions : Cache(c))
Spec == Init /\ [][Next]_vars
Depth == Len(h) <= D
(* C10 *)
AnswersIgnoreHistory == (last # NoAnswer) => last = Answer(h[Len(h)])
OperandsUnchanged == content = 0
Emit == (Len(h) = D) => PrintT(<<"HIST", h>>)
=============================================================================
