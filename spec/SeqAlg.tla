------------------------------- MODULE SeqAlg -------------------------------
(* Sequences on a parent (property C03): the i-th base of an extracted sequence is the parent base at the i-th
   mapped position, complemented on the minus strand.  Letters are 1-character strings (Tables!Comp). *)
EXTENDS Loc

CompIf(minus, ch) == IF minus THEN Comp(ch) ELSE ch
(* root: sequence of letters, 1-based; parent position p is root[p + 1] *)
Extract(l, root) == LET bs == Bases(l) IN [i \in DOMAIN bs |-> CompIf(St(l) = "-", root[bs[i] + 1])]
RevCompSeq(chars) == [i \in DOMAIN chars |-> Comp(chars[Len(chars) + 1 - i])]
(* characters described by a base list read on a strand *)
CharsOf(bases, minus, root) == [i \in DOMAIN bases |-> CompIf(minus, root[bases[i] + 1])]
(* python slice semantics on explicit integer bounds, step 1 *)
PyClamp(x, n) == IF x < 0 THEN Max2(0, n + x) ELSE Min2(x, n)
PySlice(chars, a, b) == LET n == Len(chars) lo == PyClamp(a, n) hi == PyClamp(b, n) IN SubSeq(chars, lo + 1, hi)
=============================================================================
