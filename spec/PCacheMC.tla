------------------------------- MODULE PCacheMC -------------------------------
(* Exhaustive exploration of the Parent constructor cache (PCache.tla) at a small capacity, and -- with -simulate and the
   real capacity -- emission of behaviours (Construct / Flood / Clear with the cache_info() the machine predicts after
   every step) for replay on the real class. *)
EXTENDS PCache, TLC, Randomization
CONSTANTS D, Floods
VARIABLES p, last, h
vars == <<p, last, h>>
Init == p = P0 /\ last = 0 /\ h = <<>>
Log(a, x, q) == IF D = 0 THEN h ELSE Append(h, <<a, x, Obs(q)>>)
DoConstruct(k) == p' = Construct(p, k) /\ last' = k /\ h' = Log("construct", k, Construct(p, k))
DoFlood(m) == p' = Flood(p, m) /\ last' = 0 /\ h' = Log("flood", m, Flood(p, m))
DoClear == p' = Clear(p) /\ last' = 0 /\ h' = Log("clear", 0, Clear(p))
Next == (\E k \in Keys : DoConstruct(k)) \/ (\E m \in Floods : DoFlood(m)) \/ DoClear
Spec == Init /\ [][Next]_vars
(* filler keys are never asked again: their names carry no information *)
Shape(tb) == [i \in DOMAIN tb |-> IF tb[i] <= NK THEN tb[i] ELSE 0]
View == <<Shape(p.tbl), p.ret, last>>
(* C10 / C04 on the mechanism: the object handed back is the one for the arguments asked, whatever the cache holds *)
ContentIsOwn == last # 0 => p.ret = last
Bounded == Len(p.tbl) <= N
KeysDistinct == \A i, j \in DOMAIN p.tbl : i # j => p.tbl[i] # p.tbl[j]
(* LRU: a key that was just asked for is the most recently used entry *)
JustUsedIsLast == (last # 0 /\ N > 0) => Same(p.tbl[Len(p.tbl)], last)
Emit == (D > 0 /\ Len(h) = D) => PrintT(<<"PCACHE", h>>)
=============================================================================
