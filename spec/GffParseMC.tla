----------------------------- MODULE GffParseMC -----------------------------
(* A writer of foreign GFF3 files, row by row (one locus), then the reader.  TLC explores every file of at most MaxRows
   rows over small block pools, in every order in which the rows can be written (parents first), and checks what the
   reader's rules imply: no exon / CDS row under a recognised parent is lost or used twice, every transcript has exons,
   the answer does not depend on the order of the rows, frames are what the phase column says unless one is missing.
   Emit prints every finished file for replay on the real reader (simulation mode). *)
EXTENDS GffParse, TLC
CONSTANTS MaxRows, MaxTx
VARIABLES rows, bio, done
vars == <<rows, bio, done>>
ExonPool == {<<1, 4>>, <<6, 9>>, <<11, 16>>}
CdsPool == {<<2, 4>>, <<6, 9>>, <<11, 13>>, <<5, 9>>}       \* <<5,9>> sticks out of exon <<6,9>>
Strands == {"+", "-"}
Init == rows = <<>> /\ bio = "" /\ done = FALSE
NextId == Len(rows) + 1
AddTop(ty, st, b) == /\ rows = <<>> /\ rows' = <<<<1, 0, ty, 1, 16, st, -1>>>> /\ bio' = b /\ UNCHANGED done
Top == rows[1]
IsGene == rows # <<>> /\ Top[3] \in {"gene", "pseudogene"}
IsFeat == rows # <<>> /\ Top[3] \notin GeneTops
CanAdd == rows # <<>> /\ ~done /\ Len(rows) < MaxRows
AddTx(ty) == /\ CanAdd /\ IsGene
             /\ Cardinality({i \in DOMAIN rows : rows[i][2] = 1 /\ rows[i][3] \notin {"exon", "CDS"}}) < MaxTx
             /\ rows' = Append(rows, <<NextId, 1, ty, 1, 16, Top[6], -1>>) /\ UNCHANGED <<bio, done>>
Parents == {i \in DOMAIN rows : i = 1 \/ (rows[i][2] = 1 /\ rows[i][3] \notin {"exon", "CDS"})}
HasRev(p) == \E i \in DOMAIN rows : rows[i][2] = p /\ rows[i][4] > rows[i][5]
AddExonRev(p) == /\ CanAdd /\ IsGene /\ p \in Parents
                 /\ ~\E i \in DOMAIN rows : rows[i][2] = p /\ rows[i][3] \in {"exon", "CDS"}
                 /\ ~\E i \in DOMAIN rows : rows[i][4] > rows[i][5]
                 /\ rows' = Append(rows, <<NextId, p, "exon", 9, 6, rows[p][6], -1>>) /\ UNCHANGED <<bio, done>>
AddExon(p, b) == /\ CanAdd /\ IsGene /\ p \in Parents /\ ~HasRev(p)
                 /\ ~\E i \in DOMAIN rows : rows[i][2] = p /\ rows[i][3] = "exon" /\ <<rows[i][4], rows[i][5]>> = b
                 /\ rows' = Append(rows, <<NextId, p, "exon", b[1], b[2], rows[p][6], -1>>) /\ UNCHANGED <<bio, done>>
(* CDS rows of one parent do not overlap (a CDS that overlaps itself is refused by the interval classes) *)
AddCds(p, b, ph) == /\ CanAdd /\ IsGene /\ p \in Parents /\ ~HasRev(p)
                    /\ ~\E i \in DOMAIN rows : rows[i][2] = p /\ rows[i][3] = "CDS" /\ rows[i][4] <= b[2] /\ b[1] <= rows[i][5]
                    /\ rows' = Append(rows, <<NextId, p, "CDS", b[1], b[2], rows[p][6], ph>>) /\ UNCHANGED <<bio, done>>
AddUnit(b, st) == /\ CanAdd /\ IsFeat
                  /\ ~\E i \in DOMAIN rows : i > 1 /\ rows[i][4] <= b[2] /\ b[1] <= rows[i][5]
                  /\ rows' = Append(rows, <<NextId, 1, "repeat_unit", b[1], b[2], st, -1>>) /\ UNCHANGED <<bio, done>>
Finish == rows # <<>> /\ ~done /\ done' = TRUE /\ UNCHANGED <<rows, bio>>
Next == \/ \E ty \in {"gene", "pseudogene", "CDS", "repeat_region"}, st \in Strands, b \in {"", "protein_coding", "tRNA", "bogus"} :
             AddTop(ty, st, IF ty = "repeat_region" THEN "" ELSE b)
        \/ \E ty \in {"mRNA", "transcript", "tRNA", "weird"} : AddTx(ty)
        \/ \E p \in DOMAIN rows, b \in ExonPool : AddExon(p, b)
        \/ \E p \in DOMAIN rows : AddExonRev(p)
        \/ \E p \in DOMAIN rows, b \in CdsPool, ph \in {-1, 0, 1, 2} : AddCds(p, b, ph)
        \/ \E b \in ExonPool, st \in Strands : AddUnit(b, st)
        \/ Finish
Spec == Init /\ [][Next]_vars

Res == Parse(rows, bio)
Txs == {x[2] : x \in Res[3]}
(* exon / CDS rows that hang under the top-level row or under a recognised transcript row *)
Claimed(ty) == {i \in DOMAIN rows : rows[i][3] = ty /\ (rows[i][2] = 1 \/ rows[i][2] \in {rows[t][1] : t \in TxRows(rows)})}
Uses(x, i) == LET tx == x[2] IN
              /\ (x[1] = rows[i][2] \/ (x[1] = 0 /\ rows[i][2] = 1))
              /\ \E k \in DOMAIN tx[IF rows[i][3] = "CDS" THEN 2 ELSE 1] : tx[IF rows[i][3] = "CDS" THEN 2 ELSE 1][k] = Blk(rows[i])
NoRowLostOf(R) == (done /\ IsGene /\ R[1] = "gene") => \A ty \in {"exon", "CDS"} : \A i \in Claimed(ty) :
                 Cardinality({x \in R[3] : Uses(x, i)}) = 1
NoRowLost == NoRowLostOf(Res)
(* negative control: a reader that keeps only the first CDS row of every transcript loses rows *)
FirstCdsOnly(R) == <<R[1], R[2], {<<x[1], <<x[2][1], IF x[2][2] = <<>> THEN <<>> ELSE <<x[2][2][1]>>, IF x[2][3] = <<>> THEN <<>> ELSE <<x[2][3][1]>>, x[2][4]>>>> : x \in R[3]}>>
NegNoRowLost == NoRowLostOf(IF done /\ IsGene /\ Res[1] = "gene" THEN FirstCdsOnly(Res) ELSE Res)
EveryTxHasExons == (done /\ rows[1][3] \in GeneTops /\ Res[1] = "gene") => \A tx \in Txs : Len(tx[1]) >= 1 /\ Len(tx[3]) = Len(tx[2])
GeneNeverEmpty == (done /\ rows[1][3] \in GeneTops /\ ~HasReversedExon(rows)) => Res[1] = "gene" /\ Res[3] # {}
ReversedRowRefused == (done /\ IsGene /\ HasReversedExon(rows)) => Res[1] = "refuse"
(* the order in which the rows below the top-level row were written is irrelevant: Parse of the rows re-written in
   identifier-preserving reversed order is the same *)
Rewritten == <<rows[1]>> \o Reverse(Tail(rows))
OrderFree == done => Parse(Rewritten, bio) = Res
CdsRowsOf(x) == {i \in DOMAIN rows : rows[i][3] = "CDS" /\ (rows[i][2] = x[1] \/ (x[1] = 0 /\ rows[i][2] = 1))}
PhaseRespected == (done /\ IsGene /\ Res[1] = "gene") => \A x \in Res[3] : LET tx == x[2] IN
    (CdsRowsOf(x) # {} /\ \A i \in CdsRowsOf(x) : rows[i][7] >= 0)
       => \A k \in DOMAIN tx[2] : \E i \in CdsRowsOf(x) : Blk(rows[i]) = tx[2][k] /\ tx[3][k] = FrameOfPhase(rows[i][7])
FeatureRefusedIffMixedStrands == (done /\ IsFeat) =>
    (Res[1] = "refuse") = (Cardinality({rows[i][6] : i \in (DOMAIN rows) \ {1}}) > 1)
Emit == done => PrintT(<<"GFF", rows, bio>>)
=============================================================================
