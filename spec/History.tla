-------------------------------- MODULE History --------------------------------
(* Call histories on one object (property C10).  Alphabets = the public read-only accessors and the
   arithmetic / conversion / export operations of every object kind, plus the actions on the process-wide Parent
   cache.  Shared by the machine HistoryMC and the replay judge C10Trace. *)
EXTENDS Naturals, Sequences, FiniteSets

CacheActions == {"cache_clear", "cache_flood", "cache_warm"}
Accessors(kind) ==
  CASE kind = "location" ->
        {"blocks", "num_blocks", "is_overlapping", "is_contiguous", "start_end", "len", "extract_sequence", "gap_list",
         "gaps_location", "full_span", "scan_blocks", "hash", "str", "rel_to_parent_0", "parent_to_rel_first",
         "first_ancestor", "has_ancestor", "first_ancestor_asm", "has_ancestor_asm", "parent_depth", "eq_twin"}
    [] kind = "parent" ->
        {"id", "sequence_type", "strand", "location", "sequence", "parent_of_parent", "hash", "repr", "eq_twin",
         "strip_location_info", "reset_location_none", "first_ancestor", "has_ancestor", "has_ancestor_sequence",
         "equals_except_location_twin"}
    [] kind = "sequence" ->
        {"str", "len", "hash", "location_on_parent", "parent_strand", "slice_1_3", "reverse_complement", "summary",
         "has_ancestor", "eq_twin"}
    [] kind = "cds" ->
        {"extract_sequence", "chunk_relative_codon_locations", "chromosome_codon_locations", "num_codons",
         "num_chunk_relative_codons", "translate", "translate_truncated", "has_valid_stop", "has_in_frame_stop",
         "has_canonical_start_codon", "scan_codons", "frames", "chunk_relative_frames", "to_dict", "guid", "hash",
         "chromosome_location", "chunk_relative_location", "scan_window", "scan_window_expand", "get_spliced_sequence",
         "eq_twin"}
    [] kind = "transcript" ->
        {"get_transcript_sequence", "get_cds_sequence", "get_protein_sequence", "get_5p_interval", "get_3p_interval",
         "cds_size", "is_coding", "has_in_frame_stop", "chromosome_location", "chunk_relative_location", "to_dict",
         "guid", "hash", "chromosome_gaps_location", "chromosome_span", "identifiers", "has_sequence",
         "get_spliced_sequence", "get_reference_sequence", "get_genomic_sequence", "sequence_pos_to_transcript",
         "cds_codons", "export_qualifiers", "eq_twin"}
    [] kind = "gene" ->
        {"to_dict", "guid", "hash", "is_coding", "get_primary_transcript", "get_primary_cds_sequence",
         "get_primary_protein", "get_merged_transcript", "get_merged_cds", "chromosome_location", "identifiers",
         "export_qualifiers", "get_reference_sequence", "children_guids", "eq_twin"}
    [] kind = "collection" ->
        {"to_dict", "guid", "hash", "children", "is_empty", "chromosome_location", "query_all", "query_guids",
         "iter_order", "get_reference_sequence", "hierarchical_children_guids", "eq_twin"}
(* operations: may take the object and other operands; must leave every operand observably unchanged *)
Operations(kind) ==
  CASE kind = "location" -> {"union_other", "intersection_other", "minus_other", "union_self", "optimize_blocks",
                             "reverse", "reset_strand", "shift", "relative_interval", "location_relative_to_other",
                             "merge_overlapping", "optimize_and_combine", "extend_absolute_0", "minus_disjoint",
                             "intersection_self", "contains_other", "has_overlap_other", "gaps_op", "scan_windows_op",
                             "reparent_extract"}
    [] kind = "parent" -> {"reset_location_other", "strip_then_reset", "make_location_on_it", "build_equal_parent"}
    [] kind = "sequence" -> {"append_other", "reverse_complement_op", "slice_op"}
    [] kind = "cds" -> {"to_gff", "to_gff_parent_qualifiers", "export_qualifiers_parent", "optimize_blocks_op",
                        "liftover_to_chunk", "incorporate_variant"}
    [] kind = "transcript" -> {"to_gff", "to_gff_parent_qualifiers", "to_bed12", "export_qualifiers_parent",
                               "intersect_location", "liftover_to_chunk", "incorporate_variant",
                               \* the object handed to the constructor of an enclosing aggregate (no parent argument)
                               "collect_into_gene", "collect_into_collection"}
    [] kind = "gene" -> {"to_gff", "query_by_guids", "liftover_to_chunk", "incorporate_variant", "collect_into_collection",
                         \* the gene is adopted by a collection built WITH a parent (members are re-parented, by design:
                         \* not an operand-preserving operation) and then asked where it lies
                         "adopt_then_location"}
    [] kind = "collection" -> {"to_gff", "query_by_position", "query_by_interval_guids", "to_genbank_dict",
                               "incorporate_variant"}
Kinds == {"location", "parent", "sequence", "cds", "transcript", "gene", "collection"}
Alphabet(kind) == Accessors(kind) \cup Operations(kind) \cup CacheActions
=============================================================================
