-------------------------------- MODULE Lift --------------------------------
(* Lift-over through nested coordinate systems (property C04; chunk windows also serve C07).
   A hierarchy is a sequence Ps of placements: Ps[j] is the location of level j on level j-1 (level 0 = root);
   the length of level j is LenLoc(Ps[j]).  A child location lives on level d = Len(Ps). *)
EXTENDS SeqAlg

LiftBasesOne(bases, P) == [i \in DOMAIN bases |-> Rel2Par(P, bases[i])]
RECURSIVE LiftBases(_, _, _, _)
LiftBases(bases, Ps, d, a) == IF d = a THEN bases ELSE LiftBases(LiftBasesOne(bases, Ps[d]), Ps, d - 1, a)
RECURSIVE LiftStrand(_, _, _, _)
LiftStrand(st, Ps, d, a) == IF d = a THEN st ELSE LiftStrand(RelStrand(st, St(Ps[d])), Ps, d - 1, a)
(* sequences of the levels: level j reads level j-1 through its placement *)
RECURSIVE LevelSeq(_, _, _)
LevelSeq(root, Ps, j) == IF j = 0 THEN root ELSE Extract(Ps[j], LevelSeq(root, Ps, j - 1))
(* closest level at or above d whose type is t; -1 when there is none *)
FirstOfType(types, d, t) == IF \E a \in 0..d : types[a + 1] = t THEN Max({a \in 0..d : types[a + 1] = t}) ELSE -1

(* the library's one-level lift (Parent.lift_child_location_to_parent): every block of the child is converted by the
   block walk on the placement, the pieces are pooled, re-sorted and adjacent pieces merged *)
AlgoLiftOne(c, P) ==
  LET pieces == FlattenSeq([i \in DOMAIN c[1] |-> AlgoWalk(P, c[1][i][1], c[1][i][2])])
      ns == RelStrand(St(c), St(P)) IN
  AlgoCombine(<<LibSort(pieces, ns), ns>>, FALSE)

(* chunk windows: a window W = <<ws, we>> of the chromosome, plus strand *)
InWindowBases(l, ws, we) == SelectSeq(Bases(l), LAMBDA p : ws <= p /\ p < we)
=============================================================================
