------------------------------- MODULE BinsMC -------------------------------
(* An index of one feature: Insert assigns the bin, Query computes the candidate bin set the way
   AnnotationCollection._query_by_position does; NoHide is the property that the pre-filter never drops a
   feature the range query must return.  Scaled scheme, exhaustive over all (s,e) x (qs,qe). *)
EXTENDS Bins, TLC
CONSTANTS F, N, L, Variant
VARIABLES item, bin, q, cand
vars == <<item, bin, q, cand>>
M == MaxSize(F, N, L)
Pairs == {p \in (0..(M - 1)) \X (0..(M - 1)) : p[1] <= p[2]}
TheBin(s, e) == AlgoBin(F, N, L, s, e, 0)
(* negative control: a query set whose per-level range excludes its upper end (range(a, b) for range(a, b + 1)) *)
MutantSet(qs, qe) == {1} \cup UNION { LET sh == LevelShift(F, N, i) IN
                          {Offset(N, L, i) + k : k \in Shr(qs, sh)..(Shr(qe, sh) - 1)} : i \in Levels(L) }
TheSet(qs, qe) == IF Variant = "mutant" THEN MutantSet(qs, qe) ELSE AlgoBinSet(F, N, L, qs, qe, 0)
Init == item = <<>> /\ bin = 0 /\ q = <<>> /\ cand = {}
Insert(p) == item = <<>> /\ item' = p /\ bin' = TheBin(p[1], p[2]) /\ UNCHANGED <<q, cand>>
Query(p) == item # <<>> /\ q = <<>> /\ q' = p /\ cand' = TheSet(p[1], p[2]) /\ UNCHANGED <<item, bin>>
Next == (\E p \in Pairs : Insert(p)) \/ (\E p \in Pairs : Query(p))
Spec == Init /\ [][Next]_vars
(* a zero-length item never overlaps; a non-empty one is found whenever it overlaps or lies within *)
NoHide == (item # <<>> /\ q # <<>> /\ item[1] < item[2]
           /\ (Overlaps(item[1], item[2], q[1], q[2]) \/ Within(item[1], item[2], q[1], q[2]))) => bin \in cand
BinContains == (item # <<>> /\ item[1] < item[2]) =>
                 LET i == LevelOf(N, L, bin) IN Inside(F, N, L, i, bin - Offset(N, L, i), item[1], item[2])
(* the assigned bin is the smallest containing one except on the boundary family (StopNotDecremented) *)
SmallestOrBoundary == (item # <<>> /\ item[1] < item[2]) =>
                 (bin = SemBin(F, N, L, item[1], item[2]) \/ item[2] % Pow(2, F) = 0)
(* strict form: expected to FAIL (this is the C16 known finding at spec level) *)
Smallest == (item # <<>> /\ item[1] < item[2]) => bin = SemBin(F, N, L, item[1], item[2])
=============================================================================
