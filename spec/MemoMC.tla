-------------------------------- MODULE MemoMC --------------------------------
(* Exhaustive exploration of the memo machine of Memo.tla: every reachable combination of table contents (in LRU
   order), from every one of them every public call.  The hit / miss counters are hidden by the VIEW (they grow without
   bound and decide nothing).  With -simulate and the Emit invariant the same machine prints behaviours -- each step
   with the cache_info() vector the model predicts -- for replay on real TranscriptInterval / CDSInterval objects. *)
EXTENDS Memo, TLC
CONSTANT D
VARIABLES s, last, h
vars == <<s, last, h>>
Init == s = S0 /\ last = <<"none", "none">> /\ h = <<>>
Step(c) == s' = Do(s, c) /\ last' = c /\ h' = IF D = 0 THEN h ELSE Append(h, <<c[1], c[2], Obs(Do(s, c))>>)
Next == \E c \in Calls : Step(c)
Spec == Init /\ [][Next]_vars
Keys(tb) == {EKey(tb[i]) : i \in DOMAIN tb}
View == <<[t \in Tables |-> IF t \in Evicting THEN <<s.tbl[t]>> ELSE <<Keys(s.tbl[t])>>], s.flag>>
Depth == D = 0 \/ Len(h) <= D
(* C10 on the mechanism: whatever the tables hold, a call is answered with the method's own answer for its arguments *)
AnswerIsOwn == /\ (last[1] # "none" => s.ret = Own(last))
               /\ \A c \in Calls : Do(s, c).ret = Own(c)
Bounded == \A t \in Tables : Len(s.tbl[t]) <= Cap(t)
KeysDistinct == \A t \in Tables : \A i, j \in DOMAIN s.tbl[t] : i # j => EKey(s.tbl[t][i]) # EKey(s.tbl[t][j])
(* cache_info() bookkeeping: currsize never exceeds misses; the flag is set exactly when chunk codons were listed *)
Bookkeeping == /\ \A t \in Tables : Len(s.tbl[t]) <= s.st[t][2]
               /\ s.flag = (s.st["crl"][2] > 0)
(* a filled has_in_frame_stop / get_cds_sequence implies the tables its body fills were filled at some point *)
NestedFilled == /\ (s.st["ifs"][2] > 0 => s.st["tr"][2] > 0)
                /\ (s.st["tr"][2] > 0 => s.st["es"][2] > 0)
                /\ (s.st["gcs"][2] > 0 => s.st["es"][2] > 0)
                /\ (s.st["es"][2] > 0 => s.st["prep"][2] > 0)
Emit == (D > 0 /\ Len(h) = D) => PrintT(<<"MEMO", h>>)
=============================================================================
