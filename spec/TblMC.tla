--------------------------------- MODULE TblMC ---------------------------------
(* Partial marks and the pseudo flag of a CDS in an NCBI feature table (property C17), as the writer computes them,
   against the statement of the property.  The machine types a coding sequence base by base over a reduced alphabet that
   makes start codons, stop codons and in-frame stops reachable; after every keystroke and for every start frame the
   writer's expressions must agree with the meaning.  Variant "shift-adds" tests (frame + len) % 3 instead of
   len % 3 = frame (sign slip in the 3' completeness test). *)
EXTENDS CDS, TLC
CONSTANTS MaxLen, Variant
VARIABLES seq, f0
vars == <<seq, f0>>
Letters == {"A", "T", "G"}
Init == seq = <<>> /\ f0 \in 0..2
Type(c) == Len(seq) < MaxLen /\ seq' = Append(seq, c) /\ UNCHANGED f0
Next == \E c \in Letters : Type(c)
Spec == Init /\ [][Next]_vars
Coding == IF Len(seq) > f0 THEN SubSeq(seq, f0 + 1, f0 + 3 * ((Len(seq) - f0) \div 3)) ELSE <<>>
Cs == CodonSeqs(Coding)
HasCodon == Len(Cs) >= 1
(* meaning *)
SemPartial5(table) == ~(HasCodon /\ Cs[1] \in StartCodons(table))
SemPartial3 == ~(HasCodon /\ (Len(seq) - f0) % 3 = 0 /\ Cs[Len(Cs)] \in StopCodons)
SemPseudo == \E k \in 1..(Len(Cs) - 1) : Cs[k] \in StopCodons
(* the writer's expressions *)
AlgoPartial5(table) == ~(HasCodon /\ Cs[1] \in StartCodons(table))
AlgoPartial3 == (IF Variant = "shift-adds" THEN (f0 + Len(seq)) % 3 # 0 ELSE Len(seq) % 3 # f0) \/ ~(HasCodon /\ Cs[Len(Cs)] \in StopCodons)
AlgoPseudo == \E k \in 1..(Len(Cs) - 1) : Cs[k] \in StopCodons
MarksAgree == (Len(seq) >= 3) => /\ \A t \in {0, 1, 11} : AlgoPartial5(t) = SemPartial5(t)
                                  /\ AlgoPartial3 = SemPartial3 /\ AlgoPseudo = SemPseudo
CodonStart == f0 + 1 \in 1..3
=============================================================================
