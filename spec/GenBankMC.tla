------------------------------- MODULE GenBankMC -------------------------------
(* Grouping of GenBank feature records into genes (properties C12, C18).
   A file is a sequence of records <<type, locusTag>>, type in {"gene", "mRNA", "CDS", "ncRNA", "tRNA"}.
   Writer: for each gene (in position order, unique locus tags) one of the record shapes the library writes.
   Sorted reader (the library's _group_sorted_features_by_type): one Read action per record, with the library's
   group-in-progress as state.  Locus-tag reader: groups = the record SET partitioned by tag.
   Invariant at end of file: both readers produce the same partition.  Variant "cds-joins-ncrna" drops the sorted
   reader's guard that keeps a CDS out of a non-coding group. *)
EXTENDS Naturals, Sequences, FiniteSets, TLC
CONSTANTS MaxGenes, Variant
VARIABLES file, pos, group, done, groups
vars == <<file, pos, group, done, groups>>
Shapes(t) == { <<<<"gene", t>>, <<"CDS", t>>>>,                       \* prokaryotic coding
               <<<<"gene", t>>, <<"mRNA", t>>, <<"CDS", t>>>>,         \* eukaryotic coding
               <<<<"gene", t>>, <<"mRNA", t>>, <<"CDS", t>>, <<"mRNA", t>>, <<"CDS", t>>>>,   \* two isoforms
               <<<<"gene", t>>, <<"ncRNA", t>>>>, <<<<"gene", t>>, <<"tRNA", t>>>>,
               <<<<"gene", t>>, <<"mRNA", t>>, <<"CDS", t>>, <<"ncRNA", t>>>>,       \* coding + non-coding isoform
               <<<<"CDS", t>>>>, <<<<"tRNA", t>>>> }                                \* isolated records without a gene record
RECURSIVE Files(_)
Files(n) == IF n = 0 THEN {<<>>} ELSE {f \o s : f \in Files(n - 1), s \in Shapes(n)}
Init == file \in UNION {Files(n) : n \in 1..MaxGenes} /\ pos = 1 /\ group = <<>> /\ done = <<>> /\ groups = {}
NonCoding == {"ncRNA", "tRNA"}
Transcripts == {"mRNA", "ncRNA", "tRNA"}
Read ==
  /\ pos <= Len(file)
  /\ LET r == file[pos] t == r[1] IN
     IF group = <<>> THEN
        (IF t = "gene" THEN group' = <<r>> /\ done' = done ELSE group' = <<>> /\ done' = Append(done, <<r>>))
     ELSE IF t = "gene" THEN group' = <<r>> /\ done' = Append(done, group)
     ELSE IF t \in Transcripts THEN
        (IF t # "mRNA" THEN (IF group[Len(group)][1] = "gene" THEN group' = Append(group, r) /\ done' = done
                             ELSE group' = <<r>> /\ done' = Append(done, group))
         ELSE group' = Append(group, r) /\ done' = done)
     ELSE \* CDS
        (IF Variant # "cds-joins-ncrna" /\ \E i \in DOMAIN group : group[i][1] \in NonCoding
         THEN group' = <<r>> /\ done' = Append(done, group)
         ELSE group' = Append(group, r) /\ done' = done)
  /\ pos' = pos + 1 /\ UNCHANGED <<file, groups>>
Finish == /\ pos = Len(file) + 1 /\ groups = {}
          /\ groups' = {{g[i] : i \in DOMAIN g} : g \in {done[i] : i \in DOMAIN done} \cup (IF group = <<>> THEN {} ELSE {group})}
          /\ pos' = pos + 1 /\ UNCHANGED <<file, group, done>>
Spec == Init /\ [][Read \/ Finish]_vars
ByLocusTag == {{file[i] : i \in {j \in DOMAIN file : file[j][2] = t}} : t \in {file[i][2] : i \in DOMAIN file}}
(* records of one gene are never split or merged by the sorted reader, except the documented split of a non-coding
   isoform that follows a coding one (it becomes its own group) *)
HasMixedGene == \E t \in {file[i][2] : i \in DOMAIN file} :
                   (\E i \in DOMAIN file : file[i] = <<"CDS", t>>) /\ (\E i \in DOMAIN file : file[i][2] = t /\ file[i][1] \in NonCoding)
(* files as the library writes them: every locus tag has its gene record *)
Complete == \A t \in {file[i][2] : i \in DOMAIN file} : \E i \in DOMAIN file : file[i] = <<"gene", t>>
ReadersAgree == (groups # {} /\ ~HasMixedGene /\ Complete) => groups = ByLocusTag
NeverMergesTags == (groups # {} /\ Complete) => \A g \in groups : Cardinality({r[2] : r \in g}) = 1
(* even for incomplete files an isolated CDS never joins a group that holds a non-coding transcript *)
CdsNeverJoinsNoncoding == groups # {} => \A g \in groups : \A r1, r2 \in g : (r1[1] \in NonCoding /\ r2[1] = "CDS") => r1[2] = r2[2]
=============================================================================
