------------------------------ MODULE Collection ------------------------------
(* Annotation collections and their queries (property C09).
   A collection is <<start, end, members>>; a member is <<id, kind, s, e, coding, children>> with kind in
   {"gene", "feature", "variant"}, [s, e) its chromosome span, children = set of <<childId, cs, ce>>. *)
EXTENDS Bins, Sequences, FiniteSetsExt, TLC

MId(m) == m[1]
MKind(m) == m[2]
MS(m) == m[3]
ME(m) == m[4]
MCoding(m) == m[5]
MChildren(m) == m[6]

ValidRange(c, qs, qe) == qs >= 0 /\ qs < qe /\ qs >= c[1] /\ qe <= c[2]
Hit(m, qs, qe, cw) == IF cw THEN Within(MS(m), ME(m), qs, qe) ELSE Overlaps(MS(m), ME(m), qs, qe)
SemPositionMembers(c, qs, qe, codingOnly, cw) ==
  {m \in c[3] : (codingOnly => MCoding(m)) /\ Hit(m, qs, qe, cw)}
(* bounds: the query range, widened to the kept genes / feature collections when asked for and not strict *)
SemPositionBounds(c, qs, qe, codingOnly, cw, expand) ==
  LET kept == {m \in SemPositionMembers(c, qs, qe, codingOnly, cw) : MKind(m) # "variant"} IN
  IF expand /\ ~cw /\ kept # {}
  THEN <<Min({qs} \cup {MS(m) : m \in kept}), Max({qe} \cup {ME(m) : m \in kept})>>
  ELSE <<qs, qe>>
Min2c(a, b) == IF a <= b THEN a ELSE b
Max2c(a, b) == IF a >= b THEN a ELSE b
(* identifier queries keep the collection's bounds, widened to whatever they return *)
SemIdBounds(c, kept) == IF kept = {} THEN <<c[1], c[2]>>
                        ELSE <<Min({c[1]} \cup {MS(m) : m \in kept}), Max({c[2]} \cup {ME(m) : m \in kept})>>
SemByGuids(c, S) == {m \in c[3] : MId(m) \in S}
(* interval-GUID queries keep only the requested children inside their parent; the parent's span shrinks to them *)
RestrictTo(m, S) == LET ch == {x \in MChildren(m) : x[1] \in S} IN
                  <<MId(m), MKind(m), Min({x[2] : x \in ch}), Max({x[3] : x \in ch}), MCoding(m), ch>>
SemByIntervalGuids(c, S, kinds) == {RestrictTo(m, S) : m \in {x \in c[3] : MKind(x) \in kinds /\ \E y \in MChildren(x) : y[1] \in S}}
=============================================================================
