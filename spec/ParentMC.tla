------------------------------ MODULE ParentMC ------------------------------
(* TLC evaluation of the laws of ParentAlg over the complete argument space, plus a negative control. *)
EXTENDS ParentAlg, TLC
CONSTANT Variant
ASSUME StripIsTotal
ASSUME ResetNoneIsStrip
ASSUME ResetOwnLocationIsIdentity
ASSUME StrandFollowsLocation
ASSUME IdNeverInvented
ASSUME AncestorConsistent
(* control: a constructor that lets an explicit strand override the location's strand breaks StrandFollowsLocation *)
BadConstruct(id, stype, strand, loc, seq, par) ==
  LET r == Construct(id, stype, NONE, loc, seq, par) IN
  IF r[1] = "v" /\ strand # NONE THEN <<"v", [r[2] EXCEPT ![3] = strand]>> ELSE r
ASSUME Variant = "code" \/ (\A a \in ArgSpace : (BadConstruct(a[1], a[2], a[3], a[4], a[5], a[6])[1] = "v" /\ a[4] # <<>>)
                                                  => BadConstruct(a[1], a[2], a[3], a[4], a[5], a[6])[2][3] = a[4][2])
ASSUME PrintT(<<"SPACE", Cardinality(ArgSpace), Cardinality({a \in ArgSpace : Valid(a)})>>)
VARIABLE x
Init == x = 0
Next == UNCHANGED x
Spec == Init /\ [][Next]_x
=============================================================================
