--------------------------------- MODULE BED ---------------------------------
(* BED12 records (property C14).  A record is
   <<chrom, start, end, name, score, strand, thickStart, thickEnd, rgb, blockCount, blockSizes, blockStarts>>. *)
EXTENDS Loc
BStart(r) == r[2]
BEnd(r) == r[3]
Valid(r) ==
  /\ r[10] = Len(r[11]) /\ r[10] = Len(r[12]) /\ r[10] >= 1
  /\ 0 <= r[2] /\ r[2] <= r[3]
  /\ r[12][1] = 0
  /\ \A i \in 1..(r[10] - 1) : r[12][i] < r[12][i + 1] \/ (r[12][i] = r[12][i + 1])
  /\ \A i \in 1..r[10] : r[11][i] >= 0
  /\ r[12][r[10]] + r[11][r[10]] = r[3] - r[2]
  /\ ((r[7] = 0 /\ r[8] = 0) \/ (r[2] <= r[7] /\ r[7] <= r[8] /\ r[8] <= r[3]))
  /\ r[6] \in {"+", "-", "."}
Decode(r) == << [i \in 1..r[10] |-> <<r[2] + r[12][i], r[2] + r[12][i] + r[11][i]>>], r[6] >>
(* a chunk is <<offset, mirror>>: a plus-strand window starting at offset (mirror = -1), or a MINUS-strand window ending at
   mirror (seq_chunk_to_parent(..., strand=MINUS)): chunk coordinates are then the mirror image of chromosome coordinates,
   block [s,e) is [mirror - e, mirror - s), blocks are listed in the opposite order and the strand is the opposite one *)
ToChunk(b, off, mir) == IF mir >= 0 THEN <<mir - b[2], mir - b[1]>> ELSE <<b[1] - off, b[2] - off>>
ChunkBlocks(bs, off, mir) == LET cs == [i \in DOMAIN bs |-> ToChunk(bs[i], off, mir)] IN IF mir >= 0 THEN Reverse(cs) ELSE cs
FlipSt(s) == CASE s = "+" -> "-" [] s = "-" -> "+" [] OTHER -> s
ChunkSt(s, mir) == IF mir >= 0 THEN FlipSt(s) ELSE s
ChunkLo(l, off, mir) == IF mir >= 0 THEN mir - MaxEnd(l) ELSE MinStart(l) - off
ChunkHi(l, off, mir) == IF mir >= 0 THEN mir - MinStart(l) ELSE MaxEnd(l) - off
(* the meaning of export: blocks, strand, name and CDS bounds in the chosen coordinate system (offset = chunk start) *)
Encode(ex, cds, name, off) ==
  LET bs == [i \in DOMAIN ex[1] |-> <<ex[1][i][1] - off, ex[1][i][2] - off>>] IN
  << "chrom", bs[1][1], MaxEnd(<<bs, St(ex)>>), name, 0, St(ex),
     IF IsEmptyLoc(cds) THEN 0 ELSE MinStart(cds) - off, IF IsEmptyLoc(cds) THEN 0 ELSE MaxEnd(cds) - off, "0,0,0",
     Len(bs), [i \in DOMAIN bs |-> bs[i][2] - bs[i][1]], [i \in DOMAIN bs |-> bs[i][1] - bs[1][1]] >>
=============================================================================
