--------------------------------- MODULE BED ---------------------------------
(* BED12 records (property C14).  A record is
   <<chrom, start, end, name, score, strand, thickStart, thickEnd, rgb, blockCount, blockSizes, blockStarts>>. *)
EXTENDS Loc
BStart(r) == r[2]
BEnd(r) == r[3]
Valid(r) ==
  /\ r[10] = Len(r[11]) /\ r[10] = Len(r[12]) /\ r[10] >= 1
  /\ 0 <= r[2] /\ r[2] <= r[3]
  /\ r[12][1] = 0
  /\ \A i \in 1..(r[10] - 1) : r[12][i] < r[12][i + 1] \/ (r[12][i] = r[12][i + 1])
  /\ \A i \in 1..r[10] : r[11][i] >= 0
  /\ r[12][r[10]] + r[11][r[10]] = r[3] - r[2]
  /\ ((r[7] = 0 /\ r[8] = 0) \/ (r[2] <= r[7] /\ r[7] <= r[8] /\ r[8] <= r[3]))
  /\ r[6] \in {"+", "-", "."}
Decode(r) == << [i \in 1..r[10] |-> <<r[2] + r[12][i], r[2] + r[12][i] + r[11][i]>>], r[6] >>
(* the meaning of export: blocks, strand, name and CDS bounds in the chosen coordinate system (offset = chunk start) *)
Encode(ex, cds, name, off) ==
  LET bs == [i \in DOMAIN ex[1] |-> <<ex[1][i][1] - off, ex[1][i][2] - off>>] IN
  << "chrom", bs[1][1], MaxEnd(<<bs, St(ex)>>), name, 0, St(ex),
     IF IsEmptyLoc(cds) THEN 0 ELSE MinStart(cds) - off, IF IsEmptyLoc(cds) THEN 0 ELSE MaxEnd(cds) - off, "0,0,0",
     Len(bs), [i \in DOMAIN bs |-> bs[i][2] - bs[i][1]], [i \in DOMAIN bs |-> bs[i][1] - bs[1][1]] >>
=============================================================================
