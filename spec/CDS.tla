-------------------------------- MODULE CDS --------------------------------
(* The reading-frame model of a coding interval (properties C05, C07, C17).
   A CDS is <<loc, frames>>: loc a location (Loc), frames a sequence of 0..2 in the same (ascending) order as the
   blocks.  Sem layer: one walk over the bases 5'->3' that decides which bases are kept; everything else (codon
   locations, coding sequence, translation, windows) is defined from the kept bases. *)
EXTENDS SeqAlg

Exons5(cds) == ScanOrder(cds[1])                                   \* exons in 5'->3' order
Frames5(cds) == IF St(cds[1]) = "-" THEN Reverse(cds[2]) ELSE cds[2]
DropTail(s, n) == SubSeq(s, 1, Len(s) - n)

(* SemWalk: at the first base of exon j, if the annotated frame disagrees with the running frame r, re-synchronise:
   drop the incomplete codon pending so far, skip `frame` bases of this exon (never beyond the exon), restart at
   codon position 0 -- SkipIsFrameValue, the library's documented model, identical for the start offset. *)
RECURSIVE KeptRec(_, _, _, _, _, _)
KeptRec(exs, frs, st, j, kept, r) ==
  IF j > Len(exs) THEN kept
  ELSE LET bases == BlockBases(exs[j], st)
           resync == frs[j] # r
           kept1 == IF resync THEN DropTail(kept, Len(kept) % 3) ELSE kept
           skip == IF resync THEN frs[j] ELSE 0
           add == IF skip >= Len(bases) THEN <<>> ELSE SubSeq(bases, skip + 1, Len(bases))
           r1 == IF resync THEN Len(add) % 3 ELSE (r + Len(bases)) % 3
       IN KeptRec(exs, frs, st, j + 1, kept1 \o add, r1)
(* parent positions of the kept bases, 5'->3' *)
Kept(cds) == KeptRec(Exons5(cds), Frames5(cds), St(cds[1]), 1, <<>>, 0)
NumCodons(cds) == Len(Kept(cds)) \div 3
(* codon k (1-based) as a triple of parent positions in 5'->3' order *)
CodonBases(cds, k) == SubSeq(Kept(cds), 3 * k - 2, 3 * k)
Codons(cds) == [k \in 1..NumCodons(cds) |-> CodonBases(cds, k)]
(* the coding sequence: kept bases of complete codons read on the CDS strand *)
CodingBases(cds) == SubSeq(Kept(cds), 1, 3 * NumCodons(cds))
CodingSeq(cds, root) == CharsOf(CodingBases(cds), St(cds[1]) = "-", root)
(* codons lying completely inside the chromosome window [ws, we) *)
WindowCodons(cds, ws, we) == SelectSeq(Codons(cds), LAMBDA c : \A i \in 1..3 : ws <= c[i] /\ c[i] < we)
OverlapCodons(cds, ws, we) == SelectSeq(Codons(cds), LAMBDA c : \E i \in 1..3 : ws <= c[i] /\ c[i] < we)

(* translation of a codon given as three upper-case letters *)
UpperSeq(s) == [i \in DOMAIN s |-> UpperOf(s[i])]
IsStrictCodon(c) == \A i \in 1..3 : c[i] \in Base
CodonSeqs(chars) == [k \in 1..(Len(chars) \div 3) |-> UpperSeq(SubSeq(chars, 3 * k - 2, 3 * k))]
(* set of acceptable amino acids for codon c at index k (k = 1 is the first codon) *)
AAOptions(c, k, table, strict) ==
  IF k = 1 /\ IsStrictCodon(c) /\ c \in StartCodons(table) THEN {"M"}
  ELSE IF IsStrictCodon(c) THEN {Code(c)}
  ELSE IF strict THEN {}                                   \* rejected (ValueError)
  ELSE {"X"} \cup {aa \in AminoAcids : \A i \in 1..3 : c[i] \in IupacLetters /\ MayTranslate(c, aa)}
IsStop(c) == IsStrictCodon(c) /\ c \in StopCodons
(* number of codons translated: all, or up to and including the first stop that is not the last codon *)
TranslatedCount(cs, truncate) ==
  IF truncate /\ \E k \in 1..(Len(cs) - 1) : IsStop(cs[k])
  THEN CHOOSE k \in 1..(Len(cs) - 1) : IsStop(cs[k]) /\ \A m \in 1..(k - 1) : ~IsStop(cs[m])
  ELSE Len(cs)

(* frames describing ONE uninterrupted reading frame for a location and start offset f0 *)
RECURSIVE FramesRec(_, _, _, _)
FramesRec(lens, j, consumed, f0) ==         \* consumed = bases before exon j; frame_j = (consumed - f0) mod 3
  IF j > Len(lens) THEN <<>>
  ELSE <<(IF j = 1 THEN f0 ELSE (consumed - f0) % 3)>> \o FramesRec(lens, j + 1, consumed + lens[j], f0)
ConstructFrames5(loc, f0) == LET ex == ScanOrder(loc) IN FramesRec([i \in DOMAIN ex |-> BLen(ex[i])], 1, 0, f0)
ConstructFrames(loc, f0) == IF St(loc) = "-" THEN Reverse(ConstructFrames5(loc, f0)) ELSE ConstructFrames5(loc, f0)
(* one uninterrupted frame: nothing is dropped except the start offset (and the trailing partial codon) *)
Uninterrupted(loc, frames, f0) == Kept(<<loc, frames>>) = SubSeq(Bases(loc), f0 + 1, LenLoc(loc))
=============================================================================
