------------------------------ MODULE C14Trace ------------------------------
(* code -> spec for property C14: the 12 columns of str(to_bed12(...)) of real transcripts / features, read back by
   a 12-column reader, judged against BED!Valid / Decode. *)
EXTENDS BED, Json, IOUtils, TLC
Trace == ndJsonDeserialize(IOEnv.TRACE_FILE)
Ok(b, name) == IF b THEN "ok" ELSE name
(* ["bed", exons, cds (EMPTY = non-coding / feature), off (chunk start, 0 in chromosome mode), chunkMode, expectedName,
    outcome <<"v", record>>, mirror (-1, or the end of a MINUS-strand chunk window: BED!ToChunk)] *)
VBed(ev) ==
  LET ex == ev[2] cds == ev[3] off == ev[4] o == ev[7] mir == ev[8] IN
  IF ~IsVal(o) THEN "bed:returns"
  ELSE LET r == o[2] want == ChunkBlocks(ex[1], off, mir) IN
    IF r[10] # Len(r[11]) \/ r[10] # Len(r[12]) THEN "block-count"
    ELSE IF r[12][1] # 0 THEN "first-start-zero"
    ELSE IF ~(\A i \in 1..(r[10] - 1) : r[12][i] <= r[12][i + 1]) THEN "starts-ascending"
    ELSE IF r[12][r[10]] + r[11][r[10]] # r[3] - r[2] THEN "last-block-reaches-end"
    ELSE IF ~((r[7] = 0 /\ r[8] = 0) \/ (r[2] <= r[7] /\ r[7] <= r[8] /\ r[8] <= r[3])) THEN "thick-inside"
    ELSE IF ~Valid(r) THEN "bed-valid"
    ELSE IF Decode(r)[1] # want THEN "decode-blocks"
    ELSE IF r[6] # ChunkSt(St(ex), mir) /\ ~(mir >= 0 /\ r[6] = St(ex)) THEN "decode-strand"
    ELSE IF r[4] # ev[6] THEN "decode-name"
    ELSE IF IsEmptyLoc(cds) /\ ~(r[7] = 0 /\ r[8] = 0) THEN "noncoding-thick-zero"
    ELSE IF ~IsEmptyLoc(cds) /\ ~(r[7] = ChunkLo(cds, off, mir) /\ r[8] = ChunkHi(cds, off, mir)) THEN "decode-cds-bounds"
    \* named deviation (BEDMC_known): the chromosome strand is written on a mirrored chunk too
    ELSE IF r[6] # ChunkSt(St(ex), mir) THEN "decode-strand:minus-chunk-keeps-chromosome-strand"
    ELSE "ok"
Verdict(ev) == CASE ev[1] = "bed" -> VBed(ev) [] OTHER -> "unknown-op"
Bad == {i \in DOMAIN Trace : Verdict(Trace[i]) # "ok"}
ASSUME \A i \in Bad : PrintT(<<"BAD", i, Verdict(Trace[i])>>)
ASSUME PrintT(<<"DONE", Len(Trace), Cardinality(Bad)>>)
=============================================================================
