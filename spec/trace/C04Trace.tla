------------------------------ MODULE C04Trace ------------------------------
(* code -> spec for property C04: lift-over through real nested Parent/Sequence hierarchies and through sequence
   chunks, judged against the base-by-base composition of Lift.tla. *)
EXTENDS Lift, Json, IOUtils, TLC
Trace == ndJsonDeserialize(IOEnv.TRACE_FILE)
Ok(b, name) == IF b THEN "ok" ELSE name
Soft == {"ok", "lift:selfoverlap-order"}
FirstBad(seq) == IF \E i \in DOMAIN seq : seq[i] \notin Soft
                 THEN seq[CHOOSE i \in DOMAIN seq : seq[i] \notin Soft /\ \A j \in 1..(i - 1) : seq[j] \in Soft]
                 ELSE IF \E i \in DOMAIN seq : seq[i] # "ok" THEN seq[CHOOSE i \in DOMAIN seq : seq[i] # "ok"] ELSE "ok"
BagOf(s) == [x \in Range(s) |-> Cardinality({i \in DOMAIN s : s[i] = x})]
AnySelfOverlap(Ps, c) == SelfOverlap(c) \/ \E j \in DOMAIN Ps : SelfOverlap(Ps[j])

(* one lifted result against level a: outcome <<"v", loc, parentId, extractedChars | "<noseq>">> *)
LiftedOK(o, Ps, child, d, a, root, hasSeq, name, idoff) ==
  IF ~IsVal(o) THEN name \o ":returns"
  ELSE LET r == o[2] want == LiftBases(Bases(child), Ps, d, a) IN
    IF IsEmptyLoc(r) THEN name \o ":nonempty"
    ELSE IF St(r) # LiftStrand(St(child), Ps, d, a) THEN name \o ":strand"
    ELSE IF Bases(r) # want THEN
         (IF AnySelfOverlap(Ps, child) /\ BagOf(Bases(r)) = BagOf(want) THEN "lift:selfoverlap-order" ELSE name \o ":bases")
    ELSE IF o[3] # ("L" \o ToString(a + idoff)) THEN name \o ":lands-on-ancestor"
    ELSE IF hasSeq /\ o[4] # Extract(child, LevelSeq(root, Ps, d)) THEN name \o ":sequence-preserved"
    ELSE "ok"

(* ["lift", types (level 0..d), root chars, hasSeq, Ps, child,
    byType = <<type, outcome>>..., bySeq = <<level, outcome>>..., hasType = <<type, bool>>..., oneStep outcome,
    idOffset]   (idOffset > 0: a shallower twin hierarchy that shares its levels with a deeper one built in the same
    process -- the levels keep the ids of the deeper one) *)
VLift(ev) ==
  LET types == ev[2] root == ev[3] hasSeq == ev[4] Ps == ev[5] child == ev[6] d == Len(ev[5]) IN
  FirstBad(
    [k \in DOMAIN ev[7] |->
       LET t == ev[7][k][1] o == ev[7][k][2] a == FirstOfType(types, d, t) IN
       IF a < 0 THEN Ok(Rejected(o), "lift-by-type:refused-when-no-ancestor")
       ELSE LiftedOK(o, Ps, child, d, a, root, hasSeq, "lift-by-type", ev[11])] \o
    [k \in DOMAIN ev[8] |->
       LET a == ev[8][k][1] o == ev[8][k][2] IN
       IF ~hasSeq \/ a < 0 THEN Ok(Rejected(o), "lift-by-sequence:refused-when-no-ancestor")
       ELSE IF NB(child) > 1 /\ \E i \in 1..(NB(child) - 1) : child[1][i][2] # child[1][i + 1][1]
            THEN Ok(Rejected(o), "lift-by-sequence:contiguous-only")
       \* documented: only contiguous locations are lifted by sequence; every intermediate must stay contiguous
       ELSE IF Rejected(o) /\ \E j \in (a + 1)..d : NB(Ps[j]) > 1 THEN "ok"
       ELSE LiftedOK(o, Ps, child, d, a, root, hasSeq, "lift-by-sequence", ev[11])] \o
    [k \in DOMAIN ev[9] |-> Ok(ev[9][k][2] = (FirstOfType(types, d, ev[9][k][1]) >= 0), "has-ancestor-of-type")] \o
    \* optional 12th field: the strict question (include_self = FALSE) asked of the parent object (level d) beforehand
    (IF Len(ev) < 12 THEN <<>> ELSE
     [k \in DOMAIN ev[12] |-> Ok(ev[12][k][2] = (d >= 1 /\ FirstOfType(types, d - 1, ev[12][k][1]) >= 0),
                                 "has-ancestor-of-type:strict")]) \o
    << IF d = 0 THEN Ok(Rejected(ev[10]), "lift-one:refused-at-root")
       ELSE LiftedOK(ev[10], Ps, child, d, d - 1, root, FALSE, "lift-one", ev[11]) >>)

(* ["chunk", loc, ws, we, toChunk outcome <<"v", loc, pid>>, back outcome, twice outcome] :
   chromosome location -> sequence chunk [ws, we) -> back; `twice` = the chunk-relative result moved to a second
   chunk through the chromosome *)
VChunk(ev) ==
  LET l == ev[2] ws == ev[3] we == ev[4] o == ev[5] back == ev[6]
      inside == InWindowBases(l, ws, we) IN
  IF inside = <<>> THEN Ok(Rejected(o) \/ (IsVal(o) /\ IsEmptyLoc(o[2])), "chunk:outside-is-empty-or-refused")
  ELSE IF ~IsVal(o) THEN "chunk:returns"
  ELSE LET r == o[2] IN
    IF IsEmptyLoc(r) THEN "chunk:nonempty"
    ELSE IF St(r) # St(l) THEN "chunk:strand"
    ELSE IF ~(\A p \in PosSet(r) : 0 <= p /\ p < we - ws) THEN "chunk:inside-window"
    ELSE IF [i \in DOMAIN Bases(r) |-> Bases(r)[i] + ws] # inside THEN
         (IF SelfOverlap(l) /\ BagOf([i \in DOMAIN Bases(r) |-> Bases(r)[i] + ws]) = BagOf(inside) THEN "lift:selfoverlap-order" ELSE "chunk:bases")
    ELSE IF ~IsVal(back) THEN "chunk-back:returns"
    ELSE IF Bases(back[2]) # inside \/ St(back[2]) # St(l) THEN
         (IF SelfOverlap(l) /\ BagOf(Bases(back[2])) = BagOf(inside) THEN "lift:selfoverlap-order" ELSE "chunk-back:bases")
    ELSE LET tw == ev[7] ws2 == ev[8] we2 == ev[9] inside2 == SelectSeq(inside, LAMBDA p : ws2 <= p /\ p < we2) IN
       IF inside2 = <<>> THEN Ok(Rejected(tw) \/ (IsVal(tw) /\ IsEmptyLoc(tw[2])), "rechunk:outside-is-empty-or-refused")
       ELSE IF ~IsVal(tw) THEN "rechunk:returns"
       ELSE IF IsEmptyLoc(tw[2]) THEN "rechunk:nonempty"
       ELSE IF [i \in DOMAIN Bases(tw[2]) |-> Bases(tw[2])[i] + ws2] # inside2 THEN
            (IF SelfOverlap(l) /\ BagOf([i \in DOMAIN Bases(tw[2]) |-> Bases(tw[2])[i] + ws2]) = BagOf(inside2)
             THEN "lift:selfoverlap-order" ELSE "rechunk:bases")
       ELSE "ok"

(* ["lift1", how, root chars, Ps, child, oneStep outcome] : the top level was DERIVED by the library (reverse_complement,
   possibly sliced afterwards) from a sequence that knows its location on its parent; Ps ends with the equivalent
   placement.  One step up must be the base-by-base composition with that placement. *)
VLift1(ev) == LET Ps == ev[4] d == Len(ev[4]) IN
  LiftedOK(ev[6], Ps, ev[5], d, d - 1, ev[3], FALSE, "derived-level:lift-one", 0)

(* ["nchunk", root chars, as, ae, Ps, child, ws, we, outcome <<"v", loc, pid, chars>>, targetKind] : the child sits
   Len(Ps) coordinate systems below sequence chunk A = [as, ae) (plus strand) of the chromosome; moved with the static
   liftover_location_to_seq_chunk_parent onto chunk B = [ws, we) (or the whole chromosome): composition of every level,
   the part inside B, relative to B; strand = product; same residues *)
VNested(ev) ==
  LET root == ev[2] as == ev[3] Ps == ev[5] child == ev[6] ws == ev[7] we == ev[8] o == ev[9] d == Len(ev[5])
      onA == LiftBases(Bases(child), Ps, d, 0)
      onChrom == [i \in DOMAIN onA |-> onA[i] + as]
      inside == SelectSeq(onChrom, LAMBDA p : ws <= p /\ p < we)
      st == LiftStrand(St(child), Ps, d, 0)
      Cmpl(ch) == CASE ch = "A" -> "T" [] ch = "T" -> "A" [] ch = "C" -> "G" [] ch = "G" -> "C"
      chars == [i \in DOMAIN inside |-> IF st = "-" THEN Cmpl(root[inside[i] + 1]) ELSE root[inside[i] + 1]] IN
  IF inside = <<>> THEN Ok(Rejected(o) \/ (IsVal(o) /\ IsEmptyLoc(o[2])), "nested-chunk:outside-is-empty-or-refused")
  ELSE IF ~IsVal(o) THEN "nested-chunk:returns"
  ELSE LET r == o[2] IN
    IF IsEmptyLoc(r) THEN "nested-chunk:nonempty"
    ELSE IF St(r) # st THEN "nested-chunk:strand"
    ELSE IF [i \in DOMAIN Bases(r) |-> Bases(r)[i] + ws] # inside THEN "nested-chunk:bases"
    ELSE IF o[4] # chars THEN "nested-chunk:sequence-preserved"
    ELSE "ok"

(* ["liftw", types, root, hasSeq, Ps, child, byType, idOffset] : the same lift asked of a FeatureInterval that owns the
   location (AbstractInterval.lift_over_to_first_ancestor_of_type) *)
VLiftW(ev) ==
  LET types == ev[2] root == ev[3] hasSeq == ev[4] Ps == ev[5] child == ev[6] d == Len(ev[5]) IN
  FirstBad([k \in DOMAIN ev[7] |->
       LET t == ev[7][k][1] o == ev[7][k][2] a == FirstOfType(types, d, t) IN
       IF a < 0 THEN Ok(Rejected(o), "interval-lift-by-type:refused-when-no-ancestor")
       ELSE LiftedOK(o, Ps, child, d, a, root, hasSeq, "interval-lift-by-type", ev[8])])

(* ["xlift", loc, relation, outcome <<"v", location, spliced sequence>>, spliced sequence before] : an interval lifted
   from one whole chromosome with sequence onto another *)
VXLift(ev) ==
  LET l == ev[2] rel == ev[3] o == ev[4] IN
  IF rel = "same" THEN
     (IF ~IsVal(o) THEN "interval-liftover:equal-chromosome-refused"
      ELSE Ok(o[2] = l /\ o[3] = ev[5], "interval-liftover:identity-on-equal-chromosome"))
  ELSE Ok(Rejected(o), "interval-liftover:refused-on-a-different-chromosome")
Verdict(ev) == CASE ev[1] = "xlift" -> VXLift(ev) [] ev[1] = "liftw" -> VLiftW(ev) [] ev[1] = "nchunk" -> VNested(ev) [] ev[1] = "lift1" -> VLift1(ev) [] ev[1] = "lift" -> VLift(ev) [] ev[1] = "chunk" -> VChunk(ev) [] OTHER -> "unknown-op"
Bad == {i \in DOMAIN Trace : Verdict(Trace[i]) # "ok"}
ASSUME \A i \in Bad : PrintT(<<"BAD", i, Verdict(Trace[i])>>)
ASSUME PrintT(<<"DONE", Len(Trace), Cardinality(Bad)>>)
=============================================================================
