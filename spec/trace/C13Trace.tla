------------------------------ MODULE C13Trace ------------------------------
(* code -> spec for property C13: alternative sequences, lifted locations, incorporated variants and VCF grouping of
   the real VariantInterval / VariantIntervalCollection judged against the edit model of Variants.tla.
   Coordinates of results are given on the alternative CHROMOSOME (chunk-relative results are lifted by the harness). *)
EXTENDS Variants, Json, IOUtils, TLC
Trace == ndJsonDeserialize(IOEnv.TRACE_FILE)
Ok(b, name) == IF b THEN "ok" ELSE name
Soft == {"ok", "collection-lift:sequential-shift", "alternative-sequence:minus-strand-chunk"}
FirstBad(seq) == IF \E i \in DOMAIN seq : seq[i] \notin Soft
                 THEN seq[CHOOSE i \in DOMAIN seq : seq[i] \notin Soft /\ \A j \in 1..(i - 1) : seq[j] \in Soft]
                 ELSE IF \E i \in DOMAIN seq : seq[i] # "ok" THEN seq[CHOOSE i \in DOMAIN seq : seq[i] # "ok"] ELSE "ok"

(* ["alt", R, V, ws, we, outcome chars] : alternative_genomic_sequence on the chunk [ws, we) (whole chromosome: 0, Len) *)
VAlt(ev) ==
  LET R == ev[2] V == ev[3] ws == ev[4] we == ev[5] o == ev[6]
      chunk == SubSeq(R, ws + 1, we)
      Vc == [k \in DOMAIN V |-> <<V[k][1] - ws, V[k][2] - ws, V[k][3]>>] IN
  FirstBad(<<
    Ok(IsVal(o) /\ o[2] = Alt(chunk, Vc), "alternative-sequence"),
    \* optional field 7 = <<start, end, length_difference>> per variant: alternative bases minus replaced bases, so that the
    \* differences add up to the change in length of the whole haplotype
    IF Len(ev) < 7 \/ ~IsVal(o) THEN "ok"
    ELSE LET d == ev[7] IN
         Ok(IsVal(d) /\ Len(d[2]) = Len(V)
            /\ (\A k \in DOMAIN V : \E j \in DOMAIN d[2] :
                   d[2][j] = <<V[k][1], V[k][2], Len(V[k][3]) - (V[k][2] - V[k][1])>>), "length-difference")
  >>)

(* ["altm", R, V, ws, we, outcome chars] : the same question on a chunk that sits on the MINUS strand of the chromosome:
   the edited window read in the chunk's orientation (reverse complement).  Keyed known finding: the library edits the
   reverse-complemented chunk with the variants' plus-strand coordinates and bases. *)
CmplN(c) == CASE c = "A" -> "T" [] c = "T" -> "A" [] c = "C" -> "G" [] c = "G" -> "C" [] OTHER -> c
RevCmplN(sq) == [i \in 1..Len(sq) |-> CmplN(sq[Len(sq) + 1 - i])]
VAltMinus(ev) ==
  LET R == ev[2] V == ev[3] ws == ev[4] we == ev[5] o == ev[6]
      chunk == SubSeq(R, ws + 1, we)
      Vc == [k \in DOMAIN V |-> <<V[k][1] - ws, V[k][2] - ws, V[k][3]>>] IN
  IF IsVal(o) /\ o[2] = RevCmplN(Alt(chunk, Vc)) THEN "ok" ELSE "alternative-sequence:minus-strand-chunk"

(* ["lift", R, V, loc, isCollection, outcome <<"v", loc>>, spliced outcome <<"v", chars>> | <<"x", ...>>] *)
VLiftRaw(ev) ==
  LET R == ev[2] V == ev[3] l == ev[4] coll == ev[5] o == ev[6] sp == ev[7]
      name == IF coll THEN "collection-lift" ELSE "lift" IN
  IF ~Premise(l, V) THEN "ok"                              \* a variant straddles a block boundary: not claimed
  ELSE IF SemLiftPos(l, V) = {} THEN Ok(Rejected(o) \/ (IsVal(o) /\ PosSet(o[2]) = {}), name \o ":deleted-is-empty")
  ELSE IF ~IsVal(o) THEN name \o ":returns"
  ELSE IF PosSet(o[2]) # SemLiftPos(l, V) \/ (~IsEmptyLoc(o[2]) /\ St(o[2]) # St(l)) THEN
       (IF coll /\ ShiftingNonLast(V) THEN "collection-lift:sequential-shift" ELSE name \o ":edited-image")
  ELSE IF ~WellFormed(o[2], Len(Alt(R, V))) THEN name \o ":wellformed"
  ELSE IF IsVal(sp) /\ sp[2] # Extract(SemLiftLoc(l, V), Alt(R, V)) THEN name \o ":spliced-is-edited"
  ELSE "ok"

(* ["inc", kind, R, V, loc, isCollection, outcome <<"v", newLoc, splicedChars>>] : incorporate_variants *)
VIncRaw(ev) ==
  LET R == ev[3] V == ev[4] l == ev[5] coll == ev[6] o == ev[7] IN
  IF ~Premise(l, V) THEN "ok"
  ELSE IF SemLiftPos(l, V) = {} THEN Ok(Rejected(o) \/ (IsVal(o) /\ PosSet(o[2]) = {}), "incorporate:deleted-is-empty")
  ELSE IF ~IsVal(o) THEN (IF coll /\ ShiftingNonLast(V) /\ Rejected(o) THEN "collection-lift:sequential-shift" ELSE "incorporate:returns")
  ELSE IF PosSet(o[2]) # SemLiftPos(l, V) \/ St(o[2]) # St(l) \/ o[3] # Extract(SemLiftLoc(l, V), Alt(R, V)) THEN
       (IF coll /\ ShiftingNonLast(V) THEN "collection-lift:sequential-shift" ELSE "incorporate:spliced-is-edited")
  ELSE "ok"

(* on the keyed family (a non-last variant of a COLLECTION changes the length) every departure, including a documented
   rejection caused by the stale coordinates, is the known finding; internal errors are never excused *)
(* The known deviation is NAMED, not merely excused: Variants!AlgoLiftSeq is what the sequential application with
   original coordinates computes.  A wrong answer on the keyed family is the known finding only if it is the answer the
   deviation predicts (same positions, or a documented rejection where the predicted blocks are ill-formed / empty);
   any other wrong answer there is reported. *)
PredictedSeq(l, V) == AlgoLiftSeq(l, V, 1)
IllFormedPrediction(p) == IsEmptyLoc(p) \/ \E i \in DOMAIN p[1] : p[1][i][1] > p[1][i][2] \/ p[1][i][1] < 0
MatchesDeviation(l, V, o) ==
  LET p == PredictedSeq(l, V) IN
  IF IsVal(o) THEN (IF IsEmptyLoc(p) THEN PosSet(o[2]) = {} ELSE ~IllFormedPrediction(p) /\ PosSet(o[2]) = PosSet(p))
  ELSE Rejected(o)
Keyed(raw, coll, V, o, l) == IF raw # "ok" /\ coll /\ ShiftingNonLast(V) /\ (IsVal(o) \/ Rejected(o))
                             THEN (IF MatchesDeviation(l, V, o) THEN "collection-lift:sequential-shift"
                                   ELSE "collection-lift:departs-from-the-known-deviation")
                             ELSE raw
VLift(ev) == Keyed(VLiftRaw(ev), ev[5], ev[3], ev[6], ev[4])
VInc(ev) == Keyed(VIncRaw(ev), ev[6], ev[4], ev[7], ev[5])
(* ["hapmap", memberSpans = <<s, e>>..., haplotypeSpans = <<s, e>>..., got = <<haplotypeIdx, <<memberIdx...>>>>...] :
   AnnotationCollection.alternative_haplotype_mapping -- EVERY haplotype handed to the collection is associated with
   exactly the members (genes, feature collections) whose span it overlaps, each once *)
VHapMap(ev) ==
  LET ms == ev[2] hs == ev[3] got == ev[4] IN
  IF Len(got) # Len(hs) THEN "haplotype-mapping:every-haplotype"
  ELSE IF \A h \in DOMAIN hs :
          LET want == {m \in DOMAIN ms : ms[m][1] < hs[h][2] /\ hs[h][1] < ms[m][2]} IN
          got[h][1] = h /\ Len(got[h][2]) = Cardinality(want) /\ {got[h][2][k] : k \in DOMAIN got[h][2]} = want
  THEN "ok" ELSE "haplotype-mapping:overlapping-members"
(* ["vcf", records = <<pos0, end0, alts = <<chars>>..., ps (or -1 unphased)>>..., groups = << <<start, end, alt>>... >>...]
   one variant per alternative allele; phased records grouped by phase set, unphased ones alone *)
VVcf(ev) ==
  LET recs == ev[2] got == ev[3]
      vars(r) == {<<IF recs[r][1] = recs[r][2] THEN recs[r][1] ELSE recs[r][1],
                    IF recs[r][1] = recs[r][2] THEN recs[r][2] + 1 ELSE recs[r][2], recs[r][3][a]>> : a \in DOMAIN recs[r][3]}
      phasedSets == {recs[r][4] : r \in {x \in DOMAIN recs : recs[x][4] >= 0}}
      wantGroups == {UNION {vars(r) : r \in {x \in DOMAIN recs : recs[x][4] = ps}} : ps \in phasedSets}
      wantSingles == UNION {{{v} : v \in vars(r)} : r \in {x \in DOMAIN recs : recs[x][4] < 0}}
      gotSets == [g \in DOMAIN got |-> {got[g][i] : i \in DOMAIN got[g]}] IN
  IF ~(\A g \in DOMAIN got : Len(got[g]) = Cardinality(gotSets[g])) THEN "vcf:one-variant-per-allele"
  ELSE Ok({gotSets[g] : g \in DOMAIN got} = wantGroups \cup wantSingles
          /\ Len(got) = Cardinality(wantGroups) + SumSeq([r \in DOMAIN recs |-> IF recs[r][4] < 0 THEN Len(recs[r][3]) ELSE 0]),
          "vcf:grouped-by-phase-set")

(* ["inccds", R, V, exons, cds, isCollection, outcome <<"v", newCdsLoc | EMPTY, cdsChars>>] : the CDS of a coding
   transcript after incorporate_variants is the edited image of the reference CDS (claimed when every variant lies wholly
   inside one block or wholly outside all blocks, of the exons and of the CDS) *)
VIncCdsRaw(ev) ==
  LET R == ev[2] V == ev[3] ex == ev[4] l == ev[5] coll == ev[6] o == ev[7] IN
  IF ~Premise(ex, V) \/ ~Premise(l, V) THEN "ok"
  ELSE IF SemLiftPos(ex, V) = {} THEN "ok"                       \* the whole transcript is deleted: judged by "inc"
  ELSE IF SemLiftPos(l, V) = {} THEN Ok(Rejected(o) \/ (IsVal(o) /\ PosSet(o[2]) = {}), "incorporate-cds:deleted-is-empty")
  ELSE IF ~IsVal(o) THEN (IF coll /\ ShiftingNonLast(V) /\ Rejected(o) THEN "collection-lift:sequential-shift" ELSE "incorporate-cds:returns")
  ELSE IF PosSet(o[2]) # SemLiftPos(l, V) \/ IsEmptyLoc(o[2]) \/ St(o[2]) # St(l) \/ o[3] # Extract(SemLiftLoc(l, V), Alt(R, V)) THEN
       (IF coll /\ ShiftingNonLast(V) THEN "collection-lift:sequential-shift" ELSE "incorporate-cds:cds-is-edited")
  ELSE "ok"
VIncCds(ev) == Keyed(VIncCdsRaw(ev), ev[6], ev[3], ev[7], ev[5])

Verdict(ev) == CASE ev[1] = "inccds" -> VIncCds(ev) [] ev[1] = "alt" -> VAlt(ev) [] ev[1] = "altm" -> VAltMinus(ev) [] ev[1] = "hapmap" -> VHapMap(ev) [] ev[1] = "lift" -> VLift(ev) [] ev[1] = "inc" -> VInc(ev)
                 [] ev[1] = "vcf" -> VVcf(ev) [] OTHER -> "unknown-op"
Bad == {i \in DOMAIN Trace : Verdict(Trace[i]) # "ok"}
ASSUME \A i \in Bad : PrintT(<<"BAD", i, Verdict(Trace[i])>>)
ASSUME PrintT(<<"DONE", Len(Trace), Cardinality(Bad)>>)
=============================================================================
