----------------------------- MODULE PCacheTrace -----------------------------
(* STEPPED trace validation of the Parent constructor cache (PCache.tla) against recorded executions of the real class.
     ["new", tid]                                  Parent.cache_clear(): a fresh cache
     ["construct", tid, k, obs, sameContent]       Parent(kwargs of look-alike k); obs = <<hits, misses, currsize>> from
                                                   Parent.cache_info(); sameContent = the object handed back projects
                                                   (id, type, strand, location, sequence, ancestor chain) exactly like
                                                   an UNCACHED construction from the same arguments
     ["flood", tid, m, obs, TRUE]                  m unrelated parents
     ["clear", tid, 0, obs, TRUE]                  Parent.cache_clear()
   BAD = the verdict (C10 / C04: a cached answer with somebody else's content); DIV = model drift (the real hit / miss /
   size numbers depart from the LRU machine -- e.g. another capacity or another key equality that is still fine enough),
   reported, never a violation. *)
EXTENDS PCache, Json, IOUtils, TLC, FiniteSets
Trace == ndJsonDeserialize(IOEnv.TRACE_FILE)
VARIABLES p, l, div, bad
tvars == <<p, l, div, bad>>
TraceInit == p = P0 /\ l = 1 /\ div = <<>> /\ bad = <<>>
IsEvent(e) == l <= Len(Trace) /\ Trace[l][1] = e
RECURSIVE NextNew(_)
NextNew(i) == IF i > Len(Trace) \/ Trace[i][1] = "new" THEN i ELSE NextNew(i + 1)
Step(n) ==
  LET ln == Trace[l] IN
  /\ UNCHANGED bad
  /\ IF Obs(n) = ln[4] THEN p' = n /\ l' = l + 1 /\ UNCHANGED div
     ELSE div' = Append(div, <<l, ln[1], Obs(n), ln[4]>>) /\ l' = NextNew(l + 1) /\ p' = P0
TraceNew == IsEvent("new") /\ p' = P0 /\ l' = l + 1 /\ UNCHANGED <<div, bad>>
TraceConstruct == IsEvent("construct") /\ Step(Construct(p, Trace[l][3]))
TraceFlood == IsEvent("flood") /\ Step(Flood(p, Trace[l][3]))
TraceClear == IsEvent("clear") /\ Step(Clear(p))
TraceNext == TraceNew \/ TraceConstruct \/ TraceFlood \/ TraceClear
TraceSpec == TraceInit /\ [][TraceNext]_tvars
Finished == l = Len(Trace) + 1
(* the VERDICT is read off every recorded step, whether or not the machine could still follow that behaviour *)
BadLines == {i \in DOMAIN Trace : Trace[i][1] # "new" /\ ~Trace[i][5]}
Report == Finished => /\ \A i \in BadLines : PrintT(<<"BAD", i, "parent-cache:answer-has-another-content">>)
                      /\ \A i \in DOMAIN div : PrintT(<<"INFO", "DIV", div[i]>>)
                      /\ PrintT(<<"DONE", Len(Trace), Cardinality(BadLines)>>)
TraceAccepted == TLCGet("stats").diameter >= 1
=============================================================================
