------------------------------ MODULE C17Trace ------------------------------
(* code -> spec for property C17: .tbl files written by collection_to_tbl, read by a 5-column reader in the harness.
   gene model = <<exonBlocks, strand, cdsBlocks (merged) | <<>>, startFrame, kind>>, kind in {"coding","rRNA","tRNA","ncRNA"}
   observed feature = <<type, intervals = <<a, b>>..., partial5, partial3, pseudo, codonStart | 0, locusTag>> *)
EXTENDS CDS, Json, IOUtils, TLC
Trace == ndJsonDeserialize(IOEnv.TRACE_FILE)
Ok(b, name) == IF b THEN "ok" ELSE name
FirstBad(seq) == IF \E i \in DOMAIN seq : seq[i] # "ok"
                 THEN seq[CHOOSE i \in DOMAIN seq : seq[i] # "ok" /\ \A j \in 1..(i - 1) : seq[j] = "ok"] ELSE "ok"
(* 1-based inclusive intervals in 5'->3' order; start > end on the minus strand *)
Blocks5to3(bs, st) == IF st = "-" THEN [i \in DOMAIN bs |-> <<bs[Len(bs) + 1 - i][2], bs[Len(bs) + 1 - i][1] + 1>>]
                      ELSE [i \in DOMAIN bs |-> <<bs[i][1] + 1, bs[i][2]>>]
Merged(bs) == MergeRec(bs, TRUE, <<>>)
CodingChars(g, R) == LET all == Bases(<<g[3], g[2]>>) f0 == g[4]
                         n == IF Len(all) > f0 THEN 3 * ((Len(all) - f0) \div 3) ELSE 0
                     IN UpperSeq(CharsOf(SubSeq(all, f0 + 1, f0 + n), g[2] = "-", R))
(* ["tbl", flavour, table, genes, R, header, seqName, featuresPerGene, step, reproducible] *)
VGene(g, fs, R, flavour, table) ==
  LET st == g[2] span == <<<<g[1][1][1], g[1][Len(g[1])][2]>>>> IN
  IF Len(fs) < 1 \/ fs[1][1] # "gene" THEN "gene-feature-first"
  ELSE IF fs[1][2] # Blocks5to3(span, st) \/ fs[1][3] \/ fs[1][4] THEN "gene-interval"
  ELSE IF g[5] # "coding" THEN
     IF Len(fs) # 2 THEN "rna-feature-count"
     ELSE IF fs[2][1] # g[5] THEN "rna-feature-type"
     ELSE IF fs[2][2] # Blocks5to3(g[1], st) THEN "rna-blocks-5to3"
     ELSE Ok(~fs[2][3] /\ ~fs[2][4] /\ ~fs[2][5], "rna-no-marks")
  ELSE
     LET cs == CodonSeqs(CodingChars(g, R)) len == LenLoc(<<g[3], st>>)
         p5 == ~(Len(cs) >= 1 /\ IsStrictCodon(cs[1]) /\ cs[1] \in StartCodons(table))
         p3 == ~(Len(cs) >= 1 /\ (len - g[4]) % 3 = 0 /\ IsStop(cs[Len(cs)]))
         pseudo == \E k \in 1..(Len(cs) - 1) : IsStop(cs[k])
         want == IF flavour = "EUKARYOTIC" THEN <<"gene", "mRNA", "CDS">> ELSE <<"gene", "CDS">>
         cdsf == fs[Len(fs)] IN
     IF [i \in DOMAIN fs |-> fs[i][1]] # want THEN "coding-feature-types"
     ELSE IF cdsf[2] # Blocks5to3(Merged(g[3]), st) THEN "cds-blocks-5to3"
     ELSE IF flavour = "EUKARYOTIC" /\ fs[2][2] # Blocks5to3(Merged(g[1]), st) THEN "mrna-blocks-5to3"
     ELSE IF cdsf[3] # p5 THEN "partial-5"
     ELSE IF cdsf[4] # p3 THEN "partial-3"
     ELSE IF flavour = "EUKARYOTIC" /\ (fs[2][3] # p5 \/ fs[2][4] # p3) THEN "mrna-partial-marks"
     ELSE IF cdsf[6] # g[4] + 1 THEN "codon-start"
     ELSE Ok(\A i \in DOMAIN fs : fs[i][5] = pseudo, "pseudo-flag")
VTbl(ev) ==
  LET genes == ev[4] fpg == ev[8] tags == [i \in DOMAIN fpg |-> fpg[i][1][7]] IN
  FirstBad(<<
    Ok(ev[6] = ev[7], "header-names-sequence"),
    Ok(Len(fpg) = Len(genes), "one-feature-group-per-gene"),
    IF Len(fpg) # Len(genes) THEN "ok" ELSE FirstBad([i \in DOMAIN genes |-> VGene(genes[i], fpg[i], ev[5], ev[2], ev[3])]),
    Ok(\A i \in DOMAIN tags : tags[i] = ev[9] * i, "locus-tags-increase-by-step"),
    Ok(ev[10], "reproducible-for-a-fixed-seed") >>)
Verdict(ev) == IF ev[1] = "tbl" THEN VTbl(ev) ELSE "unknown-op"
Bad == {i \in DOMAIN Trace : Verdict(Trace[i]) # "ok"}
ASSUME \A i \in Bad : PrintT(<<"BAD", i, Verdict(Trace[i])>>)
ASSUME PrintT(<<"DONE", Len(Trace), Cardinality(Bad)>>)
=============================================================================
