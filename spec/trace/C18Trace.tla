------------------------------ MODULE C18Trace ------------------------------
(* code -> spec for property C18: name/ID priority pick, feature types, qualifier merge, and order-independence of
   locus-tag grouping of GenBank records. *)
EXTENDS Quals, Json, IOUtils, TLC
Trace == ndJsonDeserialize(IOEnv.TRACE_FILE)
Ok(b, name) == IF b THEN "ok" ELSE name
Soft == {"ok", "priority:rank0-key-treated-as-unset"}
FirstBad(seq) == IF \E i \in DOMAIN seq : seq[i] \notin Soft
                 THEN seq[CHOOSE i \in DOMAIN seq : seq[i] \notin Soft /\ \A j \in 1..(i - 1) : seq[j] \in Soft]
                 ELSE IF \E i \in DOMAIN seq : seq[i] # "ok" THEN seq[CHOOSE i \in DOMAIN seq : seq[i] # "ok"] ELSE "ok"

HasNote(q) == \E i \in DOMAIN q : q[i][1] = "note"
NoteVal(q) == q[CHOOSE i \in DOMAIN q : q[i][1] = "note"][2][1]
(* ["pick", q, name, id]  (None is "<none>") *)
VPick(ev) ==
  LET q == ev[2] sn == SemName(q) si == SemId(q)
      fallback == sn = NONE /\ si = NONE /\ HasNote(q)
      wantName == IF fallback THEN NoteVal(q) ELSE sn
      wantId == IF fallback THEN NoteVal(q) ELSE si
      rank0Name == \E i, j \in DOMAIN q : i # j /\ IsNameKey(q[i][1]) /\ IsNameKey(q[j][1]) /\ NameRank(Canon(q[i][1])) = 0
      rank0Id == \E i, j \in DOMAIN q : i # j /\ IsIdKey(q[i][1]) /\ IsIdKey(q[j][1]) /\ IdRank(Canon(q[i][1])) = 0 IN
  FirstBad(<<
    \* the known finding excuses exactly the answer the code's order-dependent fold gives FOR THIS ORDER (Quals!CodeFold)
    IF ev[3] = wantName THEN "ok"
    ELSE IF rank0Name /\ ~fallback /\ ev[3] = CodeFoldName(q) THEN "priority:rank0-key-treated-as-unset" ELSE "priority:name",
    IF ev[4] = wantId THEN "ok"
    ELSE IF rank0Id /\ ~fallback /\ ev[4] = CodeFoldId(q) THEN "priority:rank0-key-treated-as-unset" ELSE "priority:id" >>)
(* ["types", initial, q, result] *)
VTypes(ev) == Ok({ev[4][i] : i \in DOMAIN ev[4]} = SemTypes({ev[2][i] : i \in DOMAIN ev[2]}, ev[3]), "types:union")
(* ["merge", q1, q2, result as sequence of <<key, values>>] *)
VMerge(ev) ==
  LET want == SemMerge(ev[2], ev[3]) r == ev[4] IN
  IF {r[i][1] : i \in DOMAIN r} # DOMAIN want \/ Len(r) # Cardinality(DOMAIN want) THEN "merge:keys"
  ELSE Ok(\A i \in DOMAIN r : r[i][2] = want[r[i][1]], "merge:sorted-union")
(* ["gbprio", rows = <<key, value on the mRNA record ("" = absent), value on the CDS record, value the transcript came back
   with>>...] : the transcript-level record is asked first, the CDS record is the fall-back *)
VGbPrio(ev) == Ok(\A k \in DOMAIN ev[2] : LET r == ev[2][k] IN r[4] = (IF r[2] # "" THEN r[2] ELSE r[3]),
                  "genbank:transcript-record-before-cds-record")
(* ["gffmerge", children = <<attributes of one child as <<key, values>>...>>..., result <<key, values>>...] : the level-1
   children of a top-level non-gene GFF3 feature are combined into one feature interval whose qualifiers are the key-wise
   sorted union of ALL the children's (2, 3, 4 ... children: the fold must carry its running result) *)
VGffMerge(ev) ==
  LET ch == ev[2] r == ev[3]
      keys == UNION {KeysOf(ch[i]) : i \in DOMAIN ch}
      want == [k \in keys |-> SetToSortSeq(UNION {ValsOf(ch[i], k) : i \in DOMAIN ch}, <)] IN
  IF {r[i][1] : i \in DOMAIN r} # keys \/ Len(r) # Cardinality(keys) THEN "gff-children-merge:keys"
  ELSE Ok(\A i \in DOMAIN r : r[i][2] = want[r[i][1]], "gff-children-merge:sorted-union")
(* ["perm", projections] : one parse result per permutation of the records of one GenBank file *)
VPerm(ev) == IF \E i \in DOMAIN ev[2] : ev[2][i][1] = "x" THEN "grouping:parse-failed"
             ELSE Ok(Cardinality({ev[2][i] : i \in DOMAIN ev[2]}) = 1, "grouping:order-independent")
(* ["gffpick", attrs = <<key, value>>... in the order of column 9, outcome <<"v", <<symbol, biotype, id>>>>] : the GFF3
   parser chooses a gene's symbol, biotype and identifier by its documented priority lists, whatever the order in which
   the attributes are written *)
GffSymPrio == <<"gene_name", "gene_symbol", "gene", "Name">>
GffTypePrio == <<"gene_biotype", "gene_type">>
GffIdPrio == <<"gene_id", "ID">>
GffHas(attrs, k) == \E i \in DOMAIN attrs : attrs[i][1] = k
GffVal(attrs, k) == attrs[CHOOSE i \in DOMAIN attrs : attrs[i][1] = k][2]
GffPick(attrs, prio) == IF \E j \in DOMAIN prio : GffHas(attrs, prio[j])
                        THEN GffVal(attrs, prio[CHOOSE j \in DOMAIN prio : GffHas(attrs, prio[j]) /\ \A h \in 1..(j - 1) : ~GffHas(attrs, prio[h])])
                        ELSE "None"
VGffPick(ev) ==
  LET attrs == ev[2] o == ev[3] IN
  IF o[1] # "v" THEN "gff3-priority:parses"
  ELSE FirstBad(<< Ok(o[2][1] = GffPick(attrs, GffSymPrio), "gff3-priority:gene-symbol"),
                   Ok(o[2][2] = GffPick(attrs, GffTypePrio), "gff3-priority:gene-biotype"),
                   Ok(o[2][3] = GffPick(attrs, GffIdPrio), "gff3-priority:gene-id") >>)

(* ["export", kind, P, children = <<own, attrs, resultFirstOrder, resultOtherOrder>>..., PAfterFirst, PAfterOther] :
   siblings export their qualifiers against ONE parent dictionary P (as GeneInterval.to_gff does for its isoforms), once
   in the given order and once in the reverse order (fresh P each time).  A dictionary is <<key, <<values>>>>...;
   attrs = <<key, value>>... are the interval's own attributes the export adds.  The result for a child is the key-wise
   union of P, its own qualifiers and its own attributes -- a function of those three, not of the siblings nor of the
   order -- and P is left as it was. *)
SetOf(sq) == {sq[i] : i \in DOMAIN sq}
KeysIn(q) == {q[i][1] : i \in DOMAIN q}
ValsIn(q, k) == UNION {SetOf(q[i][2]) : i \in {j \in DOMAIN q : q[j][1] = k}}
AsMap(q) == [k \in KeysIn(q) |-> ValsIn(q, k)]
WantExport(P, own, attrs) ==
  [k \in KeysIn(P) \cup KeysIn(own) \cup {attrs[i][1] : i \in DOMAIN attrs} |->
     ValsIn(P, k) \cup ValsIn(own, k) \cup {attrs[i][2] : i \in {j \in DOMAIN attrs : attrs[j][1] = k}}]
VExport(ev) ==
  LET P == ev[3] ch == ev[4] IN
  IF \E i \in DOMAIN ch : "!fail" \in KeysIn(ch[i][3]) \cup KeysIn(ch[i][4]) THEN "export:fails"
  ELSE IF AsMap(ev[5]) # AsMap(P) \/ AsMap(ev[6]) # AsMap(P) THEN "export:parent-dictionary-changed"
  ELSE IF \E i \in DOMAIN ch : AsMap(ch[i][3]) # AsMap(ch[i][4]) THEN "export:depends-on-sibling-order"
  ELSE IF \E i \in DOMAIN ch : AsMap(ch[i][3]) # WantExport(P, ch[i][1], ch[i][2]) THEN "export:key-wise-union"
  ELSE "ok"

Verdict(ev) == CASE ev[1] = "export" -> VExport(ev) [] ev[1] = "gffpick" -> VGffPick(ev) [] ev[1] = "pick" -> VPick(ev) [] ev[1] = "types" -> VTypes(ev) [] ev[1] = "merge" -> VMerge(ev) [] ev[1] = "gffmerge" -> VGffMerge(ev) [] ev[1] = "gbprio" -> VGbPrio(ev)
                 [] ev[1] = "perm" -> VPerm(ev) [] OTHER -> "unknown-op"
Bad == {i \in DOMAIN Trace : Verdict(Trace[i]) # "ok"}
ASSUME \A i \in Bad : PrintT(<<"BAD", i, Verdict(Trace[i])>>)
ASSUME PrintT(<<"DONE", Len(Trace), Cardinality(Bad)>>)
=============================================================================
