---------------------------- MODULE GffParseTrace ----------------------------
(* spec -> code -> spec: files emitted by GffParseMC (simulation) and files drawn by the driver from the same grammar,
   written as GFF3 text in a shuffled row order, read by the library's default reader; TLC judges what came back against
   GffParse!Parse.
   ["gff", rows, bio, outcome, convertible]
      outcome = <<"v", <<"gene", biotype, transcripts>>>> | <<"v", <<"fc", type, <<blocks, strand, types>>>>>> | <<"x", exception>>
      transcripts = sequence of <<key (0 for the one built from direct children), exons, cds, frames, strand>> in any order
      convertible = outcome of turning the parsed record into interval objects (<<"v", 1>> | <<"x", exception>> | <<"n", "">> not attempted)
   Hard clauses (property C19: a public operation on a legal file returns a well-formed value or a documented
   refusal): gff:internal-error, gff:ill-formed.  A difference from the reader model that is none of those is a
   DIVERGENCE of the model (soft, printed as INFO and counted): the listed properties say nothing about foreign files. *)
EXTENDS GffParse, Loc, Json, IOUtils, TLC
Trace == ndJsonDeserialize(IOEnv.TRACE_FILE)
TxSetOf(seq) == {<<seq[k][1], <<seq[k][2], seq[k][3], seq[k][4], seq[k][5]>>>> : k \in DOMAIN seq}
WellFormedTx(t) == /\ Len(t[2]) >= 1 /\ \A k \in DOMAIN t[2] : t[2][k][1] < t[2][k][2]
                   /\ \A k \in 1..(Len(t[2]) - 1) : t[2][k][1] <= t[2][k + 1][1]
                   /\ Len(t[4]) = Len(t[3]) /\ \A k \in DOMAIN t[4] : t[4][k] \in 0..2
Hard(ev) ==
  LET o == ev[4] c == ev[5] IN
  IF IsExc(o) /\ o[2] \notin DocumentedExc THEN "gff:internal-error"
  ELSE IF IsExc(c) /\ c[2] \notin DocumentedExc THEN "gff:internal-error-on-conversion"
  \* (a parsed record is a description; what must be well-formed are the interval objects built from it)
  ELSE IF IsVal(o) /\ IsVal(c) /\ o[2][1] = "gene" /\ \E k \in DOMAIN o[2][3] : ~WellFormedTx(o[2][3][k]) THEN "gff:ill-formed"
  ELSE IF IsVal(o) /\ o[2][1] = "gene" /\ Len(o[2][3]) = 0 THEN "gff:gene-without-transcript"
  ELSE "ok"
Diverges(ev) ==
  LET want == Parse(ev[2], ev[3]) o == ev[4] c == ev[5] IN
  IF want[1] = "refuse" THEN ~(IsExc(o) /\ o[2] = want[2])
  ELSE IF ~IsVal(o) THEN TRUE
  ELSE IF want[1] = "gene" THEN
       ~(/\ o[2][1] = "gene" /\ o[2][2] = want[2]
         /\ Len(o[2][3]) = Cardinality(want[3]) /\ TxSetOf(o[2][3]) = want[3]
         \* the record becomes interval objects exactly when every transcript's CDS lies on its exons
         /\ IsVal(c) = (\A x \in want[3] : TxConvertible(x[2])))
  ELSE ~(o[2][1] = "fc" /\ o[2][2] = want[2] /\ o[2][3][1] = want[3][1] /\ o[2][3][2] = want[3][2]
         /\ {o[2][3][3][k] : k \in DOMAIN o[2][3][3]} = want[3][3])
Verdict(ev) == IF ev[1] # "gff" THEN "unknown-op" ELSE Hard(ev)
Bad == {i \in DOMAIN Trace : Verdict(Trace[i]) # "ok"}
Div == {i \in DOMAIN Trace : Verdict(Trace[i]) = "ok" /\ Diverges(Trace[i])}
ASSUME \A i \in Bad : PrintT(<<"BAD", i, Verdict(Trace[i])>>)
ASSUME \A i \in Div : PrintT(<<"INFO", "DIV", i>>)
ASSUME PrintT(<<"DONE", Len(Trace), Cardinality(Bad)>>)
=============================================================================
