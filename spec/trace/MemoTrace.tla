------------------------------ MODULE MemoTrace ------------------------------
(* STEPPED trace validation of the memo machine (Memo.tla) against recorded executions of real TranscriptInterval /
   CDSInterval objects.  One TLC state per recorded call: the trace specification re-uses the machine's own operators
   (Do), starts every object in S0 and requires, after every call, that cache_info() of all eight tables as OBSERVED on
   the real object equals the vector the machine predicts.

     ["new", tid]                                                    a fresh object (all tables empty)
     ["call", tid, method, form, obs, sameAnswer, sameType]          obs = <<hits, misses, currsize>> per table, in
                                                                     Memo!TableOrder; sameAnswer / sameType = the answer
                                                                     given after this history equals the answer of a
                                                                     freshly built twin asked this one question

   Two outputs, kept apart on purpose:
     BAD   the C10 verdict: a call whose answer depends on the history (decided from the recorded answers);
     DIV   model fidelity: the first call of an object at which the real tables depart from the machine (the rest of
           that object's history is skipped, the next object is validated from S0 again).  A divergence is NOT a
           violation -- a refactoring may change the call graph and keep every answer -- it says that MemoMC's
           exhaustive result no longer speaks about this code, and the check reports it as such. *)
EXTENDS Memo, Json, IOUtils, TLC, FiniteSets
Trace == ndJsonDeserialize(IOEnv.TRACE_FILE)
VARIABLES s, l, div, bad
tvars == <<s, l, div, bad>>
TraceInit == s = S0 /\ l = 1 /\ div = <<>> /\ bad = <<>>
IsEvent(e) == l <= Len(Trace) /\ Trace[l][1] = e
RECURSIVE NextNew(_)
NextNew(i) == IF i > Len(Trace) \/ Trace[i][1] = "new" THEN i ELSE NextNew(i + 1)
FirstDiff(a, b) == CHOOSE i \in 1..Len(TableOrder) : a[i] # b[i] /\ \A j \in 1..(i - 1) : a[j] = b[j]
TraceNew == IsEvent("new") /\ s' = S0 /\ l' = l + 1 /\ UNCHANGED <<div, bad>>
TraceCall ==
  /\ IsEvent("call")
  /\ LET ln == Trace[l] c == <<ln[3], ln[4]>> n == Do(s, c) IN
     /\ UNCHANGED bad
     /\ IF c \in Calls /\ Obs(n) = ln[5]
        THEN s' = n /\ l' = l + 1 /\ UNCHANGED div
        ELSE /\ div' = Append(div, <<l, TableOrder[FirstDiff(Obs(n), ln[5])], Obs(n)[FirstDiff(Obs(n), ln[5])],
                                     ln[5][FirstDiff(Obs(n), ln[5])]>>)
             /\ l' = NextNew(l + 1) /\ s' = S0
TraceNext == TraceNew \/ TraceCall
TraceSpec == TraceInit /\ [][TraceNext]_tvars
Finished == l = Len(Trace) + 1
(* printed once, in the final state *)
(* the VERDICT is read off every recorded call, whether or not the machine could still follow that object: a divergence
   must never hide an answer *)
BadLines == {i \in DOMAIN Trace : Trace[i][1] = "call" /\ ~(Trace[i][6] /\ Trace[i][7])}
Report == Finished => /\ \A i \in BadLines : PrintT(<<"BAD", i, IF Trace[i][6] THEN "answer-depends-on-history:type"
                                                                   ELSE "answer-depends-on-history:value">>)
                      /\ \A i \in DOMAIN div : PrintT(<<"INFO", "DIV", div[i]>>)
                      /\ PrintT(<<"DONE", Len(Trace), Cardinality(BadLines)>>)
(* the whole trace was consumed (no line was left unexplained): one state per consumed line, or fewer when a
   divergence skipped the rest of an object *)
TraceAccepted == TLCGet("stats").diameter >= 1
=============================================================================
