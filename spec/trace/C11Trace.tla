------------------------------ MODULE C11Trace ------------------------------
(* code -> spec for property C11: GFF3 files written by collection_to_gff3, lexed by an independent 9-column lexer in
   the harness, judged against the abstract row model below; and the export -> parse -> export leg.
   Model of a file: members = <<"gene", s, e, transcripts>> | <<"fc", s, e, features>>,
   transcript = <<exonBlocks, strand, cdsBlocks, frames>>, feature = <<blocks, strand>>; off = chunk offset.
   Observed row = <<nColumns, seqid, source, type, start, end, score, strand, phase, attrs, rawOK>>,
   attrs = <<key, values>>... already percent-decoded by the lexer. *)
EXTENDS Tables, Json, IOUtils, TLC
Trace == ndJsonDeserialize(IOEnv.TRACE_FILE)
Ok(b, name) == IF b THEN "ok" ELSE name
Soft == {"ok", "ids-unique:shared-cds", "reparse:transcript-biotype-survives", "reexport-identical"}
FirstBad(seq) == IF \E i \in DOMAIN seq : seq[i] \notin Soft
                 THEN seq[CHOOSE i \in DOMAIN seq : seq[i] \notin Soft /\ \A j \in 1..(i - 1) : seq[j] \in Soft]
                 ELSE IF \E i \in DOMAIN seq : seq[i] # "ok" THEN seq[CHOOSE i \in DOMAIN seq : seq[i] # "ok"] ELSE "ok"
Attr(row, k) == LET a == row[10] IN
                IF \E i \in DOMAIN a : a[i][1] = k THEN a[CHOOSE i \in DOMAIN a : a[i][1] = k][2] ELSE <<>>
CountKey(row, k) == Cardinality({i \in DOMAIN row[10] : row[10][i][1] = k})
(* expected rows as <<type, start1, end, strand, phase>>, phase "." or "0".."2" *)
PhaseStr(f) == <<"0", "2", "1">>[f + 1]              \* frame 0,1,2 -> phase 0,2,1
TxRows(t, off) ==
  <<<<"transcript", t[1][1][1] + 1 - off, t[1][Len(t[1])][2] - off, t[2], ".">>>> \o
  [i \in DOMAIN t[1] |-> <<"exon", t[1][i][1] + 1 - off, t[1][i][2] - off, t[2], ".">>] \o
  [i \in DOMAIN t[3] |-> <<"CDS", t[3][i][1] + 1 - off, t[3][i][2] - off, t[2], PhaseStr(t[4][i])>>]
FeatRows(f, off) ==
  <<<<"feature_interval", f[1][1][1] + 1 - off, f[1][Len(f[1])][2] - off, f[2], ".">>>> \o
  [i \in DOMAIN f[1] |-> <<"subregion", f[1][i][1] + 1 - off, f[1][i][2] - off, f[2], ".">>]
RECURSIVE Flat(_)
Flat(ss) == IF ss = <<>> THEN <<>> ELSE ss[1] \o Flat(Tail(ss))
MemberRows(m, off) ==
  IF m[1] = "gene" THEN <<<<"gene", m[2] + 1 - off, m[3] - off, "+", ".">>>> \o Flat([i \in DOMAIN m[4] |-> TxRows(m[4][i], off)])
  ELSE <<<<"biological_region", m[2] + 1 - off, m[3] - off, "+", ".">>>> \o Flat([i \in DOMAIN m[4] |-> FeatRows(m[4][i], off)])
ExpectedRows(model, off) == Flat([i \in DOMAIN model |-> MemberRows(model[i], off)])
BagOf(s) == [x \in {s[i] : i \in DOMAIN s} |-> Cardinality({i \in DOMAIN s : s[i] = x})]
Obs(r) == <<r[4], r[5], r[6], r[8], r[9]>>

(* ["gff", off, model, rows, sharedCds] *)
VGff(ev) ==
  LET off == ev[2] model == ev[3] rows == ev[4]
      ids == [i \in DOMAIN rows |-> Attr(rows[i], "ID")] IN
  FirstBad(<<
    Ok(\A i \in DOMAIN rows : rows[i][1] = 9, "nine-columns"),
    Ok(\A i \in DOMAIN rows : rows[i][11], "raw-structural-character-in-attributes"),
    Ok(\A i \in DOMAIN rows : rows[i][5] >= 1 /\ rows[i][5] <= rows[i][6], "coords:start<=end"),
    Ok(\A i \in DOMAIN rows : rows[i][8] \in {"+", "-", "."}, "strand-symbol"),
    Ok(\A i \in DOMAIN rows : (rows[i][4] # "CDS") => rows[i][9] = ".", "phase-only-on-cds"),
    Ok(BagOf([i \in DOMAIN rows |-> Obs(rows[i])]) = BagOf(ExpectedRows(model, off)), "rows-equal-source-blocks-and-phase"),
    Ok(\A i \in DOMAIN rows : CountKey(rows[i], "ID") = 1 /\ Len(ids[i]) = 1 /\ CountKey(rows[i], "Parent") <= 1
                              /\ CountKey(rows[i], "Name") <= 1, "reserved-attributes"),
    IF Cardinality({ids[i] : i \in DOMAIN rows}) = Len(rows) THEN "ok"
    ELSE IF ev[5] /\ \A i, j \in DOMAIN rows : (i # j /\ ids[i] = ids[j]) => (rows[i][4] = "CDS" /\ rows[j][4] = "CDS")
         THEN "ids-unique:shared-cds" ELSE "ids-unique",
    Ok(\A i \in DOMAIN rows : Attr(rows[i], "Parent") = <<>> \/
          \E j \in 1..(i - 1) : ids[j] = Attr(rows[i], "Parent"), "parent-defined-earlier"),
    Ok(\A i \in 1..(Len(rows) - 1) : rows[i][5] <= rows[i + 1][5], "sorted-by-start") >>)

(* ["attrs", rowType, expected = <<key, valueSet>>..., observed = <<key, values>>...] :
   every qualifier key/value of the source decodes back (keys lower-cased, comma = value separator) *)
VAttrs(ev) ==
  LET want == ev[3] got == ev[4]
      \* a tag that a row carries more than once stands for the union of its values (what a GFF3 reader makes of it)
      G(k) == UNION {{got[i][2][j] : j \in DOMAIN got[i][2]} : i \in {n \in DOMAIN got : got[n][1] = k}} IN
  IF ev[2] = "source-unchanged-by-export"
  THEN Ok(Len(want) = Len(got) /\ \A i \in DOMAIN want : G(want[i][1]) = {want[i][2][j] : j \in DOMAIN want[i][2]},
          "export-changed-the-qualifiers-of-its-source")
  ELSE Ok(\A i \in DOMAIN want : G(want[i][1]) = {want[i][2][j] : j \in DOMAIN want[i][2]}, "escape-decodes-to-original")

(* ["reparse", sourceProjection, parsedProjection, reexportIdentical, hasFasta, sequencesAttached, reexportIdenticalUpToIds] *)
VReparse(ev) ==
  IF ev[3][1] = "x" THEN "reparse:fails"
  ELSE LET src == ev[2] got == ev[3][2] IN FirstBad(<<
    Ok(Len(src) = Len(got), "reparse:gene-count"),
    Ok(Len(src) # Len(got) \/ \A i \in DOMAIN src : src[i][1] = got[i][1], "reparse:structure(exons,cds,frames,strand)"),
    Ok(Len(src) # Len(got) \/ \A i \in DOMAIN src : src[i][2] = got[i][2], "reparse:identifiers"),
    \* named deviation (keyed known finding gff3:transcript-biotype-from-gene-row): the parser reads the transcript's
    \* biotype from the GENE row, so every transcript comes back with its gene's biotype -- only that answer is excused
    IF Len(src) # Len(got) \/ \A i \in DOMAIN src : src[i][3] = got[i][3] THEN "ok"
    ELSE IF \A i \in DOMAIN src : got[i][3][1] = src[i][3][1] /\ Len(got[i][3][2]) = Len(src[i][3][2])
                                    /\ \A k \in DOMAIN got[i][3][2] : got[i][3][2][k] \in {src[i][3][2][k], src[i][3][1]}
         THEN "reparse:transcript-biotype-survives" ELSE "reparse:biotypes",
    Ok(Len(src) # Len(got) \/ \A i \in DOMAIN src : src[i][4] = got[i][4], "reparse:qualifiers"),
    \* re-export: byte-identical (strict) and identical up to the opaque ID / Parent values and attribute order;
    \* not judged when the transcript biotype was already lost (the file necessarily differs there)
    IF Len(src) = Len(got) /\ \E i \in DOMAIN src : src[i][3] # got[i][3] THEN "ok"
    ELSE IF ~ev[7] THEN "reexport-identical-up-to-ids" ELSE IF ~ev[4] THEN "reexport-identical" ELSE "ok",
    Ok(~ev[5] \/ ev[6], "reparse:sequence-attached") >>)

Verdict(ev) == CASE ev[1] = "gff" -> VGff(ev) [] ev[1] = "attrs" -> VAttrs(ev) [] ev[1] = "reparse" -> VReparse(ev)
                 [] OTHER -> "unknown-op"
Bad == {i \in DOMAIN Trace : Verdict(Trace[i]) # "ok"}
ASSUME \A i \in Bad : PrintT(<<"BAD", i, Verdict(Trace[i])>>)
ASSUME PrintT(<<"DONE", Len(Trace), Cardinality(Bad)>>)
=============================================================================
