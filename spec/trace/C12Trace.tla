------------------------------ MODULE C12Trace ------------------------------
(* code -> spec for property C12: GenBank files written by collection_to_genbank, read by an independent reader
   (Bio.SeqIO) and by BioCantor's three parser modes.
   model member = <<"gene", s, e, strand, symbol, locusTag, transcripts>> | <<"fc", s, e, strand, name, locusTag, features>>
   transcript = <<exonBlocks, cdsBlocks, kind, proteinId>>  kind in {"mRNA", "ncRNA", "tRNA", "rRNA", "misc_RNA"}
   feature = <<blocks, featureId ( = none)>> ; record = <<type, blocks, strand, gene, locusTag, proteinId>> *)
EXTENDS Naturals, Sequences, FiniteSets, Json, IOUtils, TLC
Trace == ndJsonDeserialize(IOEnv.TRACE_FILE)
Ok(b, name) == IF b THEN "ok" ELSE name
Soft == {"ok", "independent-reader:minus-strand-parts-not-in-biological-order", "reparse:touching-blocks-merged"}
FirstBad(seq) == IF \E i \in DOMAIN seq : seq[i] \notin Soft
                 THEN seq[CHOOSE i \in DOMAIN seq : seq[i] \notin Soft /\ \A j \in 1..(i - 1) : seq[j] \in Soft]
                 ELSE IF \E i \in DOMAIN seq : seq[i] # "ok" THEN seq[CHOOSE i \in DOMAIN seq : seq[i] # "ok"] ELSE "ok"
RECURSIVE Flat(_)
Flat(ss) == IF ss = <<>> THEN <<>> ELSE ss[1] \o Flat(Tail(ss))
BagOf(s) == [x \in {s[i] : i \in DOMAIN s} |-> Cardinality({i \in DOMAIN s : s[i] = x})]
Span(bs) == <<<<bs[1][1], bs[Len(bs)][2]>>>>
TxRecords(t, m, flavour) ==
  IF t[3] = "mRNA" THEN
     (IF flavour = "PROKARYOTIC" THEN <<<<"CDS", t[2], m[4], m[5], m[6], t[4]>>>>
      ELSE <<<<"mRNA", t[1], m[4], m[5], m[6], "">>, <<"CDS", t[2], m[4], m[5], m[6], t[4]>>>>)
  ELSE <<<<t[3], t[1], m[4], m[5], m[6], "">>>>
MemberRecords(m, flavour) ==
  IF m[1] = "gene" THEN <<<<"gene", <<<<m[2], m[3]>>>>, m[4], m[5], m[6], "">>>> \o Flat([i \in DOMAIN m[7] |-> TxRecords(m[7][i], m, flavour)])
  ELSE <<<<"misc_feature", <<<<m[2], m[3]>>>>, m[4], "", m[6], "">>>> \o      \* the collection name is written as /misc_feature
       [i \in DOMAIN m[7] |-> <<"feat_interval", m[7][i][1], m[4], m[5], m[6], m[7][i][2]>>]   \* ... and its own identifier
ModelTypes == {"gene", "mRNA", "CDS", "ncRNA", "tRNA", "rRNA", "misc_RNA", "misc_feature", "feat_interval"}
Expected(model, flavour) == Flat([i \in DOMAIN model |-> MemberRecords(model[i], flavour)])

(* ["gbk", flavour, model, records, sequenceEqual, translations, partOrders] *)
VGbk(ev) ==
  FirstBad(<<
    Ok(ev[5], "independent-reader:sequence"),
    \* every record the model calls for is in the file, as often as called for; a file may say MORE (a source record,
    \* other annotation) but no further record of a type the gene models are written with
    LET want == BagOf(Expected(ev[3], ev[2])) got == BagOf(ev[4]) IN
      IF ~(\A r \in DOMAIN want : r \in DOMAIN got /\ got[r] >= want[r])
      THEN "independent-reader:records(type,blocks,strand,identifiers)"
      ELSE IF \E r \in DOMAIN got : r[1] \in ModelTypes /\ (r \notin DOMAIN want \/ got[r] > want[r])
      THEN "independent-reader:spurious-record" ELSE "ok",
    \* a multi-part location lists its parts 5'->3' (descending on the minus strand): ev[7] = <<strand, starts in file order>>...
    IF \A i \in DOMAIN ev[7] : LET st == ev[7][i][1] ps == ev[7][i][2] IN
          \A k \in 1..(Len(ps) - 1) : IF st = "-" THEN ps[k] > ps[k + 1] ELSE ps[k] < ps[k + 1]
    THEN "ok" ELSE "independent-reader:minus-strand-parts-not-in-biological-order",
    \* translations: ev[6] = <<written, independent, strand, nParts>>...; the independent translation splices the parts in
    \* biological order itself, so the listing-order finding above excuses nothing here
    Ok(\A i \in DOMAIN ev[6] : ev[6][i][1] = ev[6][i][2], "translation-equals-independent-translation") >>)

(* Named deviation of BioCantor's GenBank parser (keyed known finding genbank:parser-merges-touching-blocks): the parser
   intersects the CDS with the transcript interval, and Location.intersection optimises its result, so blocks of the
   SOURCE that touch (0-bp gap) come back as one block.  MergeTouching predicts exactly that answer; a block list that
   is neither the source's nor the predicted one is "reparse:structure". *)
RECURSIVE MergeTouching(_)
MergeTouching(bs) ==
  IF Len(bs) <= 1 THEN bs
  ELSE IF bs[1][2] = bs[2][1] THEN MergeTouching(<<<<bs[1][1], bs[2][2]>>>> \o SubSeq(bs, 3, Len(bs)))
  ELSE <<bs[1]>> \o MergeTouching(Tail(bs))
\* structure of a gene = rows <<exonBlocks, cdsBlocks>>...
RowExact(got, src) == got = src
RowKnown(got, src) == /\ Len(got) = Len(src)
                      /\ \A k \in DOMAIN src : got[k] = src[k] \/ got[k] = MergeTouching(src[k])
StructExact(got, src) == Len(got) = Len(src) /\ \A r \in DOMAIN src : RowExact(got[r], src[r])
StructKnown(got, src) == Len(got) = Len(src) /\ \A r \in DOMAIN src : RowKnown(got[r], src[r])

(* ["reparse", flavour, source projection, sorted, locusTag, hybrid]; projection = genes as
   <<structure, strand, startFrames, identifiers>>... *)
VReparse(ev) ==
  LET src == ev[3] IN
  \* ev[9] (optional): two genes of the source span the very same interval (an antisense pair).  The SORTED reader
  \* "relies entirely on increasing genomic position to partition features into genes ... inherently challenging because
  \* of issues like overlapping genes" (its docstring): for such sources it is not asked; the other two modes are
  LET lapped == Len(ev) >= 9 /\ ev[9] modes == IF lapped THEN 5..6 ELSE 4..6 IN
  IF \E k \in modes : ev[k][1] = "x" THEN "reparse:fails"
  ELSE FirstBad(<<
    Ok((lapped \/ ev[4][2] = ev[5][2]) /\ ev[5][2] = ev[6][2], "parser-modes-agree"),
    \* ev[7] = locus tags of the source genes along the sequence, ev[8] = the gene order each mode returns: a
    \* position-sorted file with unique locus tags comes back in that order from every mode (genes on the same span:
    \* in either order)
    Ok(\A k \in DOMAIN ev[8] : (lapped /\ k = 1) \/ ev[8][k] = ev[7]
                                \/ (lapped /\ BagOf(ev[8][k]) = BagOf(ev[7])), "parser-modes-agree:gene-order"),
    Ok(Len(ev[6][2]) = Len(src), "reparse:gene-count"),
    IF Len(ev[6][2]) # Len(src) \/ \A i \in DOMAIN src : StructExact(ev[6][2][i][1], src[i][1]) THEN "ok"
    ELSE IF \A i \in DOMAIN src : StructKnown(ev[6][2][i][1], src[i][1]) THEN "reparse:touching-blocks-merged"
    ELSE "reparse:structure",
    Ok(Len(ev[6][2]) # Len(src) \/ \A i \in DOMAIN src : ev[6][2][i][2] = src[i][2], "reparse:strand"),
    IF Len(ev[6][2]) # Len(src) \/ \A i \in DOMAIN src : ev[6][2][i][3] = src[i][3] THEN "ok" ELSE "reparse:start-frame",
    Ok(Len(ev[6][2]) # Len(src) \/ \A i \in DOMAIN src : ev[6][2][i][4] = src[i][4], "reparse:identifiers") >>)
Verdict(ev) == CASE ev[1] = "gbk" -> VGbk(ev) [] ev[1] = "reparse" -> VReparse(ev) [] OTHER -> "unknown-op"
Bad == {i \in DOMAIN Trace : Verdict(Trace[i]) # "ok"}
ASSUME \A i \in Bad : PrintT(<<"BAD", i, Verdict(Trace[i])>>)
ASSUME PrintT(<<"DONE", Len(Trace), Cardinality(Bad)>>)
=============================================================================
