------------------------------ MODULE C01Trace ------------------------------
(* code -> spec for the coordinate maps of Location (property C01).  Every recorded call of the real library is
   judged against the Sem layer of Loc: Bases / Rel2Par / Par2RelSet / SubBases / RelToPosSet. *)
EXTENDS Loc, Json, IOUtils, TLC
Trace == ndJsonDeserialize(IOEnv.TRACE_FILE)

Ok(b, name) == IF b THEN "ok" ELSE name
Soft == {"ok", "order-selfoverlap", "rel-selfoverlap-outer"}       \* clauses of a keyed known finding never mask another clause
FirstBad(seq) == IF \E i \in DOMAIN seq : seq[i] \notin Soft
                 THEN seq[CHOOSE i \in DOMAIN seq : seq[i] \notin Soft /\ \A j \in 1..(i - 1) : seq[j] \in Soft]
                 ELSE IF \E i \in DOMAIN seq : seq[i] # "ok" THEN seq[CHOOSE i \in DOMAIN seq : seq[i] # "ok"]
                 ELSE "ok"
BagOf(s) == [x \in Range(s) |-> Cardinality({i \in DOMAIN s : s[i] = x})]
PidOf(kind) == IF kind = 0 THEN "" ELSE IF kind = 2 THEN "*" ELSE "chr"     \* 2: passive trace, parent not compared

(* ["map", loc, kind, G, r2p (i = -1..len), p2r (p = -1..G)] *)
VMap(ev) ==
  LET l == ev[2] n == LenLoc(l) bs == Bases(l) dir == Directional(St(l)) IN
  FirstBad(<<
    Ok(Len(ev[5]) = n + 2 /\ Len(ev[6]) = ev[4] + 2, "map-shape"),
    Ok(\A k \in DOMAIN ev[5] : LET i == k - 2 o == ev[5][k] IN
         IF ~dir THEN Rejected(o) ELSE
         IF 0 <= i /\ i < n THEN IsVal(o) /\ o[2] = bs[i + 1] ELSE Rejected(o), "rel-to-parent"),
    Ok(\A k \in DOMAIN ev[6] : LET p == k - 2 o == ev[6][k] IN
         IF ~dir THEN (Rejected(o) \/ (IsVal(o) /\ p \in PosSet(l))) ELSE
         IF p \in PosSet(l) THEN IsVal(o) /\ o[2] \in Par2RelSet(l, p) ELSE Rejected(o), "parent-to-rel")
  >>)

(* ["sub", loc, kind, entries = <<a, b, rs, outcome>>...]   outcome value = <<"v", loc, parentId>> *)
VSubEntry(l, kind, en) ==
  LET a == en[1] b == en[2] rs == en[3] o == en[4] n == LenLoc(l) ns == RelStrand(St(l), rs) IN
  IF ~(0 <= a /\ a <= b /\ b <= n) THEN Ok(Rejected(o), "sub-rejects-invalid")
  ELSE IF ~Directional(St(l)) THEN Ok(Rejected(o) \/ (IsVal(o) /\ St(o[2]) = "."), "sub-unstranded")
  ELSE IF a = b THEN Ok(Rejected(o) \/ (IsVal(o) /\ ~IsEmptyLoc(o[2]) /\ LenLoc(o[2]) = 0
                                         /\ St(o[2]) = ns), "sub-zero-length")
  ELSE IF ~IsVal(o) THEN "sub-returns"
  ELSE LET r == o[2] want == SubBases(l, a, b, rs) IN
       IF IsEmptyLoc(r) THEN "sub-nonempty"
       ELSE IF ~WellFormed(r, -1) THEN "sub-wellformed"
       ELSE IF St(r) # ns THEN "sub-strand"
       ELSE IF o[3] # PidOf(kind) THEN "parent-preserved"
       ELSE IF ns = "." THEN Ok(PosSet(r) = Range(want) /\ LenLoc(r) = Len(want), "sub-bases")
       ELSE IF Bases(r) = want THEN "ok"
       ELSE IF BagOf(Bases(r)) = BagOf(want) /\ ~Monotone(want, ns) THEN "order-selfoverlap"
       ELSE "sub-bases"
VSub(ev) == FirstBad([k \in DOMAIN ev[4] |-> VSubEntry(ev[2], ev[3], ev[4][k])])

(* ["scanw", loc, kind, entries = <<windowSize, stepSize, startPos, outcome>>...] : scan_windows yields, in relative order,
   exactly the windows [p0 + k*step, p0 + k*step + w) that fit, each the sub-interval the point-wise map gives;
   outcome value = <<"v", <<"v", loc, parentId>>...>> *)
VScanEntry(l, kind, en) ==
  LET w == en[1] st == en[2] p0 == en[3] o == en[4] n == LenLoc(l) IN
  IF ~(0 <= p0 /\ p0 < n) \/ w < 1 \/ st < 1 \/ w > n \/ p0 + w > n \/ ~Directional(St(l))
  THEN Ok(Rejected(o), "windows-rejects-invalid")
  ELSE IF ~IsVal(o) THEN "windows-returns"
  ELSE IF Len(o[2]) # ((n - w - p0) \div st) + 1 THEN "windows-count"
  ELSE FirstBad([k \in DOMAIN o[2] |-> VSubEntry(l, kind, <<p0 + (k - 1) * st, p0 + (k - 1) * st + w, "+", o[2][k]>>)])
VScan(ev) == FirstBad([k \in DOMAIN ev[4] |-> VScanEntry(ev[2], ev[3], ev[4][k])])

(* ["rel", outer, q, kind, outcomeOptimized, outcomeRaw] : outer.parent_to_relative_location(q, optimize_blocks) *)
(* Named deviation behind the keyed finding loc:selfoverlap-outer.  For ONE block b of the query, the library intersects it
   with the outer location, takes the lowest and the highest shared parent position, maps each to its FIRST relative
   pre-image (the 5'->3' block walk of parent_to_relative_pos) and answers with the span between the two
   (SingleInterval._location_relative_to); a multi-block query is answered block by block.  When the outer location
   overlaps itself a parent position has several pre-images and that span is not the image -- but it is exactly predictable,
   and only the predicted position set is filed under the finding. *)
CodeRelBlockPos(outer, b) ==
  LET S == BlockPos(b) \cap PosSet(outer) IN
  IF S = {} THEN {}
  ELSE LET r1 == Min(Par2RelSet(outer, Min(S))) r2 == Min(Par2RelSet(outer, Max(S))) IN
       (IF r1 < r2 THEN r1 ELSE r2)..(IF r1 < r2 THEN r2 ELSE r1)
CodeRelPos(outer, q) == UNION {CodeRelBlockPos(outer, q[1][i]) : i \in DOMAIN q[1]}
VRelOne(outer, q, o, optimized) ==
  LET shared == PosSet(q) \cap PosSet(outer) IN
  IF ~Directional(St(outer)) \/ ~Directional(St(q)) THEN "ok"            \* not claimed for unstranded operands
  ELSE IF shared = {} THEN Ok(Rejected(o) \/ (IsVal(o) /\ IsEmptyLoc(o[2])), "rel-rejects-disjoint")
  ELSE IF ~IsVal(o) THEN "rel-returns"
  ELSE LET r == o[2]
           want == SelectSeq(Bases(q), LAMBDA p : p \in PosSet(outer))
           n == LenLoc(outer) IN
       IF IsEmptyLoc(r) THEN "rel-nonempty"
       ELSE IF ~WellFormed(r, n) THEN "rel-wellformed"
       ELSE IF St(r) # RelStrand(St(q), St(outer)) THEN "rel-strand"
       ELSE IF optimized /\ ~SelfOverlap(outer) /\ ~SelfOverlap(q) /\ ~Optimised(r) THEN "rel-optimised"
       ELSE LET got == [i \in DOMAIN Bases(r) |-> Rel2Par(outer, Bases(r)[i])] IN
            IF got = want THEN "ok"
            \* the parent->relative map is multi-valued: the code's span-of-first-pre-images, and nothing else, is the finding
            ELSE IF SelfOverlap(outer) /\ PosSet(r) = CodeRelPos(outer, q) THEN "rel-selfoverlap-outer"
            ELSE IF SelfOverlap(q) /\ BagOf(got) = BagOf(want) THEN "order-selfoverlap"   \* same bases with multiplicity, order lost
            ELSE "rel-bases"
VRel(ev) == FirstBad(<<VRelOne(ev[2], ev[3], ev[5], TRUE), VRelOne(ev[2], ev[3], ev[6], FALSE)>>)

(* ["cert", G, K, locs] : the recorded inputs are exactly Locs(G, K) *)
VCert(ev) == Ok({ev[4][i] : i \in DOMAIN ev[4]} = LocsGK(ev[2], ev[3]) /\ Len(ev[4]) = Cardinality(LocsGK(ev[2], ev[3])),
                "input-space-complete")

(* single calls recorded passively from the repository's own tests: ["r2p1", loc, i, outcome] / ["p2r1", loc, p, outcome] *)
VR2P1(ev) == LET l == ev[2] i == ev[3] o == ev[4] IN
  IF ~Directional(St(l)) THEN Ok(Rejected(o), "rel-to-parent")
  ELSE IF 0 <= i /\ i < LenLoc(l) THEN Ok(IsVal(o) /\ o[2] = Bases(l)[i + 1], "rel-to-parent") ELSE Ok(Rejected(o), "rel-to-parent")
VP2R1(ev) == LET l == ev[2] p == ev[3] o == ev[4] IN
  IF ~Directional(St(l)) THEN "ok"
  ELSE IF p \in PosSet(l) THEN Ok(IsVal(o) /\ o[2] \in Par2RelSet(l, p), "parent-to-rel") ELSE Ok(Rejected(o), "parent-to-rel")
Verdict(ev) == CASE ev[1] = "r2p1" -> VR2P1(ev) [] ev[1] = "p2r1" -> VP2R1(ev) [] ev[1] = "map" -> VMap(ev) [] ev[1] = "sub" -> VSub(ev) [] ev[1] = "scanw" -> VScan(ev) [] ev[1] = "rel" -> VRel(ev)
                 [] ev[1] = "cert" -> VCert(ev) [] OTHER -> "unknown-op"
Bad == {i \in DOMAIN Trace : Verdict(Trace[i]) # "ok"}
ASSUME \A i \in Bad : PrintT(<<"BAD", i, Verdict(Trace[i])>>)
ASSUME PrintT(<<"DONE", Len(Trace), Cardinality(Bad)>>)
=============================================================================
