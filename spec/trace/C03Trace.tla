------------------------------ MODULE C03Trace ------------------------------
(* code -> spec for property C03: extracted sequences and Sequence objects that record a location on a root.
   root = list of letters; a Sequence-valued outcome is <<"v", chars, loc, hasLoc>>. *)
EXTENDS SeqAlg, Json, IOUtils, TLC
Trace == ndJsonDeserialize(IOEnv.TRACE_FILE)
BagOfSeq(sq) == [x \in {sq[i] : i \in DOMAIN sq} |-> Cardinality({i \in DOMAIN sq : sq[i] = x})]
Ok(b, name) == IF b THEN "ok" ELSE name
FirstBad(seq) == IF \E i \in DOMAIN seq : seq[i] # "ok"
                 THEN seq[CHOOSE i \in DOMAIN seq : seq[i] # "ok" /\ \A j \in 1..(i - 1) : seq[j] = "ok"] ELSE "ok"
InAlphabet(chars, alpha) == \A i \in DOMAIN chars : chars[i] \in AllCases(AlphabetLetters(alpha))

(* ["ext", alphabet, root, loc, outcome <<"v", chars>>] : location.extract_sequence() *)
VExt(ev) ==
  LET l == ev[4] o == ev[5] IN
  IF ~Directional(St(l)) THEN Ok(Rejected(o), "extract:unstranded-rejects")
  ELSE IF LenLoc(l) = 0 /\ Rejected(o) THEN "ok"
  ELSE IF ~IsVal(o) THEN "extract:returns"
  ELSE IF o[2] # Extract(l, ev[3]) THEN "extract:chars"
  ELSE Ok(InAlphabet(o[2], ev[2]), "extract:alphabet")

(* a located sequence is consistent when its characters are the image of its recorded location *)
(* up to the documented RNA letter: complementing twice turns U into T *)
NormU(chars) == [i \in DOMAIN chars |-> IF chars[i] = "U" THEN "T" ELSE IF chars[i] = "u" THEN "t" ELSE chars[i]]
ConsistentSeq(chars, l, hasLoc, root) ==
  ~hasLoc \/ (IF IsEmptyLoc(l) THEN chars = <<>> ELSE (Directional(St(l)) /\ NormU(chars) = NormU(Extract(l, root))))

(* ["sop", alphabet, root, preChars, preLoc, preHasLoc, op, args, outcome] *)
VSop(ev) ==
  LET root == ev[3] pc == ev[4] pl == ev[5] ph == ev[6] op == ev[7] ar == ev[8] o == ev[9] n == Len(ev[4]) IN
  \* the receiver itself: its recorded location must still describe its characters (it may be an operand of an earlier
  \* operation asked again).  With self-overlap the keyed order finding already covers the object that produced it.
  \* ev[10] = lineage flag: an ancestor of this receiver sat on a self-overlapping location.
  IF ~ConsistentSeq(pc, pl, ph, root) THEN (IF (ph /\ SelfOverlap(pl)) \/ ev[10] THEN "ok" ELSE "operand:location-consistent")
  ELSE IF op = "slice" THEN
     \* ar = <<a, b, step, openBound>> with a, b already made explicit (0 / n) when the request left them open
     LET a == ar[1] b == ar[2] step == ar[3] open == ar[4] plain == (step = 1) IN
     IF IsVal(o) THEN
        IF ~ConsistentSeq(o[2], o[3], o[4], root)
        \* the self-overlap finding is about ORDER: the recorded location must still have exactly the bases of the slice,
        \* with multiplicity (a slice that picks up an intron base or loses a repeated one is not that finding)
        THEN (IF ph /\ SelfOverlap(pl) /\ step = 1 /\ ~IsEmptyLoc(o[3])
                 /\ BagOfSeq(Bases(o[3])) = BagOfSeq(PySlice(Bases(pl), a, b))
              THEN "slice:selfoverlap-order" ELSE "slice:location-consistent")
        ELSE IF o[4] # ph THEN "slice:keeps-location"
        ELSE IF plain /\ o[2] # PySlice(pc, a, b) THEN "slice:chars"
        ELSE "ok"
     ELSE IF ~Rejected(o) THEN "slice:internal-error"
     \* "all slice bounds": an empty slice [a, a) with 0 <= a <= n is answered too.  Named deviation (keyed finding
     \* seq:empty-slice-at-end-of-compound-location): at the very end (a = n) of a sequence located by a MULTI-block
     \* location the library refuses with InvalidPositionException
     ELSE IF plain /\ 0 <= a /\ a = b /\ b <= n THEN
          (IF a = n /\ ph /\ ~IsEmptyLoc(pl) /\ Len(pl[1]) >= 2 /\ o[2] = "InvalidPositionException"
           THEN "slice:empty-at-end-of-compound-location" ELSE "slice:returns")
     ELSE IF plain /\ 0 <= a /\ a < b /\ b <= n THEN (IF open THEN "slice:open-bound-rejected" ELSE "slice:returns")
     ELSE "ok"
  ELSE IF op = "index" THEN
     LET i == ar[1] IN
     IF IsVal(o) THEN
        IF ~ConsistentSeq(o[2], o[3], o[4], root) THEN "index:location-consistent"
        ELSE Ok(o[2] = PySlice(pc, i, IF i = -1 THEN n ELSE i + 1), "index:chars")
     ELSE IF o[2] = "IndexError" THEN Ok(i >= n \/ i < -n, "index:returns")        \* the Python sequence protocol
     ELSE IF ~Rejected(o) THEN "index:internal-error"
     ELSE Ok(~(0 <= i /\ i < n), "index:returns")
  ELSE IF op = "rc" THEN
     IF ~IsVal(o) THEN "revcomp:returns"
     ELSE IF o[2] # RevCompSeq(pc) THEN "revcomp:chars"
     ELSE IF ~ConsistentSeq(o[2], o[3], o[4], root)
          \* (the finding is about ORDER: the recorded location still holds the receiver's bases, each as often as before)
          THEN (IF ph /\ SelfOverlap(pl) /\ o[4] /\ ~IsEmptyLoc(o[3]) /\ BagOfSeq(Bases(o[3])) = BagOfSeq(Bases(pl))
                THEN "revcomp:selfoverlap-order" ELSE "revcomp:location-consistent")
     ELSE IF o[4] # ph /\ Len(pc) > 0 THEN "revcomp:keeps-location"
     ELSE Ok(~ph \/ IsEmptyLoc(pl) \/ Len(pc) = 0 \/ (St(o[3]) = RevStrand(St(pl)) /\ PosSet(o[3]) = PosSet(pl)), "revcomp:location")
  ELSE IF op = "append" THEN
     \* ar = <<otherChars, otherLoc, otherHasLoc>>
     LET oc == ar[1] ol == ar[2] oh == ar[3]
         compatible == ph /\ oh /\ ~IsEmptyLoc(pl) /\ ~IsEmptyLoc(ol) /\ St(pl) = St(ol) /\ Directional(St(pl))
                       /\ LenLoc(pl) > 0 /\ LenLoc(ol) > 0
                       /\ (IF St(pl) = "+" THEN MaxEnd(pl) <= MinStart(ol) ELSE MinStart(pl) >= MaxEnd(ol)) IN
     IF IsVal(o) THEN
        IF o[2] # pc \o oc THEN "append:chars"
        ELSE IF ~ConsistentSeq(o[2], o[3], o[4], root)
             \* Named deviation: the union of the two recorded locations keeps blocks that overlap each other when one operand
             \* is a single block (optimize_blocks) and merges them when both are multi-block (optimize_and_combine_blocks);
             \* only the block list that rule predicts is filed under the order finding
             THEN (IF ((ph /\ SelfOverlap(pl)) \/ (oh /\ SelfOverlap(ol))) /\ ph /\ oh /\ o[4] /\ ~IsEmptyLoc(o[3])
                      \* (blocks in the library's own order for the strand -- start ascending, on the minus strand the longer
                      \* block first -- because only CONSECUTIVE adjacent blocks are fused on the keep-overlaps path)
                      /\ LET mergeAll == NB(pl) > 1 /\ NB(ol) > 1
                             both == IF mergeAll THEN SortSeq(pl[1] \o ol[1], LAMBDA x, y : x[1] < y[1] \/ (x[1] = y[1] /\ x[2] < y[2]))
                                     ELSE LibSort(pl[1] \o ol[1], St(pl))
                             pred == AlgoCombine(<<both, St(pl)>>, mergeAll) IN
                         ~IsEmptyLoc(pred) /\ SortSeq(o[3][1], LAMBDA x, y : x[1] < y[1] \/ (x[1] = y[1] /\ x[2] < y[2])) = pred[1]
                   THEN "append:selfoverlap-order" ELSE "append:location-consistent")
        ELSE Ok(~compatible \/ o[4], "append:keeps-location")
     ELSE IF ~Rejected(o) THEN "append:internal-error"
     ELSE Ok(~compatible /\ (ph \/ oh), "append:returns")
  ELSE "unknown-sop"

Verdict(ev) == CASE ev[1] = "ext" -> VExt(ev) [] ev[1] = "sop" -> VSop(ev) [] OTHER -> "unknown-op"
Bad == {i \in DOMAIN Trace : Verdict(Trace[i]) # "ok"}
ASSUME \A i \in Bad : PrintT(<<"BAD", i, Verdict(Trace[i])>>)
ASSUME PrintT(<<"DONE", Len(Trace), Cardinality(Bad)>>)
=============================================================================
