------------------------------ MODULE C20Trace ------------------------------
(* code -> spec for property C20: aggregates of real GeneInterval / FeatureIntervalCollection / AnnotationCollection
   objects judged as functions of their children (Aggregates.tla). *)
EXTENDS Aggregates, Json, IOUtils, TLC
Trace == ndJsonDeserialize(IOEnv.TRACE_FILE)
Ok(b, name) == IF b THEN "ok" ELSE name
Soft == {"ok", "merged:mixed-strand-rejected"}
FirstBad(seq) == IF \E i \in DOMAIN seq : seq[i] \notin Soft
                 THEN seq[CHOOSE i \in DOMAIN seq : seq[i] \notin Soft /\ \A j \in 1..(i - 1) : seq[j] \in Soft]
                 ELSE IF \E i \in DOMAIN seq : seq[i] # "ok" THEN seq[CHOOSE i \in DOMAIN seq : seq[i] # "ok"] ELSE "ok"
MixedStrands(locs) == Cardinality({St(locs[i]) : i \in DOMAIN locs}) > 1

(* the collection-level accessor returns the member's value; where the member has none (it refuses), the collection
   may answer None or refuse as well *)
Same(a, m) == IF IsVal(m) THEN a = m ELSE (Rejected(a) \/ (IsVal(a) /\ a[2] = "<none>"))
(* ["gene", children = <<exons, cds|EMPTY, flag>>..., ctorOutcome,
    start, end, isCoding, primaryIdx, mergedTx, mergedCds, primarySeq, childSeqs, primaryCdsSeq, childCdsSeqs,
    primaryProtein, childProteins, chunkStart | -1, chunkEnd | -1] *)
VGene(ev) ==
  LET ch == ev[2] exons == [i \in DOMAIN ch |-> ch[i][1]]
      summ == [i \in DOMAIN ch |-> <<IF IsEmptyLoc(ch[i][2]) THEN 0 ELSE LenLoc(ch[i][2]), LenLoc(ch[i][1]), ch[i][3]>>]
      codingIdx == {i \in DOMAIN ch : ~IsEmptyLoc(ch[i][2])}
      cdss == [i \in DOMAIN ch |-> ch[i][2]]
      OnChunk == Len(ev) >= 17 /\ ev[16] >= 0 IN
  IF PrimaryIsError(summ) THEN Ok(Rejected(ev[3]), "primary:several-flags-rejected")
  ELSE IF ~IsVal(ev[3]) THEN "gene:constructs"
  ELSE LET p == SemPrimary(summ) IN FirstBad(<<
    Ok(ev[4] = SpanStart(exons) /\ ev[5] = SpanEnd(exons), "span"),
    Ok(ev[6] = (codingIdx # {}), "is-coding"),
    Ok(ev[7] = p, "primary"),
    \* merged transcript: exactly the union of the children's blocks, combined
    IF MixedStrands(exons) /\ Rejected(ev[8]) THEN "merged:mixed-strand-rejected"
    \* a gene built on a sequence chunk [ev[16], ev[17]) none of whose exons has a base there: there is nothing to build
    \* the merged interval on, a documented refusal is accepted
    ELSE IF OnChunk /\ Rejected(ev[8]) /\ UnionPos(exons) \cap (ev[16]..(ev[17] - 1)) = {} THEN "ok"
    ELSE IF ~IsVal(ev[8]) THEN "merged-transcript:returns"
    ELSE Ok(PosSet(ev[8][2]) = UnionPos(exons) /\ WellFormed(ev[8][2], -1), "merged-transcript"),
    IF codingIdx = {} THEN Ok(Rejected(ev[9]), "merged-cds:noncoding-rejects")
    ELSE IF MixedStrands([i \in 1..Cardinality(codingIdx) |-> cdss[SetToSortSeq(codingIdx, <)[i]]]) /\ Rejected(ev[9])
         THEN "merged:mixed-strand-rejected"
    ELSE IF OnChunk /\ Rejected(ev[9]) /\ (UNION {PosSet(cdss[i]) : i \in codingIdx}) \cap (ev[16]..(ev[17] - 1)) = {} THEN "ok"
    ELSE IF ~IsVal(ev[9]) THEN "merged-cds:returns"
    ELSE Ok(PosSet(ev[9][2]) = UNION {PosSet(cdss[i]) : i \in codingIdx} /\ WellFormed(ev[9][2], -1), "merged-cds"),
    \* the primary accessors return the primary member's own values
    Ok(Same(ev[10], ev[11][p]), "primary-sequence"),
    Ok(Same(ev[12], ev[13][p]), "primary-cds-sequence"),
    Ok(Same(ev[14], ev[15][p]), "primary-protein") >>)

(* ["fc", children = <<loc, types, flag>>..., ctorOutcome, start, end, types, primaryIdx, merged, primarySeq, childSeqs] *)
VFc(ev) ==
  LET ch == ev[2] locs == [i \in DOMAIN ch |-> ch[i][1]]
      summ == [i \in DOMAIN ch |-> <<0, LenLoc(ch[i][1]), ch[i][3]>>] IN
  IF PrimaryIsError(summ) THEN Ok(Rejected(ev[3]), "primary:several-flags-rejected")
  ELSE IF ~IsVal(ev[3]) THEN "collection:constructs"
  ELSE LET p == SemPrimary(summ) IN FirstBad(<<
    Ok(ev[4] = SpanStart(locs) /\ ev[5] = SpanEnd(locs), "span"),
    Ok({ev[6][i] : i \in DOMAIN ev[6]} = UNION {{ch[i][2][j] : j \in DOMAIN ch[i][2]} : i \in DOMAIN ch}, "types-union"),
    Ok(ev[7] = p, "primary"),
    IF MixedStrands(locs) /\ Rejected(ev[8]) THEN "merged:mixed-strand-rejected"
    ELSE IF ~IsVal(ev[8]) THEN "merged-feature:returns"
    ELSE Ok(PosSet(ev[8][2]) = UnionPos(locs) /\ WellFormed(ev[8][2], -1), "merged-feature"),
    Ok(ev[9] = ev[10][p], "primary-sequence") >>)

(* ["iter", starts in construction order, iteration order (1-based indices into that order)] *)
VIter(ev) ==
  LET st == ev[2] ord == ev[3] IN
  IF Len(ord) # Len(st) \/ {ord[i] : i \in DOMAIN ord} # DOMAIN st THEN "iteration:permutation"
  ELSE Ok(\A i \in 1..(Len(ord) - 1) : st[ord[i]] <= st[ord[i + 1]], "iteration:ordered-by-start")

(* ["collspan", memberSpans, start, end] : an annotation collection built without bounds and without a parent spans its
   members -- minimum start, MAXIMUM end (the member that starts last need not end last) *)
VCollSpan(ev) ==
  LET ms == ev[2] IN
  Ok(ev[3] = Min({ms[i][1] : i \in DOMAIN ms}) /\ ev[4] = Max({ms[i][2] : i \in DOMAIN ms}), "collection-span")
Verdict(ev) == CASE ev[1] = "collspan" -> VCollSpan(ev) [] ev[1] = "gene" -> VGene(ev) [] ev[1] = "fc" -> VFc(ev) [] ev[1] = "iter" -> VIter(ev)
                 [] OTHER -> "unknown-op"
Bad == {i \in DOMAIN Trace : Verdict(Trace[i]) # "ok"}
ASSUME \A i \in Bad : PrintT(<<"BAD", i, Verdict(Trace[i])>>)
ASSUME PrintT(<<"DONE", Len(Trace), Cardinality(Bad)>>)
=============================================================================
