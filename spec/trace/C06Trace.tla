------------------------------ MODULE C06Trace ------------------------------
(* code -> spec for property C06: all coordinate conversions, UTRs, introns and span of real TranscriptInterval
   objects judged against Tx / Loc. *)
EXTENDS Tx, Json, IOUtils, TLC
Trace == ndJsonDeserialize(IOEnv.TRACE_FILE)
Ok(b, name) == IF b THEN "ok" ELSE name
FirstBad(seq) == IF \E i \in DOMAIN seq : seq[i] # "ok"
                 THEN seq[CHOOSE i \in DOMAIN seq : seq[i] # "ok" /\ \A j \in 1..(i - 1) : seq[j] = "ok"] ELSE "ok"

(* a list of outcomes for positions lo, lo+1, ... : value f(p) where defined(p), rejection elsewhere *)
MapOK(os, lo, Defined(_), F(_)) ==
  \A k \in DOMAIN os : LET p == lo + k - 1 o == os[k] IN
     IF Defined(p) THEN IsVal(o) /\ o[2] = F(p) ELSE Rejected(o)
EmptyLike(o) == IsVal(o) /\ LenLoc(o[2]) = 0

(* ["tx", exons, cds (or EMPTY when non-coding), G, s2t, t2s, s2c, c2s, t2c, c2t, aa, utr5, utr3, introns, span] *)
VTx(ev) ==
  LET ex == ev[2] cds == ev[3] G == ev[4] n == LenLoc(ex) coding == ~IsEmptyLoc(cds) IN
  IF ~coding THEN
    FirstBad(<<
      Ok(MapOK(ev[5], -1, LAMBDA p : p \in PosSet(ex), LAMBDA p : Min(Par2RelSet(ex, p))), "chr-to-transcript"),
      Ok(MapOK(ev[6], -1, LAMBDA i : 0 <= i /\ i < n, LAMBDA i : Rel2Par(ex, i)), "transcript-to-chr"),
      Ok(\A k \in DOMAIN ev[7] : Rejected(ev[7][k]), "noncoding-rejects-cds-calls"),
      Ok(\A k \in DOMAIN ev[9] : Rejected(ev[9][k]), "noncoding-rejects-cds-calls"),
      Ok(Rejected(ev[12]) /\ Rejected(ev[13]), "noncoding-rejects-utr"),
      Ok(IsVal(ev[14]) /\ PosSet(ev[14][2]) = IntronPos(ex), "introns"),
      Ok(IsVal(ev[15]) /\ PosSet(ev[15][2]) = MinStart(ex)..(MaxEnd(ex) - 1), "span") >>)
  ELSE
    LET m == LenLoc(cds) ca == CdsStartOnTx(ex, cds) cb == ca + m IN
    FirstBad(<<
      Ok(Bases(cds) = CdsBases(ex, ca, cb), "harness:cds-is-subinterval"),
      Ok(MapOK(ev[5], -1, LAMBDA p : p \in PosSet(ex), LAMBDA p : Min(Par2RelSet(ex, p))), "chr-to-transcript"),
      Ok(MapOK(ev[6], -1, LAMBDA i : 0 <= i /\ i < n, LAMBDA i : Rel2Par(ex, i)), "transcript-to-chr"),
      Ok(MapOK(ev[7], -1, LAMBDA p : p \in PosSet(cds), LAMBDA p : Min(Par2RelSet(cds, p))), "chr-to-cds"),
      Ok(MapOK(ev[8], -1, LAMBDA i : 0 <= i /\ i < m, LAMBDA i : Rel2Par(cds, i)), "cds-to-chr"),
      \* chromosome -> CDS equals chromosome -> transcript -> CDS: transcript position t is CDS position t - ca
      Ok(MapOK(ev[9], -1, LAMBDA t : ca <= t /\ t < cb, LAMBDA t : t - ca), "transcript-to-cds"),
      Ok(MapOK(ev[10], -1, LAMBDA c : 0 <= c /\ c < m, LAMBDA c : c + ca), "cds-to-transcript"),
      Ok(MapOK(ev[11], -1, LAMBDA p : p \in PosSet(cds), LAMBDA p : Min(Par2RelSet(cds, p)) \div 3), "amino-acid-index"),
      \* UTRs: exact, in order, empty (not an error) when the CDS reaches that end
      IF ca = 0 THEN Ok(EmptyLike(ev[12]), "utr5-empty-ok")
      ELSE Ok(IsVal(ev[12]) /\ ~IsEmptyLoc(ev[12][2]) /\ Bases(ev[12][2]) = Utr5Bases(ex, ca) /\ St(ev[12][2]) = St(ex), "utr5"),
      IF cb = n THEN Ok(EmptyLike(ev[13]), "utr3-empty-ok")
      ELSE Ok(IsVal(ev[13]) /\ ~IsEmptyLoc(ev[13][2]) /\ Bases(ev[13][2]) = Utr3Bases(ex, cb) /\ St(ev[13][2]) = St(ex), "utr3"),
      Ok(IsVal(ev[14]) /\ PosSet(ev[14][2]) = IntronPos(ex), "introns"),
      Ok(IsVal(ev[15]) /\ PosSet(ev[15][2]) = MinStart(ex)..(MaxEnd(ex) - 1), "span") >>)

(* ["txpos", exons, cds|EMPTY, G, s2t, t2s, s2c, c2s, t2c, c2t, aa, introns, span] : the chromosome-level conversions
   of a transcript that was built on a sequence CHUNK (emitted by the C07 check): they are the conversions of the
   whole-chromosome transcript, whatever the chunk cuts off.  (UTR accessors answer in chunk coordinates and are not
   part of this event.) *)
VTxPos(ev) ==
  LET ex == ev[2] cds == ev[3] n == LenLoc(ex) coding == ~IsEmptyLoc(cds) IN
  IF ~coding THEN
    FirstBad(<<
      Ok(MapOK(ev[5], -1, LAMBDA p : p \in PosSet(ex), LAMBDA p : Min(Par2RelSet(ex, p))), "chr-to-transcript"),
      Ok(MapOK(ev[6], -1, LAMBDA i : 0 <= i /\ i < n, LAMBDA i : Rel2Par(ex, i)), "transcript-to-chr"),
      Ok(\A k \in DOMAIN ev[7] : Rejected(ev[7][k]), "noncoding-rejects-cds-calls"),
      Ok(\A k \in DOMAIN ev[9] : Rejected(ev[9][k]), "noncoding-rejects-cds-calls"),
      Ok(IsVal(ev[12]) /\ PosSet(ev[12][2]) = IntronPos(ex), "introns"),
      Ok(IsVal(ev[13]) /\ PosSet(ev[13][2]) = MinStart(ex)..(MaxEnd(ex) - 1), "span") >>)
  ELSE
    LET m == LenLoc(cds) ca == CdsStartOnTx(ex, cds) cb == ca + m IN
    FirstBad(<<
      Ok(MapOK(ev[5], -1, LAMBDA p : p \in PosSet(ex), LAMBDA p : Min(Par2RelSet(ex, p))), "chr-to-transcript"),
      Ok(MapOK(ev[6], -1, LAMBDA i : 0 <= i /\ i < n, LAMBDA i : Rel2Par(ex, i)), "transcript-to-chr"),
      Ok(MapOK(ev[7], -1, LAMBDA p : p \in PosSet(cds), LAMBDA p : Min(Par2RelSet(cds, p))), "chr-to-cds"),
      Ok(MapOK(ev[8], -1, LAMBDA i : 0 <= i /\ i < m, LAMBDA i : Rel2Par(cds, i)), "cds-to-chr"),
      Ok(MapOK(ev[9], -1, LAMBDA t : ca <= t /\ t < cb, LAMBDA t : t - ca), "transcript-to-cds"),
      Ok(MapOK(ev[10], -1, LAMBDA c : 0 <= c /\ c < m, LAMBDA c : c + ca), "cds-to-transcript"),
      Ok(MapOK(ev[11], -1, LAMBDA p : p \in PosSet(cds), LAMBDA p : Min(Par2RelSet(cds, p)) \div 3), "amino-acid-index"),
      Ok(IsVal(ev[12]) /\ PosSet(ev[12][2]) = IntronPos(ex), "introns"),
      Ok(IsVal(ev[13]) /\ PosSet(ev[13][2]) = MinStart(ex)..(MaxEnd(ex) - 1), "span") >>)

(* ["txiv", exons, cds, entries = <<kind, a, b, strand, outcome>>...] : interval forms *)
VTxIv(ev) ==
  LET ex == ev[2] cds == ev[3] IN
  FirstBad([k \in DOMAIN ev[4] |->
    LET en == ev[4][k] kind == en[1] a == en[2] b == en[3] rs == en[4] o == en[5]
        sys == IF kind \in {"t2s", "s2t"} THEN ex ELSE cds IN
    IF IsEmptyLoc(sys) THEN Ok(Rejected(o), "noncoding-rejects-cds-calls")
    ELSE IF kind \in {"t2s", "c2s"} THEN
       IF ~(0 <= a /\ a <= b /\ b <= LenLoc(sys)) THEN Ok(Rejected(o), "interval:rejects-invalid")
       ELSE IF a = b THEN Ok(Rejected(o) \/ EmptyLike(o), "interval:zero-length")
       ELSE IF ~IsVal(o) THEN "interval:returns"
       ELSE Ok(~IsEmptyLoc(o[2]) /\ Bases(o[2]) = SubBases(sys, a, b, rs) /\ St(o[2]) = RelStrand(St(sys), rs), "interval-to-chr")
    ELSE
       LET shared == (a..(b - 1)) \cap PosSet(sys) IN
       IF a > b \/ a < 0 THEN Ok(Rejected(o), "interval:rejects-invalid")
       ELSE IF shared = {} THEN Ok(Rejected(o) \/ EmptyLike(o), "interval:rejects-disjoint")
       ELSE IF ~IsVal(o) THEN "interval:returns"
       ELSE Ok(~IsEmptyLoc(o[2]) /\ St(o[2]) = RelStrand(rs, St(sys))
               /\ [i \in DOMAIN Bases(o[2]) |-> Rel2Par(sys, Bases(o[2])[i])]
                    = SelectSeq(Bases(<< <<<<a, b>>>>, rs >>), LAMBDA p : p \in PosSet(sys)), "chr-interval-to-relative")])

(* ["m1", exons, cds|EMPTY, kind, p, outcome] : one position conversion observed in the repository's own test-suite
   (passive trace; coordinates re-based to the transcript start) *)
VM1(ev) ==
  LET ex == ev[2] cds == ev[3] kind == ev[4] p == ev[5] o == ev[6]
      sys == IF kind \in {"s2t", "t2s"} THEN ex ELSE cds IN
  IF IsEmptyLoc(sys) THEN Ok(Rejected(o), "noncoding-rejects-cds-calls")
  ELSE IF kind \in {"s2t", "s2c"} THEN
     (IF p \in PosSet(sys) THEN Ok(IsVal(o) /\ o[2] = Min(Par2RelSet(sys, p)), "chr-to-relative")
      ELSE Ok(Rejected(o), "chr-to-relative:rejects"))
  ELSE (IF 0 <= p /\ p < LenLoc(sys) THEN Ok(IsVal(o) /\ o[2] = Rel2Par(sys, p), "relative-to-chr")
        ELSE Ok(Rejected(o), "relative-to-chr:rejects"))

(* ["txgap", exons, introns, span] : exons that overlap or nest -- introns are still exactly the span minus the exons *)
VTxGap(ev) ==
  LET ex == ev[2] IN
  IF Rejected(ev[3]) /\ Rejected(ev[4]) THEN "ok"            \* such a transcript may be refused as a whole
  ELSE FirstBad(<<
    Ok(IsVal(ev[3]) /\ PosSet(ev[3][2]) = IntronPos(ex), "introns"),
    Ok(IsVal(ev[4]) /\ PosSet(ev[4][2]) = MinStart(ex)..(MaxEnd(ex) - 1), "span") >>)

(* ["isect", kind ("tx" | "feat"), exons, coding, query location, outcome <<"v", blocks-as-location, isCoding>>] :
   TranscriptInterval / FeatureInterval .intersect(location): the interval restricted to the positions of the other
   location, on the interval's OWN strand (the query's strand is ignored); nothing in common is refused; a transcript's CDS
   is documented to be dropped *)
VIsect(ev) ==
  LET ex == ev[3] q == ev[5] o == ev[6] common == PosSet(ex) \cap PosSet(q) IN
  IF common = {} THEN Ok(Rejected(o), "intersect:disjoint-is-refused")
  ELSE IF ~IsVal(o) THEN "intersect:returns"
  ELSE IF IsEmptyLoc(o[2]) THEN "intersect:nonempty"
  ELSE IF PosSet(o[2]) # common THEN "intersect:positions"
  ELSE IF St(o[2]) # St(ex) THEN "intersect:keeps-own-strand"
  ELSE IF ~WellFormed(o[2], -1) THEN "intersect:wellformed"
  ELSE IF ev[2] = "tx" /\ o[3] THEN "intersect:cds-is-dropped-as-documented"
  ELSE "ok"

(* ["crmap", exons, cds|EMPTY, ws, we, chunkOnMinusStrand, q2t, t2q, q2c, c2q, scalars] : the CHUNK-RELATIVE coordinate
   system of a transcript built on the sequence chunk [ws, we).  By C07 its chunk-relative location is the part of the
   transcript inside the chunk, expressed in chunk coordinates (c(p) = p - ws, or we - 1 - p on a minus-strand chunk,
   which also flips the strand); the chunk-relative conversions are the C01 maps of THAT location:
     q2t[q] chunk_relative_pos_to_transcript(q), q = -1 .. we - ws     t2q[i] transcript_pos_to_chunk_relative(i), i = -1 ..
     q2c / c2q the same for the CDS;   scalars = <<chunk_relative_start, chunk_relative_end, chunk_relative_size,
     chunk_relative_strand, cds_start, cds_end, chunk_relative_cds_start, chunk_relative_cds_end>> (outcomes) *)
ChunkBases(l, ws, we, minus) ==
  LET ins == SelectSeq(Bases(l), LAMBDA p : ws <= p /\ p < we) IN
  [k \in DOMAIN ins |-> IF minus THEN we - 1 - ins[k] ELSE ins[k] - ws]
FlipIf(b, st) == IF b THEN (IF st = "+" THEN "-" ELSE IF st = "-" THEN "+" ELSE st) ELSE st
SeqMin(sq) == Min({sq[k] : k \in DOMAIN sq})
SeqMax(sq) == Max({sq[k] : k \in DOMAIN sq})
PosToRelOK(os, lo, cb) == \A k \in DOMAIN os : LET q == lo + k - 1 o == os[k] IN
     IF \E j \in DOMAIN cb : cb[j] = q THEN IsVal(o) /\ 0 <= o[2] /\ o[2] < Len(cb) /\ cb[o[2] + 1] = q ELSE Rejected(o)
RelToPosOK(os, lo, cb) == \A k \in DOMAIN os : LET i == lo + k - 1 o == os[k] IN
     IF 0 <= i /\ i < Len(cb) THEN IsVal(o) /\ o[2] = cb[i + 1] ELSE Rejected(o)
VCrMap(ev) ==
  LET ex == ev[2] cds == ev[3] ws == ev[4] we == ev[5] minus == ev[6] coding == ~IsEmptyLoc(cds)
      cb == ChunkBases(ex, ws, we, minus) sc == ev[11]
      ccb == IF coding THEN ChunkBases(cds, ws, we, minus) ELSE <<>> IN
  FirstBad(<<
    Ok(PosToRelOK(ev[7], -1, cb), "chunk-to-transcript"),
    Ok(RelToPosOK(ev[8], -1, cb), "transcript-to-chunk"),
    IF ~coding THEN Ok(\A k \in DOMAIN ev[9] : Rejected(ev[9][k]), "noncoding-rejects-cds-calls")
    ELSE Ok(PosToRelOK(ev[9], -1, ccb), "chunk-to-cds"),
    IF ~coding THEN Ok(\A k \in DOMAIN ev[10] : Rejected(ev[10][k]), "noncoding-rejects-cds-calls")
    ELSE Ok(RelToPosOK(ev[10], -1, ccb), "cds-to-chunk"),
    \* nothing of the transcript on the chunk: start / end of an empty location may be refused or be anything empty
    IF cb = <<>> THEN Ok(Rejected(sc[3]) \/ (IsVal(sc[3]) /\ sc[3][2] = 0), "chunk-relative-size")
    ELSE FirstBad(<<
      Ok(IsVal(sc[1]) /\ sc[1][2] = SeqMin(cb) /\ IsVal(sc[2]) /\ sc[2][2] = SeqMax(cb) + 1, "chunk-relative-start-end"),
      Ok(IsVal(sc[3]) /\ sc[3][2] = Len(cb), "chunk-relative-size"),
      Ok(IsVal(sc[4]) /\ sc[4][2] = FlipIf(minus, St(ex)), "chunk-relative-strand") >>),
    \* interval conversions (optional 12th field: <<a, b, relStrand, outcome <<"v", loc>> >>...): the sub-interval [a, b) of the
    \* part on the chunk, as a chunk-relative location -- its bases are that slice (reversed for a minus relative strand)
    IF Len(ev) < 12 THEN "ok" ELSE FirstBad([k \in DOMAIN ev[12] |->
       LET a == ev[12][k][1] b == ev[12][k][2] rs == ev[12][k][3] o == ev[12][k][4] IN
       IF ~(0 <= a /\ a < b /\ b <= Len(cb)) THEN Ok(Rejected(o) \/ (IsVal(o) /\ LenLoc(o[2]) = 0), "transcript-interval-to-chunk:refuses-outside")
       ELSE IF ~IsVal(o) THEN "transcript-interval-to-chunk:returns"
       ELSE LET want == SubSeq(cb, a + 1, b) IN
            Ok(Bases(o[2]) = (IF rs = "-" THEN Reverse(want) ELSE want)
               /\ St(o[2]) = RelStrand(rs, FlipIf(minus, St(ex))), "transcript-interval-to-chunk")]),
    \* the same for sub-intervals of the CODING sequence (optional 13th field), through the transcript's and the CDS's own method
    IF Len(ev) < 13 THEN "ok" ELSE FirstBad([k \in DOMAIN ev[13] |->
       LET a == ev[13][k][1] b == ev[13][k][2] rs == ev[13][k][3] o == ev[13][k][4] IN
       IF ~coding THEN Ok(Rejected(o), "noncoding-rejects-cds-calls")
       ELSE IF ~(0 <= a /\ a < b /\ b <= Len(ccb)) THEN Ok(Rejected(o) \/ (IsVal(o) /\ LenLoc(o[2]) = 0), "cds-interval-to-chunk:refuses-outside")
       ELSE IF ~IsVal(o) THEN "cds-interval-to-chunk:returns"
       ELSE LET want == SubSeq(ccb, a + 1, b) IN
            Ok(Bases(o[2]) = (IF rs = "-" THEN Reverse(want) ELSE want)
               /\ St(o[2]) = RelStrand(rs, FlipIf(minus, St(ex))), "cds-interval-to-chunk")]),
    IF ~coding THEN Ok(Rejected(sc[5]) /\ Rejected(sc[6]) /\ Rejected(sc[7]) /\ Rejected(sc[8]), "noncoding-rejects-cds-calls")
    ELSE FirstBad(<<
      Ok(IsVal(sc[5]) /\ sc[5][2] = MinStart(cds) /\ IsVal(sc[6]) /\ sc[6][2] = MaxEnd(cds), "cds-start-end"),
      IF ccb = <<>> THEN "ok"
      ELSE Ok(IsVal(sc[7]) /\ sc[7][2] = SeqMin(ccb) /\ IsVal(sc[8]) /\ sc[8][2] = SeqMax(ccb) + 1, "chunk-relative-cds-start-end") >>) >>)

(* the block structure of a location on a chunk window [ws, we) (mirrored when the chunk lies on the minus strand): every
   block clipped to the window and mapped, blocks that touch stay separate blocks, ascending *)
RECURSIVE ClipRec(_, _, _, _, _)
ClipRec(bs, k, ws, we, minus) ==
  IF k > Len(bs) THEN <<>>
  ELSE LET s == Max({bs[k][1], ws}) e == Min({bs[k][2], we})
           rest == ClipRec(bs, k + 1, ws, we, minus) IN
       IF s >= e THEN rest
       ELSE IF minus THEN rest \o <<<<we - e, we - s>>>> ELSE <<<<s - ws, e - ws>>>> \o rest
ClipBlocks(l, ws, we, minus) == IF IsEmptyLoc(l) THEN <<>> ELSE ClipRec(SortSeq(l[1], LAMBDA x, y : x[1] < y[1]), 1, ws, we, minus)
BlocksPos(bs) == UNION {bs[k][1]..(bs[k][2] - 1) : k \in DOMAIN bs}
SameBlocks(o, want) == IsVal(o) /\ (IF want = <<>> THEN IsEmptyLoc(o[2]) \/ o[2][1] = <<>>
                                    ELSE ~IsEmptyLoc(o[2]) /\ SortSeq(o[2][1], LAMBDA x, y : x[1] < y[1] \/ (x[1] = y[1] /\ x[2] < y[2])) = want)
GapsPos(bs) == IF bs = <<>> THEN {} ELSE (Min({bs[k][1] : k \in DOMAIN bs})..(Max({bs[k][2] : k \in DOMAIN bs}) - 1)) \ BlocksPos(bs)
(* ["cracc", exons, cds, ws, we, minusChunk, accessors = <<name, outcome>>...] : the derived chunk-relative (and chromosome)
   accessors of a transcript / feature built on a chunk, each against the block structure above *)
VCrAcc(ev) ==
  LET ex == ev[2] cds == ev[3] ws == ev[4] we == ev[5] minus == ev[6] coding == ~IsEmptyLoc(cds)
      eb == ClipBlocks(ex, ws, we, minus) cb == ClipBlocks(cds, ws, we, minus) cst == FlipIf(minus, St(ex)) IN
  FirstBad([k \in DOMAIN ev[7] |->
     LET nm == ev[7][k][1] o == ev[7][k][2] IN
     \* an object with nothing on its chunk may refuse to describe its chunk-relative structure
     IF nm \in {"chunk_relative_blocks", "relative_blocks"} THEN
        Ok(SameBlocks(o, eb) \/ (eb = <<>> /\ Rejected(o)), "accessor:chunk-relative-blocks")
     ELSE IF nm = "num_chunk_relative_blocks" THEN
        Ok((IsVal(o) /\ o[2] = Len(eb)) \/ (eb = <<>> /\ (Rejected(o) \/ (IsVal(o) /\ o[2] \in {0, 1}))), "accessor:num-chunk-relative-blocks")
     ELSE IF nm = "chunk_relative_span" THEN
        Ok(IF eb = <<>> THEN Rejected(o) \/ (IsVal(o) /\ LenLoc(o[2]) = 0)
           ELSE IsVal(o) /\ ~IsEmptyLoc(o[2]) /\ o[2][1] = <<<<eb[1][1], eb[Len(eb)][2]>>>> /\ St(o[2]) = cst, "accessor:chunk-relative-span")
     ELSE IF nm \in {"chunk_relative_gaps_location", "chunk_relative_intron_location"} THEN
        Ok(IF eb = <<>> THEN Rejected(o) \/ (IsVal(o) /\ LenLoc(o[2]) = 0)
           ELSE IsVal(o) /\ (IF GapsPos(eb) = {} THEN LenLoc(o[2]) = 0 ELSE ~IsEmptyLoc(o[2]) /\ PosSet(o[2]) = GapsPos(eb) /\ St(o[2]) = cst),
           "accessor:chunk-relative-gaps")
     ELSE IF nm \in {"chromosome_gaps_location", "chromosome_intron_location"} THEN
        Ok(IsVal(o) /\ (IF GapsPos(SortSeq(ex[1], LAMBDA x, y : x[1] < y[1])) = {} THEN LenLoc(o[2]) = 0
                         ELSE ~IsEmptyLoc(o[2]) /\ PosSet(o[2]) = GapsPos(ex[1]) /\ St(o[2]) = St(ex)), "accessor:chromosome-gaps")
     ELSE IF nm = "cds_location" THEN
        Ok(IF coding THEN IsVal(o) /\ ~IsEmptyLoc(o[2]) /\ PosSet(o[2]) = PosSet(cds) /\ St(o[2]) = St(ex) ELSE Rejected(o), "accessor:cds-location")
     ELSE IF nm \in {"cds_chunk_relative_location", "chunk_relative_cds_blocks"} THEN
        Ok(IF ~coding THEN Rejected(o)
           ELSE IF cb = <<>> THEN Rejected(o) \/ (IsVal(o) /\ (IsEmptyLoc(o[2]) \/ LenLoc(o[2]) = 0))
           ELSE IsVal(o) /\ ~IsEmptyLoc(o[2]) /\ BlocksPos(o[2][1]) = BlocksPos(cb) /\ St(o[2]) = cst, "accessor:cds-on-chunk")
     \* the chunk-relative dictionary form lists the same clipped blocks; it is one export of exons AND coding sequence, so
     \* it may be refused when either has nothing on the chunk
     ELSE IF nm \in {"dict_chunk_exons", "dict_chunk_cds"} THEN
        LET want == IF nm = "dict_chunk_exons" THEN eb ELSE cb IN
        Ok(SameBlocks(o, want) \/ ((eb = <<>> \/ (coding /\ cb = <<>>)) /\ Rejected(o)), "accessor:chunk-relative-dictionary-form")
     ELSE "accessor:unknown"])
(* ["fmap", blocks, ws, we, minusChunk, chunkPosToFeature, featurePosToChunk, seqPosToFeature, featurePosToSeq] : the four point
   maps of a FeatureInterval built on a chunk (the generic twins of the transcript's) *)
VFMap(ev) ==
  LET ex == ev[2] ws == ev[3] we == ev[4] minus == ev[5] cb == ChunkBases(ex, ws, we, minus) IN
  FirstBad(<<
    Ok(PosToRelOK(ev[6], -1, cb), "feature:chunk-to-feature"),
    Ok(RelToPosOK(ev[7], -1, cb), "feature:feature-to-chunk"),
    Ok(PosToRelOK(ev[8], -1, Bases(ex)), "feature:sequence-to-feature"),
    Ok(RelToPosOK(ev[9], -1, Bases(ex)), "feature:feature-to-sequence") >>)
Verdict(ev) == CASE ev[1] = "cracc" -> VCrAcc(ev) [] ev[1] = "fmap" -> VFMap(ev) [] ev[1] = "crmap" -> VCrMap(ev) [] ev[1] = "isect" -> VIsect(ev) [] ev[1] = "txgap" -> VTxGap(ev) [] ev[1] = "txpos" -> VTxPos(ev) [] ev[1] = "m1" -> VM1(ev) [] ev[1] = "tx" -> VTx(ev) [] ev[1] = "txiv" -> VTxIv(ev) [] OTHER -> "unknown-op"
Bad == {i \in DOMAIN Trace : Verdict(Trace[i]) # "ok"}
ASSUME \A i \in Bad : PrintT(<<"BAD", i, Verdict(Trace[i])>>)
ASSUME PrintT(<<"DONE", Len(Trace), Cardinality(Bad)>>)
=============================================================================
