------------------------------ MODULE C10Trace ------------------------------
(* Replay of HistoryMC histories on real objects (direction A), judged by TLC:
   ["hist", kind, history, answerX, typeX, answerTwin, typeTwin, operandsBefore, operandsAfter, equalsTwin]
   answers / snapshots are canonical JSON strings produced by the harness. *)
EXTENDS History, Json, IOUtils, TLC
Trace == ndJsonDeserialize(IOEnv.TRACE_FILE)
VHist(ev) ==
  LET kind == ev[2] h == ev[3] IN
  IF kind \notin Kinds THEN "history:unknown-kind"
  ELSE IF \E i \in DOMAIN h : h[i] \notin Alphabet(kind) THEN "history:not-a-behaviour-of-the-model"
  ELSE IF ev[4] # ev[6] THEN "answer-depends-on-history:value"
  ELSE IF ev[5] # ev[7] THEN "answer-depends-on-history:type"
  ELSE IF ev[8] # ev[9] THEN "operation-changed-its-operand"
  ELSE IF ev[10] # "eq" THEN "equality-or-hash-depends-on-history"
  ELSE "ok"
Verdict(ev) == IF ev[1] = "hist" THEN VHist(ev) ELSE "unknown-op"
Bad == {i \in DOMAIN Trace : Verdict(Trace[i]) # "ok"}
ASSUME \A i \in Bad : PrintT(<<"BAD", i, Verdict(Trace[i])>>)
ASSUME PrintT(<<"DONE", Len(Trace), Cardinality(Bad)>>)
=============================================================================
