------------------------------ MODULE C19Trace ------------------------------
(* Replay of the ValidityMC fault enumeration on the real constructors, and classification of the outcome of every
   public method of valid objects called with in-range and boundary arguments (property C19). *)
EXTENDS Validity, ParentAlg, Json, IOUtils, TLC
Trace == ndJsonDeserialize(IOEnv.TRACE_FILE)
(* ["ctor", class, kind, args, outcome, again] : again = the outcomes of the SAME construction attempted again (right
   away, and once more after an unrelated valid construction): a refusal does not wear off *)
VCtor(ev) ==
  LET cls == ev[2] a == ev[4] o == ev[5] again == IF Len(ev) >= 6 THEN ev[6] ELSE <<>> IN
  IF cls \notin Classes THEN "ctor:unknown-class"
  ELSE IF InternalExc(o) \/ \E i \in DOMAIN again : InternalExc(again[i]) THEN "ctor:internal-error"
  \* the data-model parent of a chunk documents ONE refusal (InvalidInputError); a TypeError out of a helper it called with
  \* a missing bound is not a refusal of the input
  ELSE IF cls = "PMODEL" /\ ~IsVal(o) /\ o[2] # "InvalidInputError" THEN "ctor:internal-error"
  ELSE IF Valid(cls, a) THEN "ok"                                 \* a value or a documented rejection
  ELSE IF IsVal(o) THEN "ctor:built-from-invalid-input"
  ELSE IF \E i \in DOMAIN again : IsVal(again[i]) THEN "ctor:refusal-not-repeatable"
  ELSE "ok"
(* ["call", kind, method, args, outcome] : well-typed in-range / boundary arguments; TypeError is not expected here *)
VCall(ev) ==
  LET o == ev[5] IN
  IF IsVal(o) THEN "ok"
  ELSE IF o[2] \in DocumentedExc \ {"TypeError"} THEN "ok"
  ELSE "call:internal-error"
(* ["result", kind, method, loc] : every location returned by a public method is well-formed *)
VResult(ev) == IF WellFormed(ev[4], -1) THEN "ok" ELSE "call:ill-formed-result"
(* ["parent", args = <<id, stype, strand, loc, seq, par>>, ctorOutcome, strip, resets = <<l2, outcome>>...,
    ancestors = <<type, inclSelf, firstAncestorOutcome, hasAncestorOutcome>>...] : one point of ParentAlg!ArgSpace performed on
   the real Parent class.  Outcomes: <<"x", exception>> | <<"v", projection>>; refused input must be refused with the
   documented exception of the rule that fires, accepted input must have exactly the derived attributes. *)
SameOutcome(o, want) == IF want[1] = "x" THEN o[1] = "x" /\ o[2] = want[2] ELSE o[1] = "v" /\ o[2] = want[2]
VParent(ev) ==
  LET a == ev[2] want == Built(a) o == ev[3] IN
  IF want[1] = "x" THEN
     (IF o[1] = "v" THEN "parent:built-from-inconsistent-arguments"
      ELSE IF InternalExc(o) THEN "parent:internal-error"
      ELSE IF o[2] # want[2] THEN "parent:wrong-exception" ELSE "ok")
  ELSE IF o[1] # "v" THEN "parent:refused-consistent-arguments"
  ELSE IF o[2] # want[2] THEN "parent:derived-attributes"
  ELSE IF ~SameOutcome(ev[4], Strip(a)) THEN "parent:strip-location-info"
  ELSE IF \E k \in DOMAIN ev[5] : ~SameOutcome(ev[5][k][2], Reset(a, ev[5][k][1])) THEN "parent:reset-location"
  ELSE IF \E k \in DOMAIN ev[6] : ~SameOutcome(ev[6][k][3], FirstAncestor(a, ev[6][k][1], ev[6][k][2])) THEN "parent:first-ancestor-of-type"
  ELSE IF \E k \in DOMAIN ev[6] : ~(ev[6][k][4][1] = "v" /\ ev[6][k][4][2] = HasAncestor(a, ev[6][k][1], ev[6][k][2])) THEN "parent:has-ancestor-of-type"
  ELSE "ok"
(* ["pids", own, ofLocationParent, ofSequence, outcome] : identifiers "N" (None), "E" (the empty string), "c", "d" given in the
   three places an id can come from.  Only None means "not given": two different values, the empty string included, are
   inconsistent data (ParentException); otherwise the parent carries the one value given *)
VPids(ev) ==
  LET given == {ev[2], ev[3], ev[4]} \ {"N"} o == ev[5] IN
  IF Cardinality(given) > 1 THEN
     (IF o[1] = "v" THEN "parent:built-from-inconsistent-arguments"
      ELSE IF o[2] # "ParentException" THEN "parent:wrong-exception" ELSE "ok")
  ELSE IF o[1] # "v" THEN "parent:refused-consistent-arguments"
  ELSE IF o[2] # (IF given = {} THEN "N" ELSE CHOOSE g \in given : TRUE) THEN "parent:derived-attributes"
  ELSE "ok"
(* ["parentcert", n] : the replay covered the whole argument space *)
VParentCert(ev) == IF ev[2] = Cardinality(ArgSpace) THEN "ok" ELSE "parent:argument-space-incomplete"

(* ["seqresult", kind, method, nResidues, lengthOfLocationOnParent | -1, locationOnParent] : a sequence returned by a
   public method that records its location on the parent has exactly that many residues, on a well-formed location *)
VSeqResult(ev) == IF ev[5] < 0 THEN "ok"
                  ELSE IF ev[4] # ev[5] \/ ev[5] # LenLoc(ev[6]) THEN "call:ill-formed-result"
                  ELSE IF ~WellFormed(ev[6], -1) THEN "call:ill-formed-result" ELSE "ok"

Verdict(ev) == CASE ev[1] = "seqresult" -> VSeqResult(ev) [] ev[1] = "parent" -> VParent(ev) [] ev[1] = "pids" -> VPids(ev) [] ev[1] = "parentcert" -> VParentCert(ev) [] ev[1] = "ctor" -> VCtor(ev) [] ev[1] = "call" -> VCall(ev) [] ev[1] = "result" -> VResult(ev)
                 [] OTHER -> "unknown-op"
Bad == {i \in DOMAIN Trace : Verdict(Trace[i]) # "ok"}
ASSUME \A i \in Bad : PrintT(<<"BAD", i, Verdict(Trace[i])>>)
ASSUME PrintT(<<"DONE", Len(Trace), Cardinality(Bad)>>)
=============================================================================
