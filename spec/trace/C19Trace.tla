------------------------------ MODULE C19Trace ------------------------------
(* Replay of the ValidityMC fault enumeration on the real constructors, and classification of the outcome of every
   public method of valid objects called with in-range and boundary arguments (property C19). *)
EXTENDS Validity, Json, IOUtils, TLC
Trace == ndJsonDeserialize(IOEnv.TRACE_FILE)
(* ["ctor", class, kind, args, outcome] *)
VCtor(ev) ==
  LET cls == ev[2] a == ev[4] o == ev[5] IN
  IF cls \notin Classes THEN "ctor:unknown-class"
  ELSE IF InternalExc(o) THEN "ctor:internal-error"
  ELSE IF Valid(cls, a) THEN "ok"                                 \* a value or a documented rejection
  ELSE IF IsVal(o) THEN "ctor:built-from-invalid-input"
  ELSE "ok"
(* ["call", kind, method, args, outcome] : well-typed in-range / boundary arguments; TypeError is not expected here *)
VCall(ev) ==
  LET o == ev[5] IN
  IF IsVal(o) THEN "ok"
  ELSE IF o[2] \in DocumentedExc \ {"TypeError"} THEN "ok"
  ELSE "call:internal-error"
(* ["result", kind, method, loc] : every location returned by a public method is well-formed *)
VResult(ev) == IF WellFormed(ev[4], -1) THEN "ok" ELSE "call:ill-formed-result"
Verdict(ev) == CASE ev[1] = "ctor" -> VCtor(ev) [] ev[1] = "call" -> VCall(ev) [] ev[1] = "result" -> VResult(ev)
                 [] OTHER -> "unknown-op"
Bad == {i \in DOMAIN Trace : Verdict(Trace[i]) # "ok"}
ASSUME \A i \in Bad : PrintT(<<"BAD", i, Verdict(Trace[i])>>)
ASSUME PrintT(<<"DONE", Len(Trace), Cardinality(Bad)>>)
=============================================================================
