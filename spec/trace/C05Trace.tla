------------------------------ MODULE C05Trace ------------------------------
(* code -> spec for property C05: codon locations, coding sequence, translation, windows and generated frames of
   real CDSInterval objects judged against the reading-frame walk of CDS.tla. *)
EXTENDS CDS, Json, IOUtils, TLC
Trace == ndJsonDeserialize(IOEnv.TRACE_FILE)
Ok(b, name) == IF b THEN "ok" ELSE name
Soft == {"ok", "codons:selfoverlap-order"}
FirstBad(seq) == IF \E i \in DOMAIN seq : seq[i] \notin Soft
                 THEN seq[CHOOSE i \in DOMAIN seq : seq[i] \notin Soft /\ \A j \in 1..(i - 1) : seq[j] \in Soft]
                 ELSE IF \E i \in DOMAIN seq : seq[i] # "ok" THEN seq[CHOOSE i \in DOMAIN seq : seq[i] # "ok"] ELSE "ok"

(* a list of codon locations equals a list of base triples *)
CodonLocsAre(locs, triples, st) ==
  /\ Len(locs) = Len(triples)
  /\ \A k \in DOMAIN locs : ~IsEmptyLoc(locs[k]) /\ St(locs[k]) = st /\ Bases(locs[k]) = triples[k]

(* ["cds", loc, frames, root, codons, chunkCodons, numCodons, seq, seqAfter, translations, flags] *)
(* staggered layout: starts and ends both strictly increasing (a programmed frameshift, never a nested block) *)
Staggered(l) == \A i \in 1..(NB(l) - 1) : l[1][i][1] < l[1][i + 1][1] /\ l[1][i][2] < l[1][i + 1][2]
SimpleFrames(cds) == cds[2] = ConstructFrames(cds[1], Frames5(cds)[1]) /\ BLen(Exons5(cds)[1]) > Frames5(cds)[1]
(* self-overlapping (programmed frameshift) layouts are outside the stated quantifier; they are judged unwindowed,
   with start frame 0 and uninterrupted frames only *)
Claimed(cds) == ~SelfOverlap(cds[1]) \/ (Staggered(cds[1]) /\ SimpleFrames(cds) /\ Frames5(cds)[1] = 0)
VCds(ev) ==
  LET cds == <<ev[2], ev[3]>> root == ev[4] st == St(ev[2]) n == NumCodons(cds)
      cod == ev[5] seq == CodingSeq(cds, root) cs == CodonSeqs(seq) IN
  IF ~Claimed(cds) THEN "ok"
  ELSE IF n = 0 THEN
     \* no complete codon: an empty answer or a documented rejection
     FirstBad(<< Ok(Rejected(cod) \/ (IsVal(cod) /\ cod[2] = <<>>), "codons:none-expected"),
                 Ok(Rejected(ev[8]) \/ (IsVal(ev[8]) /\ ev[8][2] = <<>>), "sequence:none-expected"),
                 Ok(Rejected(ev[7]) \/ (IsVal(ev[7]) /\ ev[7][2] = 0), "num-codons:none-expected") >>)
  ELSE IF ~IsVal(cod) THEN (IF Rejected(cod) THEN "codons:returns" ELSE "codons:internal-error")
  ELSE FirstBad(<<
    IF CodonLocsAre(cod[2], Codons(cds), st) THEN "ok"
    ELSE IF SelfOverlap(cds[1]) /\ Len(cod[2]) = n /\ \A k \in 1..n : ~IsEmptyLoc(cod[2][k]) /\ St(cod[2][k]) = st
            /\ \A p \in 0..20 : Cardinality({i \in 1..3 : Bases(cod[2][k])[i] = p}) = Cardinality({i \in 1..3 : CodonBases(cds, k)[i] = p})
         THEN "codons:selfoverlap-order" ELSE "codons",
    Ok(SelfOverlap(cds[1]) \/ (IsVal(ev[6]) /\ CodonLocsAre(ev[6][2], Codons(cds), st)), "chunk-codons"),
    Ok(IsVal(ev[7]) /\ ev[7][2] = n, "num-codons"),
    Ok(IsVal(ev[8]) /\ ev[8][2] = seq, "cds-is-concat"),
    Ok(IsVal(ev[8]) /\ Len(ev[8][2]) % 3 = 0, "len-mod-3"),
    \* (asked of an object whose codons were listed first: the sequence is then the concatenation of the codon
    \* locations' own sequences, and on a layout whose blocks overlap those are re-sorted -- the keyed order finding,
    \* recognised only when every codon still has its own three residues)
    IF IsVal(ev[9]) /\ ev[9][2] = seq THEN "ok"
    ELSE IF SelfOverlap(cds[1]) /\ IsVal(ev[9]) /\ Len(ev[9][2]) = Len(seq)
            /\ \A k \in 1..(Len(seq) \div 3) : \A ch \in {seq[i] : i \in (3 * k - 2)..(3 * k)} :
                  Cardinality({i \in (3 * k - 2)..(3 * k) : ev[9][2][i] = ch}) = Cardinality({i \in (3 * k - 2)..(3 * k) : seq[i] = ch})
         THEN "codons:selfoverlap-order" ELSE "sequence-after-codons",
    FirstBad([k \in DOMAIN ev[10] |->
       LET tr == ev[10][k] truncate == tr[1] table == tr[2] strict == tr[3] o == tr[4]
           m == TranslatedCount(cs, truncate) IN
       IF \E i \in 1..m : AAOptions(cs[i], i, table, strict) = {} /\ \A h \in 1..(i - 1) : TRUE
       THEN Ok(Rejected(o), "protein:strict-rejects")
       ELSE IF ~IsVal(o) THEN "protein:returns"
       ELSE IF Len(o[2]) # m THEN "protein:length"
       ELSE IF \E i \in 1..m : i = 1 /\ o[2][1] # "M" /\ IsStrictCodon(cs[1]) /\ cs[1] \in StartCodons(table) THEN "start-rule"
       ELSE Ok(\A i \in 1..m : o[2][i] \in AAOptions(cs[i], i, table, strict), "protein")]),
    \* flags = <<has_valid_stop, has_in_frame_stop, has_canonical_start_codon, start(0), start(1), start(11)>>
    Ok(IsVal(ev[11][1]) /\ ev[11][1][2] = IsStop(cs[n]), "has-valid-stop"),
    Ok(IF \A i \in 1..n : IsStrictCodon(cs[i]) \/ (i = 1 /\ FALSE)
       THEN IsVal(ev[11][2]) /\ ev[11][2][2] = (\E i \in 1..(n - 1) : IsStop(cs[i]))
       ELSE Rejected(ev[11][2]) \/ IsVal(ev[11][2]), "has-in-frame-stop"),
    Ok(IsVal(ev[11][3]) /\ ev[11][3][2] = (cs[1] = <<"A", "T", "G">>), "canonical-start"),
    Ok(\A t \in 1..3 : LET table == <<0, 1, 11>>[t] IN
         IsVal(ev[11][3 + t]) /\ ev[11][3 + t][2] = (IsStrictCodon(cs[1]) /\ cs[1] \in StartCodons(table)), "start-in-table")
  >>)

(* ["win", loc, frames, entries = <<ws, we, expand, outcome>>...] : scan_chromosome_codon_locations(ws, we, expand) *)
IsSubSeqAt(small, big, off) == \A i \in DOMAIN small : small[i] = big[off + i]
ContiguousSub(small, big) == \E off \in 0..(Len(big) - Len(small)) : IsSubSeqAt(small, big, off)
TriplesOf(locs) == [k \in DOMAIN locs |-> Bases(locs[k])]
VWin(ev) ==
  LET cds == <<ev[2], ev[3]>> st == St(ev[2]) simple == SimpleFrames(cds) /\ Frames5(cds)[1] = 0 IN
  IF SelfOverlap(cds[1]) THEN "ok" ELSE
  FirstBad([k \in DOMAIN ev[4] |->
     LET en == ev[4][k] ws == en[1] we == en[2] o == en[4]
         inside == WindowCodons(cds, ws, we) touching == OverlapCodons(cds, ws, we) IN
     IF ~en[3] THEN
        \* plain window: exactly the codons that lie completely inside it
        IF inside = <<>> THEN Ok(Rejected(o) \/ (IsVal(o) /\ o[2] = <<>>), "window:none-expected")
        ELSE IF ~IsVal(o) THEN "window:returns"
        ELSE Ok(CodonLocsAre(o[2], inside, st), "window")
     ELSE IF simple THEN
        \* expanded window on a frame-0 uninterrupted CDS: exactly the codons that touch it
        IF touching = <<>> THEN Ok(Rejected(o) \/ (IsVal(o) /\ o[2] = <<>>), "window-expand:none-expected")
        ELSE IF ~IsVal(o) THEN "window-expand:returns"
        ELSE Ok(CodonLocsAre(o[2], touching, st), "window-expand")
     ELSE
        \* with a start offset or frameshifts the documentation does not say how the window is expanded: the answer
        \* must still be true codons of this CDS, all of them touching the window, none inside it missing
        IF Rejected(o) THEN "ok"
        ELSE IF ~IsVal(o) THEN "window-expand:internal-error"
        ELSE Ok(/\ \A k2 \in DOMAIN o[2] : ~IsEmptyLoc(o[2][k2]) /\ St(o[2][k2]) = st
                /\ ContiguousSub(TriplesOf(o[2]), touching)
                /\ (o[2] = <<>> \/ \A c \in Range(inside) : c \in Range(TriplesOf(o[2]))) , "window-expand:true-codons")])

(* ["cf", loc, f0, outcome frames] : construct_frames_from_location *)
VCf(ev) ==
  LET l == ev[2] f0 == ev[3] o == ev[4] first == ScanOrder(l)[1] IN
  IF BLen(first) <= f0 /\ NB(l) > 1 THEN "ok"              \* offset swallows the first exon: not claimed
  ELSE IF SelfOverlap(l) /\ ~Staggered(l) THEN "ok"
  ELSE IF ~IsVal(o) THEN "frames:returns"
  ELSE IF Len(o[2]) # NB(l) THEN "frames:length"
  ELSE Ok(LenLoc(l) <= f0 \/ Uninterrupted(l, o[2], f0), "frames-uninterrupted")

(* ["tr1", loc, frames, root, truncate, table, strict, outcome] : one translate() call observed in the repository's own
   test-suite (passive trace; coordinates re-based to the CDS start) *)
VTr1(ev) ==
  LET cds == <<ev[2], ev[3]>> root == ev[4] n == NumCodons(cds) o == ev[8]
      seq == CodingSeq(cds, root) cs == CodonSeqs(seq) m == TranslatedCount(cs, ev[5]) IN
  IF ~Claimed(cds) THEN "ok"
  ELSE IF n = 0 THEN Ok(Rejected(o) \/ (IsVal(o) /\ o[2] = <<>>), "protein:none-expected")
  ELSE IF \E i \in 1..m : AAOptions(cs[i], i, ev[6], ev[7]) = {} THEN Ok(Rejected(o), "protein:strict-rejects")
  ELSE IF ~IsVal(o) THEN "protein:returns"
  ELSE IF Len(o[2]) # m THEN "protein:length"
  ELSE Ok(\A i \in 1..m : o[2][i] \in AAOptions(cs[i], i, ev[6], ev[7]), "protein")

(* ["fsh", frame, n, outcome of shift(n), outcome of shift(n).shift(-n)] : the running frame after n more (n < 0: fewer)
   bases, and walking back *)
VFsh(ev) == FirstBad(<<Ok(IsVal(ev[4]) /\ ev[4][2] = (ev[2] + ev[3]) % 3, "frame-shift"),
                       Ok(IsVal(ev[5]) /\ ev[5][2] = ev[2], "frame-shift-undone")>>)

Verdict(ev) == CASE ev[1] = "fsh" -> VFsh(ev) [] ev[1] = "tr1" -> VTr1(ev) [] ev[1] = "cds" -> VCds(ev) [] ev[1] = "win" -> VWin(ev) [] ev[1] = "cf" -> VCf(ev)
                 [] OTHER -> "unknown-op"
Bad == {i \in DOMAIN Trace : Verdict(Trace[i]) # "ok"}
ASSUME \A i \in Bad : PrintT(<<"BAD", i, Verdict(Trace[i])>>)
ASSUME PrintT(<<"DONE", Len(Trace), Cardinality(Bad)>>)
=============================================================================
