------------------------------ MODULE C07Trace ------------------------------
(* code -> spec for property C07: an interval built on a sequence chunk [ws, we) against its chromosome-built twin and
   against the restriction of the chromosome view to the chunk (CDS.tla / Lift.tla). *)
EXTENDS CDS, Lift, Json, IOUtils, TLC
Trace == ndJsonDeserialize(IOEnv.TRACE_FILE)
Ok(b, name) == IF b THEN "ok" ELSE name
Soft == {"ok", "chunk:utr-accessors-on-cut-transcript", "chunk-codons:single-exon-offset", "aggregate-identifier:from-chunk-location",
         "chunk:from-chunk-relative-location-refuses-touching-blocks"}
FirstBad(seq) == IF \E i \in DOMAIN seq : seq[i] \notin Soft
                 THEN seq[CHOOSE i \in DOMAIN seq : seq[i] \notin Soft /\ \A j \in 1..(i - 1) : seq[j] \in Soft]
                 ELSE IF \E i \in DOMAIN seq : seq[i] # "ok" THEN seq[CHOOSE i \in DOMAIN seq : seq[i] # "ok"] ELSE "ok"
CodonLocsAre(locs, triples, st) ==
  /\ Len(locs) = Len(triples)
  /\ \A k \in DOMAIN locs : ~IsEmptyLoc(locs[k]) /\ St(locs[k]) = st /\ Bases(locs[k]) = triples[k]
ToFrame(phase) == (3 - phase) % 3
FlatCodons(cs) == FlattenSeq(cs)

RECURSIVE MergeTouchingBlocks(_)
MergeTouchingBlocks(bs) ==
  IF Len(bs) <= 1 THEN bs
  ELSE IF bs[1][2] = bs[2][1] THEN MergeTouchingBlocks(<<<<bs[1][1], bs[2][2]>>>> \o SubSeq(bs, 3, Len(bs)))
  ELSE <<bs[1]>> \o MergeTouchingBlocks(Tail(bs))
(* ["twin", exons, cds|EMPTY, frames, R, ws, we, route, ctor,
    sameDict, sameGuid, chromLoc, chunkLocBack, spliced,
    numCodons, chromCodons, chunkCodonsBack, numChunkCodons, cdsSeq, protein, chunkFrames, chunkOnMinus, sizes] *)
VTwin(ev) ==
  LET ex == ev[2] cdsl == ev[3] fr == ev[4] R == ev[5] ws == ev[6] we == ev[7] st == St(ex)
      inside == InWindowBases(ex, ws, we) coding == ~IsEmptyLoc(cdsl) IN
  \* named deviation (keyed known finding): from_chunk_relative_location lifts the chunk-relative location back to the
  \* chromosome, the lift merges TOUCHING blocks, and the rebuilt CDS then has fewer blocks than frames -> refused
  IF ~IsVal(ev[9]) /\ ev[8] = "from-chunk-relative" /\ ev[9][2] = "InvalidCDSIntervalError" /\ coding
       /\ (\E i \in 1..(NB(cdsl) - 1) : cdsl[1][i][2] = cdsl[1][i + 1][1])
  THEN "chunk:from-chunk-relative-location-refuses-touching-blocks"
  \* ... and touching EXON blocks come back merged (same bases and strand, another block structure, hence another
  \* dictionary form and identifier): exactly the merged structure is the known deviation, anything else is judged
  ELSE IF IsVal(ev[9]) /\ ev[8] = "from-chunk-relative" /\ (\E i \in 1..(NB(ex) - 1) : ex[1][i][2] = ex[1][i + 1][1])
          /\ IsVal(ev[12]) /\ ev[12][2] = <<MergeTouchingBlocks(ex[1]), st>>
  THEN "chunk:from-chunk-relative-location-refuses-touching-blocks"
  ELSE IF ~IsVal(ev[9]) THEN "chunk:constructs"
  ELSE FirstBad(<<
    Ok(ev[10] = TRUE, "same-dictionary-form"),
    Ok(ev[11] = TRUE, "same-identifier"),
    Ok(IsVal(ev[12]) /\ ev[12][2] = ex, "same-chromosome-blocks"),
    \* the chunk-relative location lifts back to exactly the part inside the chunk; nothing inside = empty, not an error
    IF inside = <<>> THEN Ok(IsVal(ev[13]) /\ IsEmptyLoc(ev[13][2]), "outside-chunk-is-empty")
    ELSE Ok(IsVal(ev[13]) /\ ~IsEmptyLoc(ev[13][2]) /\ Bases(ev[13][2]) = inside /\ St(ev[13][2]) = st, "chunk-location-lifts-back"),
    IF inside = <<>> THEN Ok(Rejected(ev[14]) \/ (IsVal(ev[14]) /\ ev[14][2] = <<>>), "outside-chunk-sequence")
    ELSE Ok(IsVal(ev[14]) /\ ev[14][2] = CharsOf(inside, st = "-", R), "chunk-sequence-is-substring"),
    \* optional field 23 = <<len, chunk_relative_size>> (\o <<cds_size, chunk_relative_cds_size>> for a transcript): the
    \* chromosome-level sizes do not shrink, the chunk-relative ones count the bases (of the CDS) lying on the chunk
    IF Len(ev) < 23 THEN "ok"
    ELSE LET sz == ev[23]
             cb == IF coding THEN Bases(cdsl) ELSE <<>> IN
         Ok(IsVal(sz) /\ sz[2][1] = Len(Bases(ex)) /\ sz[2][2] = Len(inside)
            /\ (Len(sz[2]) = 2 \/ (sz[2][3] = Len(cb)
                                   /\ sz[2][4] = Len(SelectSeq(cb, LAMBDA p : ws <= p /\ p < we)))), "sizes"),
    \* optional field 24 = <<5' UTR, 3' UTR>> of a coding transcript built on the chunk, as bases 5'->3' on the chromosome:
    \* the transcript's bases before / after its CDS that lie on the chunk.  Claimed where the chunk holds the whole
    \* transcript; where the chunk CUTS the transcript the accessors index the chunk-relative location with
    \* whole-transcript positions (keyed known finding) and any answer other than the restriction is filed there
    IF Len(ev) < 24 \/ ~coding THEN "ok"
    ELSE LET txb == Bases(ex) cb == Bases(cdsl)
             k == (CHOOSE i \in DOMAIN txb : txb[i] = cb[1]) - 1
             j == CHOOSE i \in DOMAIN txb : txb[i] = cb[Len(cb)]
             inw(sq) == SelectSeq(sq, LAMBDA p : ws <= p /\ p < we)
             want5 == inw(SubSeq(txb, 1, k)) want3 == inw(SubSeq(txb, j + 1, Len(txb)))
             good == IsVal(ev[24][1]) /\ ev[24][1][2] = want5 /\ IsVal(ev[24][2]) /\ ev[24][2][2] = want3 IN
         IF SelfOverlap(ex) \/ good THEN "ok"
         ELSE IF inside = txb THEN "utr-on-chunk" ELSE "chunk:utr-accessors-on-cut-transcript",
    IF ~coding THEN "ok" ELSE
    LET cds == <<cdsl, fr>> n == NumCodons(cds) want == WindowCodons(cds, ws, we)
        allb == Bases(cdsl) insb == SelectSeq(allb, LAMBDA p : ws <= p /\ p < we)
        cut5 == IF insb = <<>> THEN 0 ELSE (CHOOSE i \in DOMAIN allb : allb[i] = insb[1]) - 1
        unreduced == NB(cdsl) = 1 /\ Frames5(cds)[1] + ToFrame(cut5 % 3) >= 3
        codingChars == CharsOf(FlatCodons(want), st = "-", R) IN
    FirstBad(<<
      IF n = 0 THEN Ok(Rejected(ev[15]) \/ (IsVal(ev[15]) /\ ev[15][2] = 0), "num-codons-unchanged")
      ELSE Ok(IsVal(ev[15]) /\ ev[15][2] = n, "num-codons-unchanged"),
      IF n = 0 THEN Ok(Rejected(ev[16]) \/ (IsVal(ev[16]) /\ ev[16][2] = <<>>), "chromosome-codons-unchanged")
      ELSE Ok(IsVal(ev[16]) /\ CodonLocsAre(ev[16][2], Codons(cds), st), "chromosome-codons-unchanged"),
      \* chunk-relative codons = the whole-chromosome codons lying fully inside the chunk
      \* named deviation (keyed known finding cds:single-exon-chunk-offset): with the offset not reduced modulo 3 the scan
      \* starts one codon late -- the code answers with the expected codons WITHOUT THE FIRST one; only that answer is
      \* filed under the finding
      IF want = <<>> THEN
         (IF Rejected(ev[17]) \/ (IsVal(ev[17]) /\ ev[17][2] = <<>>) THEN "ok" ELSE "chunk-codons:none-expected")
      ELSE IF IsVal(ev[17]) /\ CodonLocsAre(ev[17][2], want, st) THEN "ok"
      ELSE IF unreduced /\ ((Len(want) = 1 /\ (Rejected(ev[17]) \/ (IsVal(ev[17]) /\ ev[17][2] = <<>>)))
                            \/ (IsVal(ev[17]) /\ CodonLocsAre(ev[17][2], Tail(want), st)))
           THEN "chunk-codons:single-exon-offset"
      ELSE "chunk-codons",
      IF want = <<>> THEN
         (IF Rejected(ev[18]) \/ (IsVal(ev[18]) /\ ev[18][2] = 0) THEN "ok"
          ELSE IF insb = <<>> THEN "num-chunk-codons:cds-outside-chunk" ELSE "num-chunk-codons")
      ELSE IF IsVal(ev[18]) /\ ev[18][2] = Len(want) THEN "ok"
      ELSE IF unreduced /\ ((IsVal(ev[18]) /\ ev[18][2] = Len(want) - 1) \/ (Len(want) = 1 /\ Rejected(ev[18])))
           THEN "chunk-codons:single-exon-offset" ELSE "num-chunk-codons",
      IF want = <<>> THEN
         (IF Rejected(ev[19]) \/ (IsVal(ev[19]) /\ ev[19][2] = <<>>) THEN "ok" ELSE "chunk-cds-sequence:none-expected")
      ELSE IF IsVal(ev[19]) /\ ev[19][2] = codingChars THEN "ok"
      ELSE IF unreduced /\ ((IsVal(ev[19]) /\ ev[19][2] = CharsOf(FlatCodons(Tail(want)), st = "-", R))
                            \/ (Len(want) = 1 /\ Rejected(ev[19])))
           THEN "chunk-codons:single-exon-offset" ELSE "chunk-cds-sequence",
      \* chunk-relative frames (optional fields 21, 22 = outcome, chunkOnMinusStrand): one frame per CDS block that has a
      \* base on the chunk, in block order; with frames that follow from the block lengths (what is generated here) the
      \* frame of a block is fixed by the position, within the whole CDS, of its 5'-most base ON THE CHUNK:
      \* however many exons the chunk skips
      IF Len(ev) < 22 \/ ev[22] \/ SelfOverlap(cdsl) \/ insb = <<>> THEN "ok"
      ELSE LET f0 == Frames5(cds)[1]
               onChunk(j) == {p \in cdsl[1][j][1]..(cdsl[1][j][2] - 1) : ws <= p /\ p < we}
               lead(j) == IF st = "-" THEN Max(onChunk(j)) ELSE Min(onChunk(j))
               idx(p) == (CHOOSE i \in DOMAIN allb : allb[i] = p) - 1
               blocksOn == SelectSeq([j \in 1..NB(cdsl) |-> j], LAMBDA j : onChunk(j) # {})
               \* position within its codon of a base: (index - f0) mod 3.  An internal block carries that position of its
               \* leading base; the 5'-most block on the chunk carries the number of bases to SKIP, (3 - position) mod 3
               \* (the library's two readings of "frame", as in construct_frames_from_location)
               pos(p) == (idx(p) + 3 - f0) % 3
               first5 == IF st = "-" THEN blocksOn[Len(blocksOn)] ELSE blocksOn[1]
               wantF == [k \in DOMAIN blocksOn |-> IF blocksOn[k] = first5 THEN (3 - pos(lead(blocksOn[k]))) % 3
                                                    ELSE pos(lead(blocksOn[k]))] IN
           Ok(IsVal(ev[21]) /\ ev[21][2] = wantF, "chunk-relative-frames")
    >>)
  >>)
(* ["agg", kind, route, ctor, ws, we, exons (of the longest child), R,
    sameDict, sameGuid, <<start, end>>, chunkLocBack, referenceSequence, sameDictButOwnGuid, chunkOnMinusStrand] : a gene / feature collection / annotation
   collection built on the chunk against its whole-chromosome twin.  Its span is that of the longest child. *)
VAgg(ev) ==
  LET ws == ev[5] we == ev[6] ex == ev[7] R == ev[8] lo == MinStart(ex) hi == MaxEnd(ex)
      ilo == IF ws > lo THEN ws ELSE lo ihi == IF we < hi THEN we ELSE hi IN
  IF ~IsVal(ev[4]) THEN "chunk:constructs"
  ELSE FirstBad(<<
    \* the aggregate classes digest their CHUNK-RELATIVE location into their own identifier (keyed known finding): the
    \* soft clause applies only when the chunk really moves or cuts that location and nothing else differs
    IF ev[9] = TRUE THEN "ok"
    ELSE IF ev[14] = TRUE /\ (ws > 0 \/ we < hi \/ ev[15]) THEN "aggregate-identifier:from-chunk-location" ELSE "same-dictionary-form",
    IF ev[10] = TRUE THEN "ok"
    ELSE IF ev[14] = TRUE /\ (ws > 0 \/ we < hi \/ ev[15]) THEN "aggregate-identifier:from-chunk-location" ELSE "same-identifier",
    Ok(IsVal(ev[11]) /\ ev[11][2] = <<lo, hi>>, "same-chromosome-blocks"),
    IF ilo >= ihi THEN Ok(IsVal(ev[12]) /\ IsEmptyLoc(ev[12][2]), "outside-chunk-is-empty")
    ELSE Ok(IsVal(ev[12]) /\ ~IsEmptyLoc(ev[12][2]) /\ PosSet(ev[12][2]) = ilo..(ihi - 1), "chunk-location-lifts-back"),
    IF ilo >= ihi THEN Ok(Rejected(ev[13]) \/ (IsVal(ev[13]) /\ ev[13][2] = <<>>), "outside-chunk-sequence")
    ELSE Ok(IsVal(ev[13]) /\ ev[13][2] = SubSeq(R, ilo + 1, ihi), "chunk-sequence-is-substring") >>)

(* ["cwin", cds, frames, ws, we, windows = <<a, b, outcome (codon locations lifted back to the chromosome)>>...] : windowed
   codon scans of a CDS built on the chunk [ws, we); a window that holds no complete codon may be refused *)
VCWin(ev) ==
  LET cdsl == ev[2] cds == <<ev[2], ev[3]>> ws == ev[4] we == ev[5] st == St(cdsl) IN
  FirstBad([k \in DOMAIN ev[6] |->
     LET a == ev[6][k][1] b == ev[6][k][2] o == ev[6][k][3]
         want == WindowCodons(cds, IF a > ws THEN a ELSE ws, IF b < we THEN b ELSE we) IN
     IF want = <<>> THEN Ok(Rejected(o) \/ (IsVal(o) /\ o[2] = <<>>), "chunk-window-codons:none-expected")
     ELSE Ok(IsVal(o) /\ CodonLocsAre(o[2], want, st), "chunk-window-codons")])
Verdict(ev) == CASE ev[1] = "cwin" -> VCWin(ev) [] ev[1] = "twin" -> VTwin(ev) [] ev[1] = "agg" -> VAgg(ev) [] OTHER -> "unknown-op"
Bad == {i \in DOMAIN Trace : Verdict(Trace[i]) # "ok"}
ASSUME \A i \in Bad : PrintT(<<"BAD", i, Verdict(Trace[i])>>)
ASSUME PrintT(<<"DONE", Len(Trace), Cardinality(Bad)>>)
=============================================================================
