------------------------------ MODULE C02Trace ------------------------------
(* code -> spec for the set algebra of Location (property C02): every recorded binary / unary call of the real
   library is judged against position-set semantics (the Sem layer of Loc), the documented flag and parent rules, and the
   structural well-formedness of every returned location.
   A location-valued outcome is <<"v", loc, parentId, optimisedLoc>> (optimisedLoc = result.optimize_blocks()). *)
EXTENDS Loc, Json, IOUtils, TLC
Trace == ndJsonDeserialize(IOEnv.TRACE_FILE)

Ok(b, name) == IF b THEN "ok" ELSE name
FirstBad(seq) == IF \E i \in DOMAIN seq : seq[i] # "ok"
                 THEN seq[CHOOSE i \in DOMAIN seq : seq[i] # "ok" /\ \A j \in 1..(i - 1) : seq[j] = "ok"] ELSE "ok"
HasParent(p) == p[1] # "" \/ Len(p) >= 3      \* a parent without an id (third field: its kind) is a parent too
(* coverage multiplicity of every parent position *)
Cover(l, p) == Cardinality({i \in DOMAIN l[1] : p \in BlockPos(l[1][i])})
NoSelfOv(a, b) == ~SelfOverlap(a) /\ ~SelfOverlap(b)

(* structural clauses shared by every location-valued result; pa = parent descriptor the result must carry *)
Struct(o, pa, name) ==
  LET r == o[2] opt == o[4] IN
  IF ~WellFormed(r, pa[2]) THEN name \o ":wellformed"
  ELSE IF ~IsEmptyLoc(r) /\ o[3] # pa[1] THEN name \o ":parent-preserved"
  \* normal form after optimisation; with deliberately preserved self-overlapping blocks only emptiness is claimed
  ELSE IF ~(WellFormed(opt, pa[2]) /\ PosSet(opt) = PosSet(r)
            /\ (IF SelfOverlap(opt) THEN \A i \in DOMAIN opt[1] : opt[1][i][1] < opt[1][i][2] ELSE Optimised(opt)))
       THEN name \o ":optimised-form"
  ELSE "ok"

Flag(k, bit) == (k \div bit) % 2 = 1            \* k in 0..7: bit 1 = match_strand, 2 = full_span, 4 = strict parent

(* one flagged result: <<k, outcome>> *)
VOverlap(a, b, pa, pb, en) ==
  LET k == en[1] o == en[2] IN
  IF Flag(k, 4) /\ pa # pb THEN Ok(Rejected(o), "overlap:strict-parent-rejects")
  ELSE Ok(IsVal(o) /\ o[2] = SemOverlap(a, b, pa, pb, Flag(k, 1), Flag(k, 2)), "overlap:value")
VIntersect(a, b, pa, pb, en) ==
  LET k == en[1] o == en[2] IN
  IF Flag(k, 4) /\ pa # pb THEN Ok(Rejected(o), "intersection:strict-parent-rejects")
  ELSE IF ~IsVal(o) THEN "intersection:returns"
  ELSE LET want == SemIntersectPos(a, b, pa, pb, Flag(k, 1), Flag(k, 2)) IN
       IF PosSet(o[2]) # want THEN "intersection:positions"
       ELSE IF ~IsEmptyLoc(o[2]) /\ St(o[2]) # St(a) THEN "intersection:strand"
       ELSE IF want = {} /\ ~IsEmptyLoc(o[2]) THEN "intersection:empty-is-EmptyLocation"
       ELSE Struct(o, pa, "intersection")
VMinus(a, b, pa, pb, en) ==
  LET k == en[1] o == en[2] IN
  IF Flag(k, 4) /\ pa # pb THEN Ok(Rejected(o), "minus:strict-parent-rejects")
  ELSE IF ~NoSelfOv(a, b) THEN Ok(Rejected(o) \/ IsVal(o), "minus:outcome")       \* not claimed with self-overlap
  ELSE IF ~IsVal(o) THEN "minus:returns"
  ELSE LET want == SemMinusPos(a, b, pa, pb, Flag(k, 1)) IN
       IF PosSet(o[2]) # want THEN "minus:positions"
       ELSE IF ~IsEmptyLoc(o[2]) /\ St(o[2]) # St(a) THEN "minus:strand"
       ELSE Struct(o, pa, "minus")
VContains(a, b, pa, pb, en) ==
  LET k == en[1] o == en[2] IN
  IF Flag(k, 4) /\ pa # pb THEN Ok(Rejected(o), "contains:strict-parent-rejects")
  ELSE IF ~NoSelfOv(a, b) THEN Ok(Rejected(o) \/ IsVal(o), "contains:outcome")
  ELSE Ok(IsVal(o) /\ o[2] = SemContains(a, b, pa, pb, Flag(k, 1), Flag(k, 2)), "contains:value")

VUnion(a, b, pa, pb, o) ==
  IF St(a) # St(b) THEN Ok(Rejected(o), "union:strand-mismatch-rejects")
  ELSE IF HasParent(pa) /\ pa # pb THEN Ok(Rejected(o), "union:parent-mismatch-rejects")
  ELSE IF pa # pb /\ Rejected(o) THEN "ok"            \* receiver without parent: the operand's parent check may fire
  ELSE IF SemUnionPos(a, b) = {} THEN Ok(Rejected(o) \/ (IsVal(o) /\ PosSet(o[2]) = {}), "union:empty")
  ELSE IF ~IsVal(o) THEN "union:returns"
  ELSE IF PosSet(o[2]) # SemUnionPos(a, b) THEN "union:positions"
  ELSE IF St(o[2]) # St(a) THEN "union:strand"
  ELSE Struct(o, pa, "union")
VUnionPreserve(a, b, pa, pb, o) ==
  IF St(a) # St(b) THEN Ok(Rejected(o), "union-preserve:strand-mismatch-rejects")
  ELSE IF HasParent(pa) /\ pa # pb THEN Ok(Rejected(o), "union-preserve:parent-mismatch-rejects")
  ELSE IF pa # pb /\ Rejected(o) THEN "ok"
  ELSE IF SemUnionPos(a, b) = {} THEN Ok(Rejected(o) \/ (IsVal(o) /\ PosSet(o[2]) = {}), "union-preserve:empty")
  ELSE IF ~IsVal(o) THEN "union-preserve:returns"
  ELSE IF ~(\A p \in SemUnionPos(a, b) \cup PosSet(o[2]) : Cover(o[2], p) = Cover(a, p) + Cover(b, p))
       THEN "union-preserve:multiplicity"
  ELSE IF St(o[2]) # St(a) THEN "union-preserve:strand"
  ELSE Struct(o, pa, "union-preserve")
DistKinds == <<"INNER", "OUTER", "STARTS", "ENDS">>
VDistance(a, b, pa, pb, os) ==
  FirstBad([k \in 1..4 |->
     IF pa # pb THEN Ok(Rejected(os[k]), "distance:parent-mismatch-rejects")
     ELSE Ok(IsVal(os[k]) /\ os[k][2] = SemDistance(a, b, DistKinds[k]), "distance:" \o DistKinds[k])])

(* ["pair", a, b, pa, pb, overlaps, intersections, minuses, contains, union, unionPreserve, distances] *)
VPair(ev) ==
  LET a == ev[2] b == ev[3] pa == ev[4] pb == ev[5] IN
  FirstBad(
    [k \in DOMAIN ev[6] |-> VOverlap(a, b, pa, pb, ev[6][k])] \o
    [k \in DOMAIN ev[7] |-> VIntersect(a, b, pa, pb, ev[7][k])] \o
    [k \in DOMAIN ev[8] |-> VMinus(a, b, pa, pb, ev[8][k])] \o
    [k \in DOMAIN ev[9] |-> VContains(a, b, pa, pb, ev[9][k])] \o
    << VUnion(a, b, pa, pb, ev[10]), VUnionPreserve(a, b, pa, pb, ev[11]), VDistance(a, b, pa, pb, ev[12]) >>)

(* ---- EmptyLocation identities: ["empty", b, pb, intersection(E,b), intersection(b,E), minus(E,b), minus(b,E),
        overlap(E,b), overlap(b,E), union(E,b), E.extend, E.shift] *)
VEmpty(ev) ==
  LET b == ev[2] IN
  FirstBad(<<
    Ok(IsVal(ev[4]) /\ IsEmptyLoc(ev[4][2]), "empty:intersection-left"),
    Ok(Rejected(ev[5]) \/ (IsVal(ev[5]) /\ PosSet(ev[5][2]) = {}), "empty:intersection-right"),
    Ok(IsVal(ev[6]) /\ IsEmptyLoc(ev[6][2]), "empty:minus-left"),
    Ok(Rejected(ev[7]) \/ (IsVal(ev[7]) /\ PosSet(ev[7][2]) = PosSet(b)), "empty:minus-right"),
    Ok(IsVal(ev[8]) /\ ev[8][2] = FALSE, "empty:overlap-left"),
    Ok(IsVal(ev[9]) /\ ev[9][2] = FALSE, "empty:overlap-right"),
    Ok(Rejected(ev[10]), "empty:union-rejects"), Ok(Rejected(ev[11]), "empty:extend-rejects"),
    Ok(Rejected(ev[12]), "empty:shift-rejects") >>)

(* ---- unary operations: ["un", a, pa, gaps, opt, optc, merge, rev, revStrand, resets, shifts, extAbs, extRel]
   resets = <<strand, outcome>>..., shifts = <<d, outcome>>..., extAbs/extRel = <<x, y, outcome>>... *)
InBounds(S, pa) == \A p \in S : p >= 0 /\ (pa[2] < 0 \/ p < pa[2])
VShiftEn(a, pa, en) ==
  LET d == en[1] o == en[2] want == PosSet(ShiftLoc(a, d))
      fits == (\A i \in DOMAIN a[1] : a[1][i][1] + d >= 0) /\ (pa[2] < 0 \/ MaxEnd(a) + d <= pa[2]) IN
  IF ~fits THEN Ok(Rejected(o), "shift:out-of-bounds-rejects")
  ELSE IF ~IsVal(o) THEN "shift:returns"
  ELSE IF PosSet(o[2]) # want \/ LenLoc(o[2]) # LenLoc(a) THEN "shift:positions"
  ELSE IF St(o[2]) # St(a) THEN "shift:strand" ELSE Struct(o, pa, "shift")
VExtAbs(a, pa, x, y, o, name) ==
  IF x < 0 \/ y < 0 THEN Ok(Rejected(o), name \o ":negative-rejects")
  ELSE IF ~(MinStart(a) - x >= 0 /\ (pa[2] < 0 \/ MaxEnd(a) + y <= pa[2])) THEN Ok(Rejected(o), name \o ":out-of-bounds-rejects")
  ELSE IF PosSet(a) = {} /\ NB(a) > 1 THEN Ok(Rejected(o) \/ IsVal(o), name \o ":outcome")
  ELSE IF ~IsVal(o) THEN name \o ":returns"
  ELSE IF PosSet(o[2]) # SemExtendAbsPos(a, x, y) THEN name \o ":positions"
  ELSE IF ~IsEmptyLoc(o[2]) /\ St(o[2]) # St(a) THEN name \o ":strand" ELSE Struct(o, pa, name)
VUn(ev) ==
  LET a == ev[2] pa == ev[3] IN
  FirstBad(<<
    \* gaps
    IF PosSet(a) = {} THEN Ok(Rejected(ev[4]) \/ (IsVal(ev[4]) /\ PosSet(ev[4][2]) = {}), "gaps:empty")
    ELSE IF ~Directional(St(a)) /\ Rejected(ev[4]) THEN "ok"        \* gap order needs a direction
    ELSE IF ~IsVal(ev[4]) THEN "gaps:returns"
    ELSE IF PosSet(ev[4][2]) # SemGapsPos(a) THEN "gaps:positions"
    ELSE IF ~IsEmptyLoc(ev[4][2]) /\ St(ev[4][2]) # St(a) THEN "gaps:strand" ELSE Struct(ev[4], pa, "gaps"),
    \* optimize_blocks: same coverage multiplicity, no empty / adjacent blocks
    IF ~IsVal(ev[5]) THEN "optimize:returns"
    ELSE IF ~(\A p \in PosSet(a) \cup PosSet(ev[5][2]) : Cover(ev[5][2], p) = Cover(a, p)) THEN "optimize:positions"
    ELSE IF ~Optimised(ev[5][2]) THEN "optimize:normal-form"
    ELSE IF ~IsEmptyLoc(ev[5][2]) /\ St(ev[5][2]) # St(a) THEN "optimize:strand" ELSE Struct(ev[5], pa, "optimize"),
    \* optimize_and_combine_blocks
    IF ~IsVal(ev[6]) THEN "combine:returns"
    ELSE IF PosSet(ev[6][2]) # PosSet(a) THEN "combine:positions"
    ELSE IF ~CombinedNF(ev[6][2]) THEN "combine:normal-form"
    ELSE IF ~IsEmptyLoc(ev[6][2]) /\ St(ev[6][2]) # St(a) THEN "combine:strand" ELSE Struct(ev[6], pa, "combine"),
    \* merge_overlapping
    IF PosSet(a) = {} THEN "ok"
    ELSE IF ~IsVal(ev[7]) THEN "merge:returns"
    ELSE IF PosSet(ev[7][2]) # PosSet(a) THEN "merge:positions"
    ELSE IF SelfOverlap(ev[7][2]) THEN "merge:still-overlapping"
    ELSE IF St(ev[7][2]) # St(a) THEN "merge:strand" ELSE Struct(ev[7], pa, "merge"),
    \* reverse (reflection inside the span, strand flipped)
    IF ~IsVal(ev[8]) THEN "reverse:returns"
    ELSE IF PosSet(ev[8][2]) # SemReversePos(a) \/ LenLoc(ev[8][2]) # LenLoc(a) THEN "reverse:positions"
    ELSE IF St(ev[8][2]) # RevStrand(St(a)) THEN "reverse:strand" ELSE Struct(ev[8], pa, "reverse"),
    \* reverse_strand
    IF ~IsVal(ev[9]) THEN "reverse-strand:returns"
    ELSE IF ~(\A p \in PosSet(a) \cup PosSet(ev[9][2]) : Cover(ev[9][2], p) = Cover(a, p)) THEN "reverse-strand:positions"
    ELSE IF St(ev[9][2]) # RevStrand(St(a)) THEN "reverse-strand:strand" ELSE Struct(ev[9], pa, "reverse-strand"),
    FirstBad([k \in DOMAIN ev[10] |-> LET o == ev[10][k][2] IN
        IF ~IsVal(o) THEN "reset-strand:returns"
        ELSE IF ~(\A p \in PosSet(a) \cup PosSet(o[2]) : Cover(o[2], p) = Cover(a, p)) THEN "reset-strand:positions"
        ELSE IF St(o[2]) # ev[10][k][1] THEN "reset-strand:strand" ELSE Struct(o, pa, "reset-strand")]),
    FirstBad([k \in DOMAIN ev[11] |-> VShiftEn(a, pa, ev[11][k])]),
    FirstBad([k \in DOMAIN ev[12] |-> VExtAbs(a, pa, ev[12][k][1], ev[12][k][2], ev[12][k][3], "extend-absolute")]),
    FirstBad([k \in DOMAIN ev[13] |->
        IF ~Directional(St(a)) THEN Ok(Rejected(ev[13][k][3]), "extend-relative:unstranded-rejects")
        ELSE IF St(a) = "+" THEN VExtAbs(a, pa, ev[13][k][1], ev[13][k][2], ev[13][k][3], "extend-relative")
        ELSE VExtAbs(a, pa, ev[13][k][2], ev[13][k][1], ev[13][k][3], "extend-relative")])
  >>)

(* ["cert", G, K, locs] *)
VCert(ev) == Ok({ev[4][i] : i \in DOMAIN ev[4]} = LocsGK(ev[2], ev[3]) /\ Len(ev[4]) = Cardinality(LocsGK(ev[2], ev[3])),
                "input-space-complete")
(* ["certpairs", nLocs, nPairEvents] : the pair shard set covers the full square *)
(* a single binary call recorded passively from the repository's own tests:
   ["bin1", name, a, b, pa, pb, k, outcome] *)
VBin1(ev) ==
  LET a == ev[3] b == ev[4] pa == ev[5] pb == ev[6] en == <<ev[7], ev[8]>> IN
  CASE ev[2] = "overlap" -> VOverlap(a, b, pa, pb, en) [] ev[2] = "intersection" -> VIntersect(a, b, pa, pb, en)
    [] ev[2] = "minus" -> VMinus(a, b, pa, pb, en) [] ev[2] = "contains" -> VContains(a, b, pa, pb, en)
    [] ev[2] = "union" -> VUnion(a, b, pa, pb, ev[8]) [] OTHER -> "unknown-binary-op"
(* one unary call (a step of a calculator behaviour replayed on real objects): ["un1", name, a, pa, outcome] *)
VUn1(ev) ==
  LET a == ev[3] pa == ev[4] o == ev[5] IN
  IF ev[2] = "gaps" THEN
     (IF PosSet(a) = {} THEN Ok(Rejected(o) \/ (IsVal(o) /\ PosSet(o[2]) = {}), "gaps:empty")
      ELSE IF ~Directional(St(a)) /\ Rejected(o) THEN "ok"
      ELSE IF ~IsVal(o) THEN "gaps:returns"
      ELSE IF PosSet(o[2]) # SemGapsPos(a) THEN "gaps:positions"
      ELSE IF ~IsEmptyLoc(o[2]) /\ St(o[2]) # St(a) THEN "gaps:strand" ELSE Struct(o, pa, "gaps"))
  ELSE IF ev[2] = "opt" THEN
     (IF ~IsVal(o) THEN "optimize:returns"
      ELSE IF ~(\A p \in PosSet(a) \cup PosSet(o[2]) : Cover(o[2], p) = Cover(a, p)) THEN "optimize:positions"
      ELSE IF ~Optimised(o[2]) THEN "optimize:normal-form"
      ELSE IF ~IsEmptyLoc(o[2]) /\ St(o[2]) # St(a) THEN "optimize:strand" ELSE Struct(o, pa, "optimize"))
  ELSE IF ev[2] = "optc" THEN
     (IF ~IsVal(o) THEN "combine:returns"
      ELSE IF PosSet(o[2]) # PosSet(a) THEN "combine:positions"
      ELSE IF ~CombinedNF(o[2]) THEN "combine:normal-form"
      ELSE IF ~IsEmptyLoc(o[2]) /\ St(o[2]) # St(a) THEN "combine:strand" ELSE Struct(o, pa, "combine"))
  ELSE "unknown-unary-op"

(* a sub-interval step inside a replayed calculator behaviour: ["sub1", a, x, y, rs, outcome <<"v", loc, "*">>].
   Its meaning is property C01 (judged there, exhaustively); here only closure: what it returns is a well-formed
   location on the right strand, so that the next set operation of the behaviour starts from a legal operand. *)
VSub1(ev) ==
  LET a == ev[2] o == ev[6] IN
  IF ~IsVal(o) THEN Ok(Rejected(o), "sub:internal-error")
  ELSE IF ~WellFormed(o[2], -1) THEN "sub:wellformed"
  ELSE Ok(IsEmptyLoc(o[2]) \/ St(o[2]) = RelStrand(ev[5], St(a)), "sub:strand")

Verdict(ev) == CASE ev[1] = "sub1" -> VSub1(ev) [] ev[1] = "un1" -> VUn1(ev) [] ev[1] = "bin1" -> VBin1(ev) [] ev[1] = "pair" -> VPair(ev) [] ev[1] = "un" -> VUn(ev) [] ev[1] = "empty" -> VEmpty(ev)
                 [] ev[1] = "cert" -> VCert(ev) [] OTHER -> "unknown-op"
Bad == {i \in DOMAIN Trace : Verdict(Trace[i]) # "ok"}
ASSUME \A i \in Bad : PrintT(<<"BAD", i, Verdict(Trace[i])>>)
ASSUME PrintT(<<"DONE", Len(Trace), Cardinality(Bad)>>)
=============================================================================
