------------------------------ MODULE C09Trace ------------------------------
(* code -> spec for property C09: every query of a real AnnotationCollection, with the projected collection before
   and after, judged against Collection.tla.  Projection: <<start, end, members, hasSequence>>, member =
   <<id, kind, s, e, coding, children = <<cid, cs, ce>>..., identifiers>>. *)
EXTENDS Collection, Json, IOUtils
Trace == ndJsonDeserialize(IOEnv.TRACE_FILE)
Ok(b, name) == IF b THEN "ok" ELSE name
FirstBad(seq) == IF \E i \in DOMAIN seq : seq[i] # "ok"
                 THEN seq[CHOOSE i \in DOMAIN seq : seq[i] # "ok" /\ \A j \in 1..(i - 1) : seq[j] = "ok"] ELSE "ok"
SetOf(s) == {s[i] : i \in DOMAIN s}
(* member record of the spec from the projected member *)
Mem(pm) == <<pm[1], pm[2], pm[3], pm[4], pm[5], SetOf(pm[6])>>
Coll(pc) == <<pc[1], pc[2], {Mem(pc[3][i]) : i \in DOMAIN pc[3]}>>
Idents(pc, id) == SetOf(pc[3][CHOOSE i \in DOMAIN pc[3] : pc[3][i][1] = id][7])
IsVal(o) == o[1] = "v"
Rejected(o) == o[1] = "x" /\ o[2] \in {"InvalidQueryError", "InvalidAnnotationError", "ValueError", "NoSuchAncestorException",
                                        "InvalidPositionException", "LocationOverlapException", "EmptyLocationException"}

(* ["q", pre, op, args, outcome <<"v", post>>, childrenUnchanged (bool), seqChecks = <<memberId, lo, hi, chars>>..., R] *)
VQ(ev) ==
  LET pre == ev[2] c == Coll(ev[2]) op == ev[3] ar == ev[4] o == ev[5] IN
  IF op = "pos" THEN
     LET qs == ar[1] qe == ar[2] co == ar[3] cw == ar[4] ex == ar[5]
         b == SemPositionBounds(c, qs, qe, co, cw, ex) IN
     IF ~ValidRange(c, qs, qe) THEN Ok(Rejected(o), "position:rejects-invalid-range")
     ELSE IF pre[4] /\ (b[1] < c[1] \/ b[2] > c[2]) THEN Ok(Rejected(o), "position:rejects-expansion-beyond-sequence")
     ELSE IF ~IsVal(o) THEN (IF co /\ \E m \in c[3] : MKind(m) = "variant" THEN "position:coding-filter-total" ELSE "position:returns")
     ELSE LET post == Coll(o[2]) IN FirstBad(<<
        Ok({MId(m) : m \in post[3]} = {MId(m) : m \in SemPositionMembers(c, qs, qe, co, cw)}, "position:members"),
        Ok(post[1] = b[1] /\ post[2] = b[2], "position:bounds"),
        Ok(post[3] \subseteq c[3], "members-keep-coordinates-and-identifiers"),
        \* member by member, not identifier by identifier: two members that share an identifier are both in the answer
        Ok(post[3] = SemPositionMembers(c, qs, qe, co, cw), "position:members"),
        Ok(ev[6], "children-unchanged") >>)
  ELSE IF op = "guids" THEN
     IF ~IsVal(o) THEN "guids:returns"
     ELSE LET post == Coll(o[2]) kept == SemByGuids(c, SetOf(ar)) b == SemIdBounds(c, kept) IN FirstBad(<<
        Ok(post[3] = kept, "guids:members"), Ok(post[1] = b[1] /\ post[2] = b[2], "guids:bounds"), Ok(ev[6], "children-unchanged") >>)
  ELSE IF op \in {"iguids", "txguids", "featguids"} THEN
     IF ~IsVal(o) THEN "interval-guids:returns"
     ELSE LET post == Coll(o[2])
              kinds == IF op = "iguids" THEN {"gene", "feature", "variant"} ELSE IF op = "txguids" THEN {"gene"} ELSE {"feature"}
              kept == SemByIntervalGuids(c, SetOf(ar), kinds) b == SemIdBounds(c, kept) IN FirstBad(<<
        Ok({MId(m) : m \in post[3]} = {MId(m) : m \in kept}, "interval-guids:members"),
        Ok(\A m \in post[3] : \E k \in kept : MId(k) = MId(m) /\ MChildren(k) = MChildren(m), "interval-guids:children-filtered"),
        Ok(\A m \in post[3] : \E k \in kept : MId(k) = MId(m) /\ MS(k) = MS(m) /\ ME(k) = ME(m), "interval-guids:span"),
        Ok(post[1] = b[1] /\ post[2] = b[2], "interval-guids:bounds"),
        \* a member that is answered with fewer children is still the same member: every identifier it had (id, symbol,
        \* locus tag ...) is the one it has in the answer
        Ok(\A i \in DOMAIN o[2][3] : \E j \in DOMAIN pre[3] : pre[3][j][1] = o[2][3][i][1] /\ SetOf(pre[3][j][7]) = SetOf(o[2][3][i][7]),
           "interval-guids:identifiers-kept") >>)
  ELSE IF op = "idents" THEN
     IF ~IsVal(o) THEN "identifiers:returns"
     ELSE LET post == Coll(o[2]) kept == {m \in c[3] : Idents(pre, MId(m)) \cap SetOf(ar) # {}} b == SemIdBounds(c, kept) IN FirstBad(<<
        Ok(post[3] = kept, "identifiers:members"), Ok(post[1] = b[1] /\ post[2] = b[2], "identifiers:bounds") >>)
  ELSE "unknown-query"

(* sequence of every member of a result = the chromosome sequence of its span clipped to the new bounds *)
VSeq(ev) ==
  LET R == ev[8] IN
  IF \A k \in DOMAIN ev[7] : LET sc == ev[7][k] IN
        IF sc[2] >= sc[3] THEN TRUE ELSE (sc[4][1] = "v" /\ sc[4][2] = SubSeq(R, sc[2] + 1, sc[3]))
  THEN "ok" ELSE "member-sequence-is-source-restricted"
(* identifier-type query on a collection with sequence whose answer would have to reach beyond the sequence chunk *)
IdOp(op) == op \in {"guids", "iguids", "txguids", "featguids", "idents"}
WidensBeyondChunk(ev) ==
  LET pre == ev[2] c == Coll(ev[2]) IN
  IdOp(ev[3]) /\ pre[4] /\ \E m \in c[3] : MS(m) < c[1] \/ ME(m) > c[2]
(* "precisely the matching members": no member is returned twice *)
VDistinct(ev) == LET mem == ev[5][2][3] IN
  \* (two members may share an identifier -- the halves of a gene split by interval-GUID queries do -- but then they differ
  \* in span or children)
  Ok(\A i, j \in DOMAIN mem : i # j => (mem[i][1] # mem[j][1] \/ <<mem[i][3], mem[i][4], mem[i][6]>> # <<mem[j][3], mem[j][4], mem[j][6]>>),
     "result-members-distinct")
Raw(ev) == IF VQ(ev) # "ok" THEN VQ(ev) ELSE IF ev[5][1] = "v" THEN (IF VDistinct(ev) # "ok" THEN VDistinct(ev) ELSE VSeq(ev)) ELSE "ok"
Verdict(ev) == IF ev[1] # "q" THEN "unknown-op"
               \* the known finding is about the RANGE of such an answer (bounds widened past the chunk, sequences that can
               \* no longer be restricted, or NullSequenceException): wrong members are never filed under it
               \* (the BOUNDS of such an answer are the members' own, as everywhere: never excused -- all excused events of the
               \* current tree are sequences that cannot be restricted)
               ELSE IF Raw(ev) \in {"guids:returns", "interval-guids:returns", "identifiers:returns",
                                    "member-sequence-is-source-restricted"}
                       /\ WidensBeyondChunk(ev) /\ (ev[5][1] = "v" \/ ev[5][2] = "NullSequenceException")
                    THEN "id-query:widens-beyond-sequence-chunk" ELSE Raw(ev)
Bad == {i \in DOMAIN Trace : Verdict(Trace[i]) # "ok"}
ASSUME \A i \in Bad : PrintT(<<"BAD", i, Verdict(Trace[i])>>)
ASSUME PrintT(<<"DONE", Len(Trace), Cardinality(Bad)>>)
=============================================================================
