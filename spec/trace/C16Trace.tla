------------------------------ MODULE C16Trace ------------------------------
(* code -> spec for util/bins.py at full scale (17,3,5).  All verdicts come from the Sem layer of Bins:
   containment, minimality (keyed boundary family), out-of-range rule, and no-hiding between the observed
   single bins and the observed bin sets. *)
EXTENDS Bins, Json, IOUtils, TLC, Sequences
Trace == ndJsonDeserialize(IOEnv.TRACE_FILE)
F == 17
N == 3
L == 5
M == MaxSize(F, N, L)
SetOf(seq) == {seq[i] : i \in DOMAIN seq}
ValidBin(b) == 1 <= b /\ b < Offset(N, L, 1) + Pow(2, N * (L - 1))
Lo(b) == LET i == LevelOf(N, L, b) IN BinLo(F, N, L, i, b - Offset(N, L, i))
Hi(b) == LET i == LevelOf(N, L, b) IN BinHi(F, N, L, i, b - Offset(N, L, i))

(* ["bin", start, stop, off, result]   off = 0 'bed' half-open [start, stop); off = 1 'gff' closed [start, stop] *)
VBin(ev) ==
  LET s == ev[2] - ev[4]  e == ev[3]  b == ev[5] IN
  IF ev[2] < 0 \/ ev[3] < 0 \/ ev[2] >= M \/ ev[3] >= M THEN (IF b = 1 THEN "ok" ELSE "out-of-range-is-bin-1")
  ELSE IF ~ValidBin(b) THEN "bin-id-valid"
  ELSE IF s < 0 \/ s >= e THEN "ok"                      \* empty / degenerate interval: any standard bin
  ELSE IF ~(Lo(b) <= s /\ e <= Hi(b)) THEN "bin-contains"
  \* named deviation (keyed known finding bins:end-on-bin-boundary): the code shifts the exclusive end as it is
  \* (Bins!AlgoBin, StopNotDecremented); only the bin THAT arithmetic yields is filed under the finding
  ELSE IF b # SemBin(F, N, L, s, e) THEN
       (IF b = AlgoBin(F, N, L, ev[2], ev[3], ev[4]) THEN "bin-smallest" ELSE "bin-is-neither-the-smallest-nor-the-known-deviation")
  ELSE "ok"

(* ["set", start, stop, off, sortedList] : must contain bin 1 and every standard bin whose range meets the query *)
SemSet(s, e) == {1} \cup UNION { LET sh == LevelShift(F, N, i) IN
                                 {Offset(N, L, i) + k : k \in Shr(s, sh)..Shr(e - 1, sh)} : i \in Levels(L) }
VSet(ev) ==
  LET s == ev[2] - ev[4]  e == ev[3]  S == SetOf(ev[5]) IN
  IF ev[2] < 0 \/ ev[3] < 0 \/ ev[2] >= M \/ ev[3] >= M THEN (IF 1 \in S THEN "ok" ELSE "out-of-range-is-bin-1")
  ELSE IF ~(\A b \in S : ValidBin(b)) THEN "bin-id-valid"
  ELSE IF s < 0 \/ s >= e THEN "ok"
  ELSE IF ~(SemSet(s, e) \subseteq S) THEN "set-covers-overlapping-bins"
  ELSE "ok"

(* ["hide", qs, qe, sortedSet, items = <<s, e, bin>>...]  (bed): every item meeting the query is found *)
VHide(ev) ==
  LET S == SetOf(ev[4]) IN
  IF \A j \in DOMAIN ev[5] :
        LET it == ev[5][j] IN
        (it[1] < it[2] /\ (Overlaps(it[1], it[2], ev[2], ev[3]) \/ Within(it[1], it[2], ev[2], ev[3]))) => it[3] \in S
  THEN "ok" ELSE "no-hiding"

(* ["rq", qs, qe, completelyWithin, items = <<s, e>>..., returned = indices (1-based, ascending)] :
   a range query on a real AnnotationCollection whose genes have the given spans (bin pre-filter live) *)
VRq(ev) ==
  LET want == {j \in DOMAIN ev[5] : IF ev[4] THEN Within(ev[5][j][1], ev[5][j][2], ev[2], ev[3])
                                              ELSE Overlaps(ev[5][j][1], ev[5][j][2], ev[2], ev[3])} IN
  IF SetOf(ev[6]) = want THEN "ok" ELSE IF ~(want \subseteq SetOf(ev[6])) THEN "range-query-hides-member"
  ELSE "range-query-extra-member"

Verdict(ev) == CASE ev[1] = "bin" -> VBin(ev) [] ev[1] = "rq" -> VRq(ev) [] ev[1] = "set" -> VSet(ev) [] ev[1] = "hide" -> VHide(ev)
                 [] OTHER -> "unknown-op"
Bad == {i \in DOMAIN Trace : Verdict(Trace[i]) # "ok"}
ASSUME \A i \in Bad : PrintT(<<"BAD", i, Verdict(Trace[i])>>)
ASSUME PrintT(<<"DONE", Len(Trace), Cardinality(Bad)>>)
=============================================================================
