------------------------------ MODULE C08Trace ------------------------------
(* Replay of SerialMC behaviours on the real classes (direction A) and hash-seed / insertion-order sweeps, judged
   against the conversion graph and its invariants. *)
EXTENDS Serial, Json, IOUtils, FiniteSets, TLC
Trace == ndJsonDeserialize(IOEnv.TRACE_FILE)
Ok(b, name) == IF b THEN "ok" ELSE name
FirstBad(seq) == IF \E i \in DOMAIN seq : seq[i] # "ok"
                 THEN seq[CHOOSE i \in DOMAIN seq : seq[i] # "ok" /\ \A j \in 1..(i - 1) : seq[j] = "ok"] ELSE "ok"
(* ["path", kind, steps = <<action, status, contentSame, guidSame, equalToOriginal(, deviation)>>...]
   status: "ok" | exception class name.  contentSame / guidSame compare with the state BEFORE the step.
   Named deviation "agg-guid-from-other-chunk" (keyed known finding, soft: it never masks a later clause of the same
   route): a Rebuild of a query-result collection on a sequence chunk recomputes the identifiers of its genes /
   feature collections / variant collections from their location relative to THIS chunk, while the query had handed
   them on with the identifiers computed on the source collection's chunk; the harness attaches the tag only when
   nothing but aggregate-level identifiers differ and each differing one is literally an identifier of the source. *)
Deviates(st) == Len(st) >= 6 /\ st[1] = "Rebuild" /\ st[6] = "agg-guid-from-other-chunk"
RECURSIVE Walk(_, _, _)
Walk(steps, k, f) ==
  IF k > Len(steps) THEN "ok"
  ELSE LET st == steps[k] a == st[1] IN
       IF a \notin Actions THEN "route:unknown-action"
       ELSE IF Edges[a][1] # f THEN "route:not-a-behaviour-of-the-model"
       ELSE IF st[2] # "ok" THEN a \o ":fails"
       ELSE IF a = "Perturb" THEN (IF st[4] THEN "perturb:identifier-unchanged" ELSE Walk(steps, k + 1, Edges[a][2]))
       ELSE IF ~st[3] THEN a \o ":content-changed"
       ELSE IF ~st[4] /\ Deviates(st)
            THEN (LET rest == Walk(steps, k + 1, Edges[a][2]) IN
                  IF rest = "ok" THEN "Rebuild:aggregate-identifier-inherited-from-other-chunk" ELSE rest)
       ELSE IF ~st[4] THEN a \o ":identifier-changed"
       ELSE IF Edges[a][2] = "OBJ" /\ ~st[5] THEN a \o ":object-not-equal"
       ELSE Walk(steps, k + 1, Edges[a][2])
VPath(ev) == Walk(ev[3], 1, "OBJ")
(* ["rebuild", objectId, guids] : one identifier per content class, over hash seeds and insertion orders *)
VRebuild(ev) == Ok(Cardinality({ev[3][i] : i \in DOMAIN ev[3]}) = 1, "identifier-depends-on-seed-or-order")
(* ["neighbours", objectId, baseGuid, perturbedGuids] : changing a coordinate, strand or frame changes the identifier *)
VNeighbours(ev) == Ok(\A i \in DOMAIN ev[4] : ev[4][i] # ev[3], "perturb:identifier-unchanged")
Verdict(ev) == CASE ev[1] = "path" -> VPath(ev) [] ev[1] = "rebuild" -> VRebuild(ev) [] ev[1] = "neighbours" -> VNeighbours(ev)
                 [] OTHER -> "unknown-op"
Bad == {i \in DOMAIN Trace : Verdict(Trace[i]) # "ok"}
ASSUME \A i \in Bad : PrintT(<<"BAD", i, Verdict(Trace[i])>>)
ASSUME PrintT(<<"DONE", Len(Trace), Cardinality(Bad)>>)
=============================================================================
