------------------------------ MODULE C15Trace ------------------------------
(* Batch validation of the library's complete tables against Tables (code -> spec).
   One event per table entry / function value; TLC judges every entry and certifies that the recorded
   domains are the complete finite domains of the property. *)
EXTENDS Tables, Json, IOUtils, TLC
Trace == ndJsonDeserialize(IOEnv.TRACE_FILE)

SetOf(seq) == {seq[i] : i \in DOMAIN seq}
IsStrict(c) == \A i \in 1..3 : c[i] \in Base
Ok(b, name) == IF b THEN "ok" ELSE name
First(seq) == IF \E i \in DOMAIN seq : seq[i] # "ok"
              THEN seq[CHOOSE i \in DOMAIN seq : seq[i] # "ok" /\ \A j \in 1..(i-1) : seq[j] = "ok"] ELSE "ok"

(* ["codon", c(3 letters), strictAA, looseAA, isStop, isStrict, isCanonStart, [start0,start1,start11],
    syn(list of codons, include_self=False), synSelf(list)] *)
VCodon(ev) ==
  LET c == ev[2] strict == IsStrict(c) IN
  First(<<
    Ok(ev[3] = (IF strict THEN Code(c) ELSE "X"), "strict-translation"),
    Ok(IF strict THEN ev[4] = Code(c) ELSE (ev[4] = "X" \/ MayTranslate(c, ev[4])), "ambiguous-translation"),
    Ok(ev[5] = (strict /\ c \in StopCodons), "stop-set"),
    Ok(ev[6] = strict, "strict-flag"),
    Ok(ev[7] = (c = <<"A","T","G">>), "canonical-start"),
    Ok(ev[8][1] = (strict /\ c \in StartCodons(0)) /\ ev[8][2] = (strict /\ c \in StartCodons(1))
       /\ ev[8][3] = (strict /\ c \in StartCodons(11)), "start-set"),
    Ok(IF ev[4] = "X" THEN ev[9] = <<>> ELSE
         (Len(ev[9]) = Cardinality(SetOf(ev[9])) /\ SetOf(ev[9]) = Synonyms(ev[4]) \ {c}), "synonymous"),
    Ok(IF ev[4] = "X" THEN ev[10] = <<c>> ELSE
         (Len(ev[10]) = Cardinality(SetOf(ev[10])) /\ SetOf(ev[10]) = Synonyms(ev[4])), "synonymous-self")
  >>)

(* ["gencode", c, aa] / ["ext", c, aa] / ["aacodons", aa, list] *)
VGencode(ev) == Ok(IsStrict(ev[2]) /\ ev[3] = Code(ev[2]), "gencode-table")
VExt(ev) == Ok(MayTranslate(ev[2], ev[3]), "extended-table")
VAaCodons(ev) == Ok(Len(ev[3]) = Cardinality(SetOf(ev[3])) /\ SetOf(ev[3]) = Synonyms(ev[2]), "aacodons-partition")
(* ["starts", table, list] *)
VStarts(ev) == Ok(SetOf(ev[3]) = StartCodons(ev[2]), "start-table")

(* ["comp", alphabet, letter, tableValue, viaReverseComplement] *)
VComp(ev) == First(<< Ok(ev[3] \in AllCases(AlphabetLetters(ev[2])), "letter-in-alphabet"),
                      Ok(ev[4] = Comp(ev[3]), "complement-table"),
                      Ok(ev[5] = Comp(ev[3]), "reverse-complement") >>)
(* ["complen", alphabet, nLettersInTable] : the table covers every letter in both cases *)
VCompLen(ev) == Ok(ev[3] = Cardinality(AllCases(AlphabetLetters(ev[2]))), "complement-table-complete")

(* ["shift", f, n, result]  ["f2p", f, p]  ["p2f", p, f]  ["fint", i, f]*)
VShift(ev) == Ok(ev[4] = ShiftFrame(ev[2], ev[3]), "frame-shift")
VF2P(ev) == Ok(ev[3] = FrameToPhase(ev[2]), "frame-to-phase")
VP2F(ev) == Ok(ev[3] = PhaseToFrame(ev[2]), "phase-to-frame")

(* ["srev", s, r] ["srel", a, b, r] ["ssym", s, int, symOf, fromSym, fromInt] *)
VSRev(ev) == Ok(ev[3] = RevStrand(ev[2]), "strand-reverse")
VSRel(ev) == Ok(ev[4] = RelStrand(ev[2], ev[3]), "strand-compose")
VSSym(ev) == Ok(ev[3] = StrandInt(ev[2]) /\ ev[4] = ev[2] /\ ev[5] = ev[2] /\ ev[6] = ev[2], "strand-roundtrip")

(* ["sord", a, b, a<b, a>b, a<=b, a>=b, a=b, a#b, min, max, sorted, sameHash] : the comparison operators of the strand
   enumeration describe one total order, and min / max / sorted agree with it *)
VSOrd(ev) ==
  LET a == ev[2] b == ev[3] lt == ev[4] gt == ev[5] le == ev[6] ge == ev[7] eq == ev[8] ne == ev[9] IN
  IF eq # (a = b) \/ ne # ~eq THEN "strand-order:equality"
  ELSE IF eq /\ ~ev[13] THEN "strand-order:equal-strands-hash-alike"
  ELSE IF (IF lt THEN 1 ELSE 0) + (IF gt THEN 1 ELSE 0) + (IF eq THEN 1 ELSE 0) # 1 THEN "strand-order:trichotomy"
  ELSE IF le # (lt \/ eq) \/ ge # (gt \/ eq) THEN "strand-order:operators-agree"
  ELSE IF ev[10] # (IF lt \/ eq THEN a ELSE b) \/ ev[11] # (IF gt \/ eq THEN a ELSE b) THEN "strand-order:min-max"
  ELSE IF ev[12] # (IF lt \/ eq THEN <<a, b>> ELSE <<b, a>>) THEN "strand-order:sorted"
  ELSE "ok"
(* ["biotype", a, b, sameValue] *)
VBiotype(ev) == Ok(ev[4] = SameBiotype(ev[2], ev[3]), "biotype-synonyms")

(* ["isnt", alphabet, is_nucleotide_alphabet(), outcome of reverse-complementing "A" in it] : the nucleotide alphabets are
   exactly the five NT_ alphabets; a sequence over any other alphabet refuses to be complemented with a documented error *)
VIsNt(ev) == IF ev[3] # (ev[2] \in NtAlphabets) THEN "nucleotide-alphabets"
             ELSE IF ev[2] \in NtAlphabets THEN Ok(ev[4] = "v", "nucleotide-alphabets:complementable")
             ELSE Ok(ev[4] \in {"AlphabetError", "ValueError", "BioCantorException"}, "nucleotide-alphabets:others-refused")
Verdict(ev) == CASE ev[1] = "isnt" -> VIsNt(ev) [] ev[1] = "codon" -> VCodon(ev) [] ev[1] = "gencode" -> VGencode(ev) [] ev[1] = "ext" -> VExt(ev)
                 [] ev[1] = "aacodons" -> VAaCodons(ev) [] ev[1] = "starts" -> VStarts(ev)
                 [] ev[1] = "comp" -> VComp(ev) [] ev[1] = "complen" -> VCompLen(ev)
                 [] ev[1] = "shift" -> VShift(ev) [] ev[1] = "f2p" -> VF2P(ev) [] ev[1] = "p2f" -> VP2F(ev)
                 [] ev[1] = "srev" -> VSRev(ev) [] ev[1] = "srel" -> VSRel(ev) [] ev[1] = "ssym" -> VSSym(ev) [] ev[1] = "sord" -> VSOrd(ev)
                 [] ev[1] = "biotype" -> VBiotype(ev)
                 [] OTHER -> "unknown-op"

Bad == {i \in DOMAIN Trace : Verdict(Trace[i]) # "ok"}

(* Input-space certification: the recorded inputs are the complete finite domains *)
Inputs(op) == {Trace[i] : i \in {j \in DOMAIN Trace : Trace[j][1] = op}}
CodonDomain == IupacLetters \X IupacLetters \X IupacLetters
CertCodons == {ev[2] : ev \in Inputs("codon")} = CodonDomain
CertGencode == {ev[2] : ev \in Inputs("gencode")} = StrictCodons
CertAa == {ev[2] : ev \in Inputs("aacodons")} = AminoAcids
CertComp == {<<ev[2], ev[3]>> : ev \in Inputs("comp")} = UNION {{<<a, l>> : l \in AllCases(AlphabetLetters(a))} : a \in NtAlphabets}
CertShift == {<<ev[2], ev[3]>> : ev \in Inputs("shift")} = (Frames \cup {NoneFP}) \X (-30..30)
CertStrand == {<<ev[2], ev[3]>> : ev \in Inputs("srel")} = Strands \X Strands
CertStarts == {ev[2] : ev \in Inputs("starts")} = {0, 1, 11}

ASSUME \A i \in Bad : PrintT(<<"BAD", i, Verdict(Trace[i])>>)
ASSUME PrintT(<<"CERT", "codons-16^3", CertCodons>>) /\ PrintT(<<"CERT", "gencode-64", CertGencode>>)
       /\ PrintT(<<"CERT", "aacodons-21", CertAa>>) /\ PrintT(<<"CERT", "complement-letters", CertComp>>)
       /\ PrintT(<<"CERT", "shift-domain", CertShift>>) /\ PrintT(<<"CERT", "strand-pairs", CertStrand>>)
       /\ PrintT(<<"CERT", "start-tables", CertStarts>>)
ASSUME PrintT(<<"DONE", Len(Trace), Cardinality(Bad)>>)
=============================================================================
