------------------------------- MODULE ChunkMC -------------------------------
(* A CDS seen through a sequence chunk [ws, we) (property C07).  The machine picks a CDS and a window, then runs the
   library's chunk-relative codon scan: restrict the cleaned location to the chunk, compute the start offset from the
   number of bases the chunk cuts at the 5' end, read triples.  Invariant: the chunk-relative codons are exactly the
   whole-chromosome codons that lie completely inside the chunk.
   Variant "code": the single-exon path adds the annotated offset and the chunk offset WITHOUT reducing modulo 3
   (upstream tests pin this); Variant "reduced" is the repaired arithmetic. *)
EXTENDS CDS, TLC
CONSTANTS G, K, Variant
VARIABLES cds, ws, we, scanned, codons
vars == <<cds, ws, we, scanned, codons>>
Layouts == {l \in LocsGK(G, K) : (\A i \in DOMAIN l[1] : BLen(l[1][i]) > 0) /\ ~SelfOverlap(l)}
Init == /\ \E l \in Layouts : \E f0 \in 0..2 : cds = <<l, ConstructFrames(l, f0)>> /\ BLen(ScanOrder(l)[1]) > f0
        /\ ws \in 0..G /\ we \in 0..G /\ ws < we /\ scanned = FALSE /\ codons = <<>>
ToFrame(phase) == (3 - phase) % 3
InW(p) == ws <= p /\ p < we
(* multi-exon path: cleaned location = Kept; single-exon path: the whole exon with an explicit offset *)
AlgoCodons ==
  IF NB(cds[1]) > 1 THEN
     LET kept == Kept(cds)
         inside == SelectSeq(kept, InW)
         cut5 == IF inside = <<>> THEN 0 ELSE (CHOOSE i \in DOMAIN kept : kept[i] = inside[1]) - 1
         off == ToFrame(cut5 % 3)
     IN IF Len(inside) - off >= 3 THEN [k \in 1..((Len(inside) - off) \div 3) |-> SubSeq(inside, off + 3 * k - 2, off + 3 * k)] ELSE <<>>
  ELSE
     LET all == Bases(cds[1]) f0 == Frames5(cds)[1]
         inside == SelectSeq(all, InW)
         cut5 == IF inside = <<>> THEN 0 ELSE (CHOOSE i \in DOMAIN all : all[i] = inside[1]) - 1
         raw == f0 + ToFrame(cut5 % 3)
         off == IF Variant = "reduced" THEN raw % 3 ELSE raw
     IN IF Len(inside) - off >= 3 THEN [k \in 1..((Len(inside) - off) \div 3) |-> SubSeq(inside, off + 3 * k - 2, off + 3 * k)] ELSE <<>>
Scan == ~scanned /\ scanned' = TRUE /\ codons' = AlgoCodons /\ UNCHANGED <<cds, ws, we>>
Spec == Init /\ [][Scan]_vars
ChunkCodonsAreInsideCodons == scanned => codons = WindowCodons(cds, ws, we)
(* the keyed family of the C07 known finding: single exon, and the unreduced offset reaches 3 or more *)
UnreducedOffset == NB(cds[1]) = 1 /\
   LET all == Bases(cds[1]) inside == SelectSeq(all, InW)
       cut5 == IF inside = <<>> THEN 0 ELSE (CHOOSE i \in DOMAIN all : all[i] = inside[1]) - 1
   IN Frames5(cds)[1] + ToFrame(cut5 % 3) >= 3
WrongOnlyWithUnreducedOffset == (scanned /\ codons # WindowCodons(cds, ws, we)) => UnreducedOffset
=============================================================================
