------------------------------ MODULE ValidityMC ------------------------------
(* Fault enumeration: from every valid seed tuple of every class, Corrupt one aspect, then Construct.  The model's own
   obligations: seeds are valid, every applicable corruption makes the tuple invalid (no vacuous fault), and the
   outcome rule -- invalid input is refused, nothing ill-formed is built.  Every (class, seed, kind) is EMITTED for
   replay on the real constructors. *)
EXTENDS Validity, TLC
VARIABLES cls, args, kind, phase
vars == <<cls, args, kind, phase>>
Seeds(c) ==
  CASE c = "SI" -> {<<2, 5, "+", -1>>, <<0, 4, "-", 8>>, <<3, 3, "+", 8>>}
    [] c = "CI" -> {<<<<1, 5>>, <<3, 8>>, "+", -1>>, <<<<0, 4>>, <<2, 8>>, "-", 8>>}
    [] c = "SEQ" -> {<<<<"A", "c", "G">>, "NT_STRICT">>, <<<<"R", "-", "n">>, "NT_EXTENDED_GAPPED">>}
    [] c = "CDS" -> {<<<<1>>, <<7>>, "+", <<0>>, -1, FALSE>>, <<<<0, 5>>, <<3, 8>>, "-", <<0, 0>>, 8, FALSE>>}
    [] c = "TX" -> {<<<<1, 6>>, <<4, 9>>, "+", <<>>, <<>>, <<>>, -1>>, <<<<1, 6>>, <<4, 9>>, "+", <<2, 6>>, <<4, 8>>, <<0, 1>>, 10>>,
                    <<<<2>>, <<8>>, "-", <<2>>, <<8>>, <<0>>, -1>>}
    [] c = "FEAT" -> {<<<<1, 5>>, <<3, 8>>, "+", -1>>, <<<<2>>, <<6>>, "-", 8>>}
    [] c = "GENE" -> {<<1, 0, FALSE>>, <<2, 1, FALSE>>, <<3, 0, FALSE>>}
    [] c = "VAR" -> {<<2, 3, 1, -1>>, <<2, 5, 0, 8>>}
    [] c = "VCOLL" -> {<<<<<<1, 2>>, <<4, 6>>>>>>, <<<<<<3, 4>>>>>>}
    [] c = "COLL" -> {<<-1, -1, 1>>, <<0, 20, 2>>}
    [] c = "PMODEL" -> {<<TRUE, 2, 6>>, <<TRUE, 0, 4>>}
    [] c = "PARENT" -> {<<5, 8, "", "+">>, <<5, -1, "+", "+">>}
    [] c = "QPOS" -> {<<10, 40, 12, 30, TRUE, TRUE>>, <<10, 40, 0, 30, FALSE, TRUE>>, <<5, 40, 6, 0, TRUE, FALSE>>,
                      <<0, 40, 0, 20, TRUE, TRUE>>, <<3, 30, 0, 0, FALSE, FALSE>>}
    [] c = "FSI" -> {<<<<<<"P", 1, "chromosome">>, <<"P", 1, "chromosome">>>>, <<"+", "+">>>>,
                     <<<<<<"P", 0, "chromosome">>, <<"P", 0, "chromosome">>, <<"P", 0, "chromosome">>>>, <<"-", "-", "-">>>>,
                     <<<<<<>>, <<>>>>, <<"+", "+">>>>, <<<<<<"P", 2, "plasmid">>>>, <<"-">>>>}
    [] c = "RPOS" -> {<<<<5>>, <<10>>, "+", 2>>, <<<<5>>, <<10>>, "-", 4>>, <<<<0>>, <<5>>, "-", 0>>, <<<<1, 6>>, <<4, 9>>, "+", 5>>,
                      <<<<1, 6>>, <<4, 9>>, "-", 0>>}
    [] c = "CODON" -> {<<<<"G", "C", "A">>>>, <<<<"a", "t", "g">>>>, <<<<"N", "R", "y">>>>}
Init == cls \in Classes /\ args \in Seeds(cls) /\ kind = "none" /\ phase = "seed"
DoCorrupt(k) == /\ phase = "seed" /\ Corrupt(cls, args, k) # args
                /\ args' = Corrupt(cls, args, k) /\ kind' = k /\ phase' = "corrupted" /\ UNCHANGED cls
Construct == phase \in {"seed", "corrupted"} /\ phase' = "constructed" /\ UNCHANGED <<cls, args, kind>>
Next == (\E k \in Kinds : DoCorrupt(k)) \/ Construct
Spec == Init /\ [][Next]_vars
SeedsAreValid == phase = "seed" => Valid(cls, args)
FaultsAreFaults == phase = "corrupted" => ~Valid(cls, args)
Emit == phase = "constructed" => PrintT(<<"CASE", cls, kind, args>>)
=============================================================================
