----------------------------- MODULE ParentAlg -----------------------------
(* The Parent record algebra (parent/parent.py): how the constructor derives id, sequence type, strand and parent
   from its keyword arguments (or refuses them), and the derived operations strip_location_info, reset_location,
   first_ancestor_of_type and has_ancestor_of_type.  One self-contained function with rich case analysis: the model is a
   transcription of the documented rules, TLC enumerates the whole argument space, and the replay on the real class
   is one implementation test per case.
   Arguments (NONE = "" / <<>>):  id, stype, strand in {"", "+", "-"},
     loc = <<>> | <<end, strand, parentId, parentType>>   (a SingleInterval 0..end with an optional parent of its own)
     seq = <<>> | <<length, id, type>>                    (a Sequence of that length)
     par = "" | "P"                                       (P = Parent(id = "root", chromosome, sequence of length PLen))
   Outcome: <<"x", exception>> | <<"v", <<id, type, strand, locEnd | -1, seqLen | -1, parentId>>>> *)
EXTENDS Naturals, Integers, Sequences, FiniteSets
PLen == 4
NONE == ""
Ids == {NONE, "a", "b"}
Types == {NONE, "chromosome", "sequence_chunk"}
Strands == {NONE, "+", "-"}
LocArgs == {<<>>} \cup {<<e, s, i, t>> : e \in {2, 5}, s \in {"+", "-", "."}, i \in Ids, t \in {NONE, "chromosome"}}
SeqArgs == {<<>>} \cup {<<n, i, t>> : n \in {3, 6}, i \in Ids, t \in Types}
ParArgs == {NONE, "P"}
ArgSpace == Ids \X Types \X Strands \X LocArgs \X SeqArgs \X ParArgs

NonNull(S) == {v \in S : v # NONE}
Conflict(S) == Cardinality(NonNull(S)) > 1
TheOne(S) == IF NonNull(S) = {} THEN NONE ELSE CHOOSE v \in NonNull(S) : TRUE

(* the constructor *)
Construct(id, stype, strand, loc, seq, par) ==
  LET ids == {id} \cup (IF loc # <<>> THEN {loc[3]} ELSE {}) \cup (IF seq # <<>> THEN {seq[2]} ELSE {})
      tys == {stype} \cup (IF loc # <<>> THEN {loc[4]} ELSE {}) \cup (IF seq # <<>> THEN {seq[3]} ELSE {}) IN
  IF Conflict(ids) THEN <<"x", "ParentException">>
  ELSE IF Conflict(tys) THEN <<"x", "ParentException">>
  ELSE IF loc # <<>> /\ strand # NONE /\ strand # loc[2] THEN <<"x", "InvalidStrandException">>
  ELSE IF loc # <<>> /\ seq # <<>> /\ loc[1] > seq[1] THEN <<"x", "InvalidPositionException">>
  ELSE IF seq # <<>> /\ par = "P" /\ seq[1] > PLen THEN <<"x", "LocationException">>
  ELSE <<"v", << TheOne(ids), TheOne(tys), IF loc # <<>> THEN loc[2] ELSE strand,
                 IF loc # <<>> THEN loc[1] ELSE -1, IF seq # <<>> THEN seq[1] ELSE -1,
                 IF par = "P" THEN "root" ELSE NONE >> >>

(* derived operations on a successfully built parent p = its argument tuple *)
Built(a) == Construct(a[1], a[2], a[3], a[4], a[5], a[6])
Proj(a) == Built(a)[2]
Strip(a) == Construct(Proj(a)[1], Proj(a)[2], NONE, <<>>, a[5], a[6])      \* same sequence object, same parent
(* reset_location(l2): l2 = <<>> | <<end, strand, parentId, parentType>> *)
Reset(a, l2) == Construct(Proj(a)[1], Proj(a)[2], IF l2 = <<>> THEN NONE ELSE l2[2], l2, a[5], a[6])
RootProj == <<"root", "chromosome", NONE, -1, PLen, NONE>>
FirstAncestor(a, t, inclSelf) ==
  IF inclSelf /\ Proj(a)[2] = t /\ t # NONE THEN <<"v", Proj(a)>>
  ELSE IF a[6] = "P" /\ t = "chromosome" THEN <<"v", RootProj>>
  ELSE <<"x", "NoSuchAncestorException">>
HasAncestor(a, t, inclSelf) == FirstAncestor(a, t, inclSelf)[1] = "v"

(* laws of the algebra, checked by TLC over the whole argument space (ParentMC) *)
Valid(a) == Built(a)[1] = "v"
StripIsTotal == \A a \in ArgSpace : Valid(a) => (Strip(a)[1] = "v" /\ Strip(a)[2][1] = Proj(a)[1] /\ Strip(a)[2][2] = Proj(a)[2]
                                                  /\ Strip(a)[2][3] = NONE /\ Strip(a)[2][4] = -1)
ResetNoneIsStrip == \A a \in ArgSpace : Valid(a) => Reset(a, <<>>) = Strip(a)
ResetOwnLocationIsIdentity == \A a \in ArgSpace : (Valid(a) /\ a[4] # <<>>) => Reset(a, a[4]) = Built(a)
StrandFollowsLocation == \A a \in ArgSpace : (Valid(a) /\ a[4] # <<>>) => Proj(a)[3] = a[4][2]
IdNeverInvented == \A a \in ArgSpace : Valid(a) =>
   Proj(a)[1] \in {a[1]} \cup (IF a[4] # <<>> THEN {a[4][3]} ELSE {}) \cup (IF a[5] # <<>> THEN {a[5][2]} ELSE {}) \cup {NONE}
AncestorConsistent == \A a \in ArgSpace : \A t \in {"chromosome", "sequence_chunk", "x"} : \A s \in BOOLEAN :
   Valid(a) => (HasAncestor(a, t, s) <=> FirstAncestor(a, t, s)[1] = "v")
=============================================================================
