------------------------------- MODULE Validity -------------------------------
(* Validity of constructor arguments and classification of outcomes (property C19).
   An argument tuple is a record-like sequence per class; Valid(cls, a) is the documented validity predicate;
   Corrupt(cls, a, kind) perturbs a valid tuple into an invalid one of the given kind (or returns it unchanged when the
   kind does not apply to the class). *)
EXTENDS Loc

Classes == {"SI", "CI", "SEQ", "CDS", "TX", "FEAT", "GENE", "VAR", "VCOLL", "COLL", "PARENT", "CODON", "QPOS", "FSI", "RPOS", "PMODEL"}
Kinds == {"start>end", "negative", "beyond-sequence", "length-mismatch", "frames-mismatch", "cds-outside-exons",
          "undirected", "wrong-alphabet", "overlapping", "duplicate", "empty", "mixed-frame-phase", "multi-primary",
          "half-bounds", "strand-mismatch", "zero-length", "beyond-sequence-not-last", "gap-letter", "too-short", "too-long", "trailing-newline", "leading-blank",
          "zero-start", "zero-end", "before-bounds", "beyond-bounds", "parent-other-id", "parent-other-sequence", "parent-other-type",
          "parent-missing", "cds-end-beyond-exons", "cds-start-before-exons"}
(* outcomes: value | documented rejection | anything else is an internal error *)
InternalExc(o) == IsExc(o) /\ o[2] \notin DocumentedExc
Pairwise(ss, es) == Len(ss) = Len(es) /\ Len(ss) > 0 /\ \A i \in DOMAIN ss : 0 <= ss[i] /\ ss[i] <= es[i]
WithinSeq(es, n) == n < 0 \/ \A i \in DOMAIN es : es[i] <= n

(* SI = <<start, end, strand, seqlen>> ; CI = <<starts, ends, strand, seqlen>> ; SEQ = <<chars, alphabet>>
   CDS = <<starts, ends, strand, frames, seqlen, mixed>> ; TX = <<estarts, eends, strand, cstarts, cends, frames, seqlen>>
   FEAT = <<starts, ends, strand, seqlen>> ; GENE = <<nTranscripts, nPrimaryFlags, duplicateChild>>
   VAR = <<start, end, altLen, seqlen>> ; VCOLL = <<spans>> ; COLL = <<start|-1, end|-1, nMembers>>
   PARENT = <<locEnd, seqlen, strandGiven, locStrand>> ; CODON = <<chars>> (three IUPAC nucleotide letters, any case)
   QPOS = <<collStart, collEnd, qStart, qEnd, startGiven, endGiven>> : AnnotationCollection.query_by_position on a collection
          with explicit bounds; a bound that is not given defaults to the collection's own
   RPOS = <<starts, ends, strand, pos>> : relative_to_parent_pos(pos) of a single / multi-block location: 0 <= pos < length
   FSI = <<parents, strands>> : CompoundInterval.from_single_intervals; one entry per block, a parent is <<id, sequence
          variant (0 = none), type>> or <<>> for none -- the blocks must agree on the WHOLE parent, not on its id *)
Valid(cls, a) ==
  CASE cls = "SI" -> 0 <= a[1] /\ a[1] <= a[2] /\ (a[4] < 0 \/ a[2] <= a[4])
    [] cls = "CI" -> Pairwise(a[1], a[2]) /\ WithinSeq(a[2], a[4])
    [] cls = "SEQ" -> \A i \in DOMAIN a[1] : a[1][i] \in AllCases(AlphabetLetters(a[2]))
    [] cls = "CDS" -> Pairwise(a[1], a[2]) /\ Len(a[4]) = Len(a[1]) /\ WithinSeq(a[2], a[5]) /\ ~a[6]
                      /\ SumSeq([i \in DOMAIN a[1] |-> a[2][i] - a[1][i]]) > 0
    [] cls = "TX" -> Pairwise(a[1], a[2]) /\ WithinSeq(a[2], a[7])
                     /\ ((a[4] = <<>> /\ a[5] = <<>>) \/
                         (Pairwise(a[4], a[5]) /\ Len(a[6]) = Len(a[4]) /\ a[4][1] >= a[1][1] /\ a[5][Len(a[5])] <= a[2][Len(a[2])]
                          /\ SumSeq([i \in DOMAIN a[4] |-> a[5][i] - a[4][i]]) > 0))
    [] cls = "FEAT" -> Pairwise(a[1], a[2]) /\ WithinSeq(a[2], a[4])
    [] cls = "GENE" -> a[1] >= 1 /\ a[2] <= 1 /\ ~a[3]
    [] cls = "VAR" -> a[1] < a[2] /\ 0 <= a[1] /\ (a[4] < 0 \/ a[2] <= a[4])
    [] cls = "VCOLL" -> Len(a[1]) >= 1 /\ \A i, j \in DOMAIN a[1] : i < j => (a[1][i][2] <= a[1][j][1] \/ a[1][j][2] <= a[1][i][1])
    [] cls = "COLL" -> (a[1] < 0) = (a[2] < 0)
    [] cls = "PARENT" -> (a[2] < 0 \/ a[1] <= a[2]) /\ (a[3] = "" \/ a[3] = a[4])
    [] cls = "QPOS" -> LET s == IF a[5] THEN a[3] ELSE a[1] e == IF a[6] THEN a[4] ELSE a[2] IN
                       0 <= s /\ a[1] <= s /\ s < e /\ e <= a[2]
    [] cls = "FSI" -> Len(a[1]) >= 1 /\ (\A i, j \in DOMAIN a[1] : a[1][i] = a[1][j]) /\ (\A i, j \in DOMAIN a[2] : a[2][i] = a[2][j])
    [] cls = "RPOS" -> Pairwise(a[1], a[2]) /\ 0 <= a[4] /\ a[4] < SumSeq([i \in DOMAIN a[1] |-> a[2][i] - a[1][i]])
    \* PMODEL = <<hasSequenceName, start | -1, end | -1>> : the data-model form of a SEQUENCE CHUNK parent (with sequence)
    \* needs a name and BOTH bounds of the chunk
    [] cls = "PMODEL" -> a[1] /\ a[2] >= 0 /\ a[3] >= 0
    [] cls = "CODON" -> Len(a[1]) = 3 /\ \A i \in DOMAIN a[1] : a[1][i] \in AllCases(IupacLetters)
(* corruptions: each yields an INVALID tuple when it applies (checked by TLC in ValidityMC) *)
Bump(s, i, v) == [s EXCEPT ![i] = v]
Corrupt(cls, a, kind) ==
  CASE cls = "SI" /\ kind = "start>end" -> <<a[2] + 1, a[2], a[3], a[4]>>
    [] cls = "SI" /\ kind = "negative" -> <<-1, a[2], a[3], a[4]>>
    [] cls = "SI" /\ kind = "beyond-sequence" /\ a[4] >= 0 -> <<a[1], a[4] + 1, a[3], a[4]>>
    [] cls \in {"CI", "FEAT"} /\ kind = "start>end" -> <<Bump(a[1], 1, a[2][1] + 1), a[2], a[3], a[4]>>
    [] cls \in {"CI", "FEAT"} /\ kind = "negative" -> <<Bump(a[1], 1, -1), a[2], a[3], a[4]>>
    [] cls \in {"CI", "FEAT"} /\ kind = "length-mismatch" -> <<a[1], Append(a[2], a[2][Len(a[2])] + 2), a[3], a[4]>>
    [] cls \in {"CI", "FEAT"} /\ kind = "empty" -> <<<<>>, <<>>, a[3], a[4]>>
    [] cls \in {"CI", "FEAT"} /\ kind = "beyond-sequence" /\ a[4] >= 0 -> <<a[1], Bump(a[2], Len(a[2]), a[4] + 1), a[3], a[4]>>
    \* the block that runs past the sequence end is not the one that starts last (a nested / enclosing block)
    [] cls \in {"CI", "FEAT"} /\ kind = "beyond-sequence-not-last" /\ a[4] >= 0 /\ Len(a[1]) >= 2 ->
         <<a[1], Bump(a[2], 1, a[4] + 1), a[3], a[4]>>
    [] cls = "SEQ" /\ kind = "wrong-alphabet" -> <<Append(a[1], "!"), a[2]>>
    \* a line of a file handed over without stripping it
    [] cls = "SEQ" /\ kind = "trailing-newline" -> <<Append(a[1], "\n"), a[2]>>
    [] cls = "SEQ" /\ kind = "leading-blank" -> <<<<" ">> \o a[1], a[2]>>
    [] cls = "CDS" /\ kind = "start>end" -> <<Bump(a[1], 1, a[2][1] + 1), a[2], a[3], a[4], a[5], a[6]>>
    [] cls = "CDS" /\ kind = "frames-mismatch" -> <<a[1], a[2], a[3], Append(a[4], 0), a[5], a[6]>>
    [] cls = "CDS" /\ kind = "mixed-frame-phase" /\ Len(a[1]) > 1 -> <<a[1], a[2], a[3], a[4], a[5], TRUE>>
    [] cls = "CDS" /\ kind = "zero-length" -> <<<<a[1][1]>>, <<a[1][1]>>, a[3], <<0>>, a[5], a[6]>>
    [] cls = "CDS" /\ kind = "beyond-sequence" /\ a[5] >= 0 -> <<a[1], Bump(a[2], Len(a[2]), a[5] + 1), a[3], a[4], a[5], a[6]>>
    [] cls = "TX" /\ kind = "start>end" -> <<Bump(a[1], 1, a[2][1] + 1), a[2], a[3], a[4], a[5], a[6], a[7]>>
    [] cls = "TX" /\ kind = "length-mismatch" -> <<a[1], Append(a[2], a[2][Len(a[2])] + 2), a[3], a[4], a[5], a[6], a[7]>>
    [] cls = "TX" /\ kind = "cds-outside-exons" /\ a[4] # <<>> /\ a[1][1] > 0 ->
         <<a[1], a[2], a[3], Bump(a[4], 1, a[1][1] - 1), a[5], a[6], a[7]>>
    \* the LAST block of the CDS runs past the last exon (the first block is fine), the FIRST starts before the first exon
    [] cls = "TX" /\ kind = "cds-end-beyond-exons" /\ a[4] # <<>> ->
         <<a[1], a[2], a[3], a[4], Bump(a[5], Len(a[5]), a[2][Len(a[2])] + 1), a[6], IF a[7] < 0 THEN a[7] ELSE a[7] + 1>>
    [] cls = "TX" /\ kind = "cds-start-before-exons" /\ a[4] # <<>> /\ a[1][1] > 0 ->
         <<a[1], a[2], a[3], Bump(a[4], 1, a[1][1] - 1), a[5], a[6], a[7]>>
    [] cls = "TX" /\ kind = "frames-mismatch" /\ a[4] # <<>> -> <<a[1], a[2], a[3], a[4], a[5], Append(a[6], 0), a[7]>>
    [] cls = "TX" /\ kind = "half-bounds" /\ a[4] # <<>> -> <<a[1], a[2], a[3], a[4], <<>>, a[6], a[7]>>
    [] cls = "GENE" /\ kind = "empty" -> <<0, 0, FALSE>>
    [] cls = "GENE" /\ kind = "multi-primary" /\ a[1] >= 2 -> <<a[1], 2, a[3]>>
    [] cls = "GENE" /\ kind = "duplicate" /\ a[1] >= 2 -> <<a[1], a[2], TRUE>>
    [] cls = "VAR" /\ kind = "zero-length" -> <<a[1], a[1], a[3], a[4]>>
    [] cls = "VAR" /\ kind = "beyond-sequence" /\ a[4] >= 0 -> <<a[1], a[4] + 1, a[3], a[4]>>
    [] cls = "VCOLL" /\ kind = "overlapping" -> <<Append(a[1], <<a[1][1][1], a[1][1][2] + 1>>)>>
    [] cls = "VCOLL" /\ kind = "empty" -> <<<<>>>>
    [] cls = "COLL" /\ kind = "half-bounds" -> <<0, -1, a[3]>>
    [] cls = "PMODEL" /\ kind = "half-bounds" -> <<a[1], a[2], -1>>
    [] cls = "PMODEL" /\ kind = "zero-start" -> <<a[1], -1, a[3]>>
    [] cls = "PMODEL" /\ kind = "parent-missing" -> <<FALSE, a[2], a[3]>>
    [] cls = "PARENT" /\ kind = "beyond-sequence" /\ a[2] >= 0 -> <<a[2] + 1, a[2], a[3], a[4]>>
    [] cls = "PARENT" /\ kind = "strand-mismatch" -> <<a[1], a[2], "-", "+">>
    [] cls = "CODON" /\ kind = "gap-letter" -> <<Bump(a[1], 3, "-")>>
    [] cls = "CODON" /\ kind = "wrong-alphabet" -> <<Bump(a[1], 1, "X")>>
    [] cls = "CODON" /\ kind = "too-short" -> <<SubSeq(a[1], 1, 2)>>
    [] cls = "CODON" /\ kind = "too-long" -> <<Append(a[1], "A")>>
    [] cls = "CODON" /\ kind = "empty" -> <<<<>>>>
    \* an explicit bound that is exactly 0 where 0 is not a valid bound (it must not be read as "not given")
    [] cls = "QPOS" /\ kind = "zero-start" /\ a[1] > 0 -> <<a[1], a[2], 0, a[4], TRUE, a[6]>>
    [] cls = "QPOS" /\ kind = "zero-end" -> <<a[1], a[2], a[3], 0, a[5], TRUE>>
    [] cls = "QPOS" /\ kind = "before-bounds" /\ a[1] > 0 -> <<a[1], a[2], a[1] - 1, a[4], TRUE, a[6]>>
    [] cls = "QPOS" /\ kind = "beyond-bounds" -> <<a[1], a[2], a[3], a[2] + 1, a[5], TRUE>>
    [] cls = "QPOS" /\ kind = "start>end" -> <<a[1], a[2], a[1] + 2, a[1] + 1, TRUE, TRUE>>
    [] cls = "QPOS" /\ kind = "zero-length" -> <<a[1], a[2], a[1] + 1, a[1] + 1, TRUE, TRUE>>
    [] cls = "QPOS" /\ kind = "negative" -> <<a[1], a[2], -1, a[4], TRUE, a[6]>>
    \* one past the last base (the END of an interval is a boundary, not a base), and one before the first
    [] cls = "RPOS" /\ kind = "beyond-sequence" -> <<a[1], a[2], a[3], SumSeq([i \in DOMAIN a[1] |-> a[2][i] - a[1][i]])>>
    [] cls = "RPOS" /\ kind = "negative" -> <<a[1], a[2], a[3], -1>>
    [] cls = "FSI" /\ kind = "empty" -> <<<<>>, <<>>>>
    [] cls = "FSI" /\ kind = "strand-mismatch" /\ Len(a[2]) >= 2 -> <<a[1], Bump(a[2], Len(a[2]), IF a[2][1] = "+" THEN "-" ELSE "+")>>
    [] cls = "FSI" /\ kind = "parent-other-id" /\ Len(a[1]) >= 2 /\ a[1][1] # <<>> ->
         <<Bump(a[1], Len(a[1]), <<"Q", a[1][1][2], a[1][1][3]>>), a[2]>>
    [] cls = "FSI" /\ kind = "parent-other-sequence" /\ Len(a[1]) >= 2 /\ a[1][1] # <<>> /\ a[1][1][2] > 0 ->
         <<Bump(a[1], Len(a[1]), <<a[1][1][1], a[1][1][2] + 1, a[1][1][3]>>), a[2]>>
    [] cls = "FSI" /\ kind = "parent-other-type" /\ Len(a[1]) >= 2 /\ a[1][1] # <<>> ->
         <<Bump(a[1], Len(a[1]), <<a[1][1][1], a[1][1][2], IF a[1][1][3] = "chromosome" THEN "plasmid" ELSE "chromosome">>), a[2]>>
    [] cls = "FSI" /\ kind = "parent-missing" /\ Len(a[1]) >= 2 /\ a[1][1] # <<>> -> <<Bump(a[1], 1, <<>>), a[2]>>
    [] OTHER -> a
=============================================================================
