--------------------------------- MODULE Memo ---------------------------------
(* The memoisation mechanism of TranscriptInterval / CDSInterval as a state machine of the IMPLEMENTATION (C10).

   Every memoised method owns a bounded LRU table (methodtools.lru_cache(maxsize=k), one table per object and method)
   keyed by the LITERAL call form -- positional and keyword forms of the same arguments are different keys, exactly as
   functools keys them.  A memoised method that misses runs its body, and the body calls other memoised methods: the
   call graph below is transcribed from gene/cds.py and gene/transcript.py (one operator per method, nested calls in
   program order, insertion after the body returns, eviction of the least recently used entry when the table is full).

     TranscriptInterval.get_protein_sequence(f)   cap 2   -> cds.translate(truncate_at_in_frame_stop=.., translation_table=..)
     TranscriptInterval.get_cds_sequence()        cap 1   -> cds.extract_sequence()
     TranscriptInterval.has_in_frame_stop                  -> cds.has_in_frame_stop            (not memoised itself)
     CDSInterval.translate(f)                     cap 2   -> extract_sequence()
     CDSInterval.has_in_frame_stop                cap 1   -> translate()
     CDSInterval.extract_sequence()               cap 1   -> flag ? chunk_relative_codon_locations
                                                                  : _prepare_*(relative_window=None, chunk_relative_coordinates=True)
     CDSInterval.chunk_relative_codon_locations   cap 1   -> flag := TRUE ; _prepare_*(None, True)     (positional form)
     CDSInterval.chromosome_codon_locations       cap 1   -> _prepare_*(None, False)
     CDSInterval.scan_chunk_relative_codon_locations(w) / scan_chromosome_codon_locations(w)   -> _prepare_*(w, True/False)
     CDSInterval.num_codons / num_chunk_relative_codons / scan_codons   -> the tables above
     CDSInterval._prepare_{single,multi}_exon_window_for_scan_codon_locations   cap 20 (the one in use for this CDS)

   State: tbl[t] = keys of table t, least recently used first; st[t] = <<hits, misses>> as cache_info() reports them;
   flag = CDSInterval._chunk_relative_codon_locations_cached.  An entry remembers WHAT was computed for it (the
   semantic arguments of the call that filled it) so that the C10 invariant "the answer through the mechanism is the
   method's own answer for the arguments asked" is a statement about the machine, and a key that forgets an argument
   (Variant "key-drops-table") is refuted by TLC. *)
EXTENDS Naturals, Sequences, FiniteSets
CONSTANT Variant
Tables == {"gps", "gcs", "tr", "ifs", "es", "crl", "ccl", "prep"}
Cap(t) == CASE t \in {"gps", "tr"} -> 2 [] t = "prep" -> 20 [] OTHER -> 1
(* literal call forms offered to the public methods, and their meaning (truncate, table, strict) *)
GpsForms == {"()", "(T)", "(F,11)"}
TrForms == {"()", "(T)", "(F,11)", "(F,1,F)"}
CONSTANT Windows   \* subset of {"w1", "w2"}
Sem(f) == CASE f \in {"()", "kw(F,1)"} -> <<FALSE, 1, TRUE>>
            [] f \in {"(T)", "kw(T,1)"} -> <<TRUE, 1, TRUE>>
            [] f \in {"(F,11)", "kw(F,11)"} -> <<FALSE, 11, TRUE>>
            [] f = "(F,1,F)" -> <<FALSE, 1, FALSE>>
(* get_protein_sequence(f) forwards its arguments to translate as keywords *)
Kw(f) == CASE f = "()" -> "kw(F,1)" [] f = "(T)" -> "kw(T,1)" [] f = "(F,11)" -> "kw(F,11)"
(* the key under which a table files a call (Variant: translate forgets the translation table) *)
KeyOf(t, f) == IF Variant = "key-drops-table" /\ t = "tr" THEN <<Sem(f)[1], Sem(f)[3]>> ELSE f

Entry(k, v) == <<k, v>>
EKey(e) == e[1]
EVal(e) == e[2]
Idx(tb, k) == IF \E i \in DOMAIN tb : EKey(tb[i]) = k THEN CHOOSE i \in DOMAIN tb : EKey(tb[i]) = k ELSE 0
Without(tb, i) == [j \in 1..(Len(tb) - 1) |-> IF j < i THEN tb[j] ELSE tb[j + 1]]

(* machine state as one record so that the methods compose as functions *)
S0 == [tbl |-> [t \in Tables |-> <<>>], st |-> [t \in Tables |-> <<0, 0>>], flag |-> FALSE, ret |-> <<"none">>]
IsHit(s, t, k) == Idx(s.tbl[t], k) # 0
(* a hit: count it, make the entry the most recently used, answer with the stored value *)
DoHit(s, t, k) ==
  LET i == Idx(s.tbl[t], k) e == s.tbl[t][i] IN
  [s EXCEPT !.tbl[t] = Append(Without(@, i), e), !.st[t] = <<@[1] + 1, @[2]>>, !.ret = EVal(e)]
(* tables that can evict (more call forms than capacity): only for them does the recency order decide anything *)
Evicting == {"gps", "tr"}
CountMiss(s, t) == [s EXCEPT !.st[t] = <<@[1], @[2] + 1>>]
(* after the body returned v: file it, evicting the least recently used entry of a full table *)
Store(s, t, k, v) ==
  [s EXCEPT !.tbl[t] = Append(IF Len(@) >= Cap(t) THEN Tail(@) ELSE @, Entry(k, v)), !.ret = v]

(* ---- the call graph, innermost first ---- *)
Prep(s, f) == IF IsHit(s, "prep", f) THEN DoHit(s, "prep", f)
              ELSE Store(CountMiss(s, "prep"), "prep", f, <<"prep", f>>)
Crl(s) == IF IsHit(s, "crl", "()") THEN DoHit(s, "crl", "()")
          ELSE LET a == CountMiss(s, "crl") b == Prep([a EXCEPT !.flag = TRUE], "p(None,T)") IN Store(b, "crl", "()", <<"crl">>)
Ccl(s) == IF IsHit(s, "ccl", "()") THEN DoHit(s, "ccl", "()")
          ELSE Store(Prep(CountMiss(s, "ccl"), "p(None,F)"), "ccl", "()", <<"ccl">>)
Es(s) == IF IsHit(s, "es", "()") THEN DoHit(s, "es", "()")
         ELSE LET a == CountMiss(s, "es") b == IF a.flag THEN Crl(a) ELSE Prep(a, "kw(None,T)") IN Store(b, "es", "()", <<"es">>)
Tr(s, f) == LET k == KeyOf("tr", f) IN
            IF IsHit(s, "tr", k) THEN DoHit(s, "tr", k)
            ELSE Store(Es(CountMiss(s, "tr")), "tr", k, <<"tr", Sem(f)>>)
Ifs(s) == IF IsHit(s, "ifs", "()") THEN DoHit(s, "ifs", "()")
          ELSE Store(Tr(CountMiss(s, "ifs"), "()"), "ifs", "()", <<"ifs">>)
Gps(s, f) == IF IsHit(s, "gps", f) THEN DoHit(s, "gps", f)
             ELSE Store(Tr(CountMiss(s, "gps"), Kw(f)), "gps", f, <<"tr", Sem(f)>>)
Gcs(s) == IF IsHit(s, "gcs", "()") THEN DoHit(s, "gcs", "()")
          ELSE Store(Es(CountMiss(s, "gcs")), "gcs", "()", <<"es">>)
PKey(w, c) == CASE w = "w1" /\ c = "T" -> "p(w1,T)" [] w = "w1" /\ c = "F" -> "p(w1,F)"
                [] w = "w2" /\ c = "T" -> "p(w2,T)" [] w = "w2" /\ c = "F" -> "p(w2,F)"
ScanChunk(s, w) == Prep(s, PKey(w, "T"))
ScanChrom(s, w) == Prep(s, PKey(w, "F"))

(* public calls: <<receiver.method, form>> *)
Calls == ({"tx.get_protein_sequence"} \X GpsForms) \cup ({"cds.translate"} \X TrForms)
         \cup ({"cds.scan_chunk_window", "cds.scan_chrom_window"} \X Windows)
         \cup ({"tx.get_cds_sequence", "tx.has_in_frame_stop", "cds.has_in_frame_stop", "cds.extract_sequence",
                "cds.chunk_relative_codon_locations", "cds.chromosome_codon_locations", "cds.num_codons",
                "cds.num_chunk_relative_codons", "cds.scan_codons"} \X {"()"})
Do(s, c) ==
  LET m == c[1] f == c[2] IN
  CASE m = "tx.get_protein_sequence" -> Gps(s, f)
    [] m = "cds.translate" -> Tr(s, f)
    [] m = "tx.get_cds_sequence" -> Gcs(s)
    [] m \in {"tx.has_in_frame_stop", "cds.has_in_frame_stop"} -> Ifs(s)
    [] m \in {"cds.extract_sequence", "cds.scan_codons"} -> Es(s)
    [] m \in {"cds.chunk_relative_codon_locations", "cds.num_chunk_relative_codons"} -> Crl(s)
    [] m \in {"cds.chromosome_codon_locations", "cds.num_codons"} -> Ccl(s)
    [] m = "cds.scan_chunk_window" -> ScanChunk(s, f)
    [] m = "cds.scan_chrom_window" -> ScanChrom(s, f)
(* the method's own answer for the arguments asked (what a fresh object computes) *)
Own(c) ==
  LET m == c[1] f == c[2] IN
  CASE m \in {"tx.get_protein_sequence", "cds.translate"} -> <<"tr", Sem(f)>>
    [] m \in {"tx.get_cds_sequence", "cds.extract_sequence", "cds.scan_codons"} -> <<"es">>
    [] m \in {"tx.has_in_frame_stop", "cds.has_in_frame_stop"} -> <<"ifs">>
    [] m \in {"cds.chunk_relative_codon_locations", "cds.num_chunk_relative_codons"} -> <<"crl">>
    [] m \in {"cds.chromosome_codon_locations", "cds.num_codons"} -> <<"ccl">>
    [] m = "cds.scan_chunk_window" -> <<"prep", PKey(f, "T")>>
    [] m = "cds.scan_chrom_window" -> <<"prep", PKey(f, "F")>>
(* what cache_info() of every table shows: <<hits, misses, currsize>> in a fixed table order *)
TableOrder == <<"gps", "gcs", "tr", "ifs", "es", "crl", "ccl", "prep">>
Obs(s) == [i \in 1..Len(TableOrder) |-> <<s.st[TableOrder[i]][1], s.st[TableOrder[i]][2], Len(s.tbl[TableOrder[i]])>>]
=============================================================================
