------------------------------- MODULE EscapeMC -------------------------------
(* Text typed one character at a time; after every keystroke the encoded text decodes back to the text and contains
   no raw structural character.  Variant "skip-escaped-percent" leaves a "%" unescaped when two hex digits follow. *)
EXTENDS Escape, TLC
CONSTANTS Sigma, MaxLen, Variant
VARIABLE s
SigmaDef == {";", "=", "%", "\t", "\n", " ", ">", ",", "2", "0", "A", "x"}
Init == s = <<>>
Type(c) == Len(s) < MaxLen /\ s' = Append(s, c)
Next == \E c \in Sigma : Type(c)
Spec == Init /\ [][Next]_s
Hex == {"0", "1", "2", "3", "4", "5", "6", "7", "8", "9", "A", "B", "C", "D", "E", "F"}
AlgoEnc(t, wc) ==
  IF Variant = "code" THEN Enc(t, wc)
  ELSE FlattenSeq([i \in DOMAIN t |-> IF t[i] = "%" /\ i + 2 <= Len(t) /\ t[i + 1] \in Hex /\ t[i + 2] \in Hex
                                       THEN <<"%">> ELSE EncChar(t[i], wc)])
RoundTrip == \A wc \in BOOLEAN : Dec(AlgoEnc(s, wc)) = s
NothingRaw == \A wc \in BOOLEAN : NoRaw(AlgoEnc(s, wc))
CommaKeptAsSeparatorOnlyInValues == (\E i \in DOMAIN s : s[i] = ",") => \E i \in DOMAIN Enc(s, FALSE) : Enc(s, FALSE)[i] = ","
=============================================================================
