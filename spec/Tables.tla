------------------------------- MODULE Tables -------------------------------
(* Finite biological tables and enumerated algebras (property C15; used by C03, C05, C17).
   Letters are 1-character strings; a codon is a 3-tuple of letters.
   The genetic code is DERIVED from the NCBI compact strings (tables 1 and 11 share AAs). *)
EXTENDS Naturals, Integers, Sequences, FiniteSets

Base == {"A", "C", "G", "T"}
BaseOrder == <<"T", "C", "A", "G">>                       \* NCBI Base1/Base2/Base3 order
BaseIdx(b) == CHOOSE i \in 1..4 : BaseOrder[i] = b

NcbiAAs == << "F","F","L","L","S","S","S","S","Y","Y","*","*","C","C","*","W",
              "L","L","L","L","P","P","P","P","H","H","Q","Q","R","R","R","R",
              "I","I","I","M","T","T","T","T","N","N","K","K","S","S","R","R",
              "V","V","V","V","A","A","A","A","D","D","E","E","G","G","G","G" >>
NcbiStarts1 == << "-","-","-","M","-","-","-","-","-","-","*","*","-","-","*","-",
                  "-","-","-","M","-","-","-","-","-","-","-","-","-","-","-","-",
                  "-","-","-","M","-","-","-","-","-","-","-","-","-","-","-","-",
                  "-","-","-","-","-","-","-","-","-","-","-","-","-","-","-","-" >>
NcbiStarts11 == << "-","-","-","M","-","-","-","-","-","-","*","*","-","-","*","-",
                   "-","-","-","M","-","-","-","-","-","-","-","-","-","-","-","-",
                   "M","M","M","M","-","-","-","-","-","-","-","-","-","-","-","-",
                   "-","-","-","M","-","-","-","-","-","-","-","-","-","-","-","-" >>

StrictCodons == Base \X Base \X Base
CodonIdx(c) == 16 * (BaseIdx(c[1]) - 1) + 4 * (BaseIdx(c[2]) - 1) + BaseIdx(c[3])
Code(c) == NcbiAAs[CodonIdx(c)]                            \* standard genetic code, c \in StrictCodons
AminoAcids == {NcbiAAs[i] : i \in 1..64}
Synonyms(aa) == {c \in StrictCodons : Code(c) = aa}
StopCodons == Synonyms("*")
StartCodons(t) == CASE t = 0 -> {<<"A", "T", "G">>}
                    [] t = 1 -> {c \in StrictCodons : NcbiStarts1[CodonIdx(c)] = "M"}
                    [] t = 11 -> {c \in StrictCodons : NcbiStarts11[CodonIdx(c)] = "M"}

(* IUPAC nucleotide letters as base sets ("U" reads as "T") *)
IupacLetters == {"A","C","G","T","U","R","Y","S","W","K","M","B","D","H","V","N"}
IupacSet(l) == CASE l = "A" -> {"A"} [] l = "C" -> {"C"} [] l = "G" -> {"G"} [] l = "T" -> {"T"} [] l = "U" -> {"T"}
                 [] l = "R" -> {"A","G"} [] l = "Y" -> {"C","T"} [] l = "S" -> {"C","G"} [] l = "W" -> {"A","T"}
                 [] l = "K" -> {"G","T"} [] l = "M" -> {"A","C"} [] l = "B" -> {"C","G","T"} [] l = "D" -> {"A","G","T"}
                 [] l = "H" -> {"A","C","T"} [] l = "V" -> {"A","C","G"} [] l = "N" -> {"A","C","G","T"}
Expansions(c) == IupacSet(c[1]) \X IupacSet(c[2]) \X IupacSet(c[3])   \* c a triple of IUPAC letters
(* an ambiguous codon may be translated to aa only if EVERY expansion encodes aa *)
MayTranslate(c, aa) == \A x \in Expansions(c) : Code(x) = aa

CompBase(b) == CASE b = "A" -> "T" [] b = "T" -> "A" [] b = "C" -> "G" [] b = "G" -> "C"
CompSet(S) == {CompBase(b) : b \in S}
(* canonical letter of a base set: never "U" *)
LetterOf(S) == CHOOSE l \in IupacLetters \ {"U"} : IupacSet(l) = S
UpperOf(l) == CASE l = "a" -> "A" [] l = "c" -> "C" [] l = "g" -> "G" [] l = "t" -> "T" [] l = "u" -> "U"
                [] l = "r" -> "R" [] l = "y" -> "Y" [] l = "s" -> "S" [] l = "w" -> "W" [] l = "k" -> "K"
                [] l = "m" -> "M" [] l = "b" -> "B" [] l = "d" -> "D" [] l = "h" -> "H" [] l = "v" -> "V"
                [] l = "n" -> "N" [] OTHER -> l
LowerOf(l) == CASE l = "A" -> "a" [] l = "C" -> "c" [] l = "G" -> "g" [] l = "T" -> "t" [] l = "U" -> "u"
                [] l = "R" -> "r" [] l = "Y" -> "y" [] l = "S" -> "s" [] l = "W" -> "w" [] l = "K" -> "k"
                [] l = "M" -> "m" [] l = "B" -> "b" [] l = "D" -> "d" [] l = "H" -> "h" [] l = "V" -> "v"
                [] l = "N" -> "n" [] OTHER -> l
IsLower(l) == UpperOf(l) # l
(* IUPAC complement of any letter of any case; the gap is its own complement *)
Comp(l) == IF l = "-" THEN "-"
           ELSE LET u == UpperOf(l) c == LetterOf(CompSet(IupacSet(u))) IN IF IsLower(l) THEN LowerOf(c) ELSE c

AlphabetLetters(a) == CASE a = "NT_STRICT" -> {"A","C","G","T"}
                        [] a = "NT_EXTENDED" -> IupacLetters
                        [] a = "NT_STRICT_GAPPED" -> {"A","C","G","T","-"}
                        [] a = "NT_EXTENDED_GAPPED" -> IupacLetters \cup {"-"}
                        [] a = "NT_STRICT_UNKNOWN" -> {"A","C","G","T","N"}
NtAlphabets == {"NT_STRICT", "NT_EXTENDED", "NT_STRICT_GAPPED", "NT_EXTENDED_GAPPED", "NT_STRICT_UNKNOWN"}
AllCases(S) == S \cup {LowerOf(l) : l \in S}

(* frames, phases: integers 0..2 and NONE = -1 *)
Frames == {0, 1, 2}
NoneFP == -1
FrameToPhase(f) == IF f = NoneFP THEN NoneFP ELSE (3 - f) % 3
PhaseToFrame(p) == IF p = NoneFP THEN NoneFP ELSE (3 - p) % 3
ShiftFrame(f, n) == IF f = NoneFP THEN NoneFP ELSE (f + n) % 3      \* % is the mathematical modulus in TLA+

(* strands *)
Strands == {"+", "-", "."}
RevStrand(s) == CASE s = "+" -> "-" [] s = "-" -> "+" [] OTHER -> "."
RelStrand(a, b) == IF a = "." \/ b = "." THEN "." ELSE IF a = b THEN "+" ELSE "-"
StrandInt(s) == CASE s = "+" -> 1 [] s = "-" -> -1 [] OTHER -> 0

(* biotype synonym classes: names in one class share a value, all other names are pairwise distinct *)
BiotypeSynonyms == { {"protein_coding", "protein-coding", "mRNA"}, {"misc_RNA", "miscRNA"},
                     {"pseudogene", "pseudo"}, {"lncRNA", "lnc_RNA"} }
SameBiotype(a, b) == a = b \/ \E S \in BiotypeSynonyms : a \in S /\ b \in S

-----------------------------------------------------------------------------
(* Internal consistency of the tables (checked by TLC as assumptions) *)
ASSUME Cardinality(StrictCodons) = 64
ASSUME \A c \in StrictCodons : Code(c) \in AminoAcids
ASSUME Cardinality(AminoAcids) = 21
ASSUME StopCodons = {<<"T","A","A">>, <<"T","A","G">>, <<"T","G","A">>}
ASSUME UNION {Synonyms(aa) : aa \in AminoAcids} = StrictCodons
ASSUME \A a, b \in AminoAcids : a # b => Synonyms(a) \cap Synonyms(b) = {}
ASSUME StartCodons(1) = {<<"A","T","G">>, <<"T","T","G">>, <<"C","T","G">>}
ASSUME StartCodons(11) = StartCodons(1) \cup {<<"A","T","T">>, <<"A","T","C">>, <<"A","T","A">>, <<"G","T","G">>}
ASSUME \A l \in AllCases(IupacLetters) \ {"U", "u"} : Comp(Comp(l)) = l
ASSUME Comp("U") = "A" /\ Comp("u") = "a" /\ Comp("-") = "-"
ASSUME \A l \in IupacLetters : IupacSet(Comp(l)) = CompSet(IupacSet(l))
ASSUME \A f \in Frames \cup {NoneFP} : PhaseToFrame(FrameToPhase(f)) = f /\ FrameToPhase(PhaseToFrame(f)) = f
ASSUME \A f \in Frames : \A n \in -30..30 : ShiftFrame(ShiftFrame(f, n), -n) = f /\ ShiftFrame(f, n) \in Frames
ASSUME \A f \in Frames : \A n, m \in -9..9 : ShiftFrame(ShiftFrame(f, n), m) = ShiftFrame(f, n + m)
ASSUME \A s \in Strands : RevStrand(RevStrand(s)) = s
ASSUME \A a, b \in Strands : RelStrand(a, b) = RelStrand(b, a)
ASSUME \A a, b, c \in {"+", "-"} : RelStrand(RelStrand(a, b), c) = RelStrand(a, RelStrand(b, c))
ASSUME \A a \in {"+", "-"} : RelStrand(a, "+") = a /\ RelStrand(a, a) = "+" /\ RelStrand(a, "-") = RevStrand(a)
=============================================================================
