------------------------------- MODULE CollSim -------------------------------
(* Chained range queries at FULL bin scale (17, 3, 5), emitted for replay on real AnnotationCollections (direction A of
   C09 / C16).  Coordinates are drawn from the boundaries of the three finest bin levels (+-1) and a few interior
   points, so every behaviour is a boundary scenario; members are a gene with two isoforms (the second one possibly
   several bins away from the first, leaving an uncovered middle), a feature collection and a variant collection.
   Run with -simulate: along every simulated behaviour TLC also checks, at full scale, that the bin pre-filter as
   AnnotationCollection._query_by_position applies it never changes the answer (PrefilterNeverChangesTheAnswer). *)
EXTENDS Collection, Randomization
CONSTANTS D
VARIABLES coll, h, ok
vars == <<coll, h, ok>>
F == 17
N == 3
L == 5
B17 == 131072
B20 == 1048576
B23 == 8388608
Coords == {0, 1, 2, 70000, B17 - 1, B17, B17 + 1, 2 * B17 - 1, 2 * B17, 2 * B17 + 1, 3 * B17, 5 * B17 + 7,
           B20 - 1, B20, B20 + 1, B20 + B17, 2 * B20, B23 - 1, B23, B23 + 1, B23 + B17}
Top == 2 * B23
Spans == {p \in Coords \X Coords : p[1] < p[2]}
Near(p) == {q \in Spans : q[1] >= p[1] /\ q[2] <= p[2]}
(* a gene whose first isoform spans [s, m) and whose second isoform spans [t, e): the gene spans [s, e) *)
Gene(id, s, m, t, e, cdg) == <<id, "gene", s, e, cdg, {<<10 * id, s, m>>, <<10 * id + 1, t, e>>}>>
(* RandomElement is evaluated once per bound variable (a LET name would re-draw at every use) *)
Quads == {q \in Coords \X Coords \X Coords \X Coords : q[1] < q[2] /\ q[2] <= q[3] /\ q[3] < q[4]}
Init ==
  /\ \E g \in {RandomElement(Quads)} : \E f \in {RandomElement(Spans)} : \E g2 \in {RandomElement(Spans)} :
     \E v \in {RandomElement({p \in Spans : p[2] - p[1] <= 3} \cup {<<B17 - 1, B17 + 1>>})} :
     \E c1 \in {RandomElement(BOOLEAN)} : \E c2 \in {RandomElement(BOOLEAN)} :
     coll = <<0, Top, { Gene(1, g[1], g[2], g[3], g[4], c1),
                         <<2, "feature", f[1], f[2], FALSE, {<<20, f[1], f[2]>>}>>,
                         <<3, "variant", v[1], v[2], FALSE, {<<30, v[1], v[2]>>}>>,
                         <<4, "gene", g2[1], g2[2], c2, {<<40, g2[1], g2[2]>>}>> }>>
  /\ h = <<coll>> /\ ok = TRUE
ChildBin(x) == AlgoBin(F, N, L, x[2], x[3], 0)
AlgoMembers(c, qs, qe, codingOnly, cw) ==
  LET bs == IF cw /\ qs # 0 /\ qe # 0 THEN AlgoBinSet(F, N, L, qs, qe, 0) ELSE {} IN
  {m \in c[3] : /\ (codingOnly => MCoding(m))
                /\ (bs = {} \/ \E x \in MChildren(m) : ChildBin(x) \in bs)
                /\ Hit(m, qs, qe, cw)}
Query(qs, qe, codingOnly, cw, expand) ==
  /\ ValidRange(coll, qs, qe)
  /\ LET got == AlgoMembers(coll, qs, qe, codingOnly, cw)
         b == SemPositionBounds(coll, qs, qe, codingOnly, cw, expand) IN
     /\ ok' = (got = SemPositionMembers(coll, qs, qe, codingOnly, cw))
     /\ coll' = <<b[1], b[2], got>>
     /\ h' = Append(h, <<<<qs, qe, codingOnly, cw, expand>>, <<b[1], b[2], {MId(m) : m \in got}>>>>)
Next == \E q \in {RandomElement({p \in Spans : p[1] >= coll[1] /\ p[2] <= coll[2]} \cup {<<coll[1], coll[2]>>})} :
        \E co \in {RandomElement(BOOLEAN)} : \E cw \in {RandomElement(BOOLEAN)} : \E ex \in {RandomElement(BOOLEAN)} :
        Query(q[1], q[2], co, cw, ex)
Spec == Init /\ [][Next]_vars
PrefilterNeverChangesTheAnswer == ok
Emit == (Len(h) = D + 1 \/ (Len(h) > 1 /\ coll[3] = {})) => PrintT(<<"QCHAIN", h>>)
=============================================================================
