-------------------------------- MODULE Escape --------------------------------
(* GFF3 attribute escaping (property C11).  Text is a sequence of 1-character strings.  Enc percent-encodes the
   characters of the library's ENCODING_MAP (plus the comma for ID / Name / Parent); Dec is the generic percent
   decoder of a GFF3 reader restricted to the escapes that can occur. *)
EXTENDS Naturals, Sequences, SequencesExt
EscTable == [x \in {"\t", ";", "=", "\n", "\r", ">", " ", "%", ","} |->
               CASE x = "\t" -> <<"%", "0", "9">> [] x = ";" -> <<"%", "3", "B">> [] x = "=" -> <<"%", "3", "D">>
                 [] x = "\n" -> <<"%", "0", "A">> [] x = "\r" -> <<"%", "0", "D">> [] x = ">" -> <<"%", "3", "E">>
                 [] x = " " -> <<"%", "2", "0">> [] x = "%" -> <<"%", "2", "5">> [] x = "," -> <<"%", "2", "C">>]
Escaped(withComma) == IF withComma THEN DOMAIN EscTable ELSE DOMAIN EscTable \ {","}
EncChar(c, withComma) == IF c \in Escaped(withComma) THEN EscTable[c] ELSE <<c>>
Enc(s, withComma) == FlattenSeq([i \in DOMAIN s |-> EncChar(s[i], withComma)])
Unesc(a, b) == IF \E x \in DOMAIN EscTable : EscTable[x] = <<"%", a, b>>
               THEN CHOOSE x \in DOMAIN EscTable : EscTable[x] = <<"%", a, b>> ELSE "?"
RECURSIVE Dec(_)
Dec(t) == IF t = <<>> THEN <<>>
          ELSE IF t[1] = "%" /\ Len(t) >= 3 THEN <<Unesc(t[2], t[3])>> \o Dec(SubSeq(t, 4, Len(t)))
          ELSE <<t[1]>> \o Dec(Tail(t))
(* structural characters of column 9 never appear raw in an encoded key or value *)
Raw == {"\t", ";", "=", "\n", "\r"}
NoRaw(t) == \A i \in DOMAIN t : t[i] \notin Raw
=============================================================================
