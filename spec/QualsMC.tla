------------------------------- MODULE QualsMC -------------------------------
(* The priority pick as the library computes it: a left fold over the qualifiers IN INSERTION ORDER that keeps the
   best key seen so far.  Machine: keys are inserted one at a time in any order; invariant: the fold state names the
   key the order-free meaning (Quals!Pick) names.  Variant "rank0-unset" is the code as it stands ('not feature_key'
   treats rank 0 as 'nothing seen yet'); "overwrite" forgets to compare. *)
EXTENDS Quals, TLC
CONSTANTS Pool, MaxLen, Variant
VARIABLES q, bestKey, bestRank
vars == <<q, bestKey, bestRank>>
PoolDef == {"feature_name", "Standard_name", "name", "GENE", "gene_name", "label", "Operon", "xname", "gene_names", "note", "ID"}
Init == q = <<>> /\ bestKey = NONE /\ bestRank = -1
Unset == IF Variant = "rank0-unset" THEN bestRank <= 0 ELSE bestRank = -1
Insert(k) ==
  /\ Len(q) < MaxLen /\ \A i \in DOMAIN q : Canon(q[i][1]) # Canon(k) \/ Canon(k) = "-"
  /\ \A i \in DOMAIN q : q[i][1] # k
  /\ q' = Append(q, <<k, <<k>>>>)                \* the value of a key is the key's own spelling: distinct values
  /\ IF IsNameKey(k) /\ (Unset \/ Variant = "overwrite" \/ NameRank(Canon(k)) < bestRank)
     THEN bestKey' = k /\ bestRank' = NameRank(Canon(k))
     ELSE UNCHANGED <<bestKey, bestRank>>
Next == \E k \in Pool : Insert(k)
Spec == Init /\ [][Next]_vars
FoldIsOrderFree == bestKey = SemName(q)
(* the keyed C18 known finding: wrong only when a rank-0 key competes with a lower-priority key *)
WrongOnlyWithRankZero == (bestKey # SemName(q)) => \E i \in DOMAIN q : NameRank(Canon(q[i][1])) = 0
=============================================================================
