-------------------------------- MODULE Bins --------------------------------
(* UCSC genomic binning scheme (property C16; consumed by C09).
   Parametric in (F, N, L): first shift, next shift, number of levels.  Full scale = (17, 3, 5).
   Sem* = the meaning ("smallest standard bin that contains the interval", "no hiding");
   Algo* = the library's computation transcribed, including its named deviation StopNotDecremented. *)
EXTENDS Naturals, Integers, FiniteSets

Pow(b, k) == b ^ k
Shr(x, k) == x \div Pow(2, k)                    \* arithmetic shift = floor division (also for x = -1)
LevelShift(F, N, i) == F + N * (i - 1)            \* level 1 = finest
Offset(N, L, i) == (Pow(2, N * (L - i + 1)) - 1) \div (Pow(2, N) - 1)     \* first bin id of level i
MaxSize(F, N, L) == Pow(2, F + N * (L - 1))
Levels(L) == 1..L

(* ---- meaning ---- *)
BinLo(F, N, L, i, k) == k * Pow(2, LevelShift(F, N, i))
BinHi(F, N, L, i, k) == (k + 1) * Pow(2, LevelShift(F, N, i))
(* half-open [s, e) with s < e lies inside bin k of level i *)
Inside(F, N, L, i, k, s, e) == BinLo(F, N, L, i, k) <= s /\ e <= BinHi(F, N, L, i, k)
InRange(F, N, L, s, e) == 0 <= s /\ s <= e /\ e < MaxSize(F, N, L)
(* Kent's binFromRange: the finest level at which first and last base share a bin *)
SemLevel(F, N, L, s, e) == CHOOSE i \in Levels(L) :
    /\ Shr(s, LevelShift(F, N, i)) = Shr(e - 1, LevelShift(F, N, i))
    /\ \A j \in 1..(i - 1) : Shr(s, LevelShift(F, N, j)) # Shr(e - 1, LevelShift(F, N, j))
SemBin(F, N, L, s, e) == LET i == SemLevel(F, N, L, s, e) IN Offset(N, L, i) + Shr(s, LevelShift(F, N, i))
(* the level / index / range of a bin id *)
LevelOf(N, L, b) == CHOOSE i \in Levels(L) : Offset(N, L, i) <= b /\ (i = 1 \/ b < Offset(N, L, i - 1))

(* ---- the library's algorithm (util/bins.py), fmtOff = 0 for 'bed', 1 for 'gff' ---- *)
OutOfRange(F, N, L, start, stop) == start >= MaxSize(F, N, L) \/ stop >= MaxSize(F, N, L) \/ start < 0 \/ stop < 0
RECURSIVE AlgoBinFrom(_, _, _, _, _, _)
AlgoBinFrom(F, N, L, i, a, b) == IF a = b \/ i = L THEN Offset(N, L, i) + a
                                 ELSE AlgoBinFrom(F, N, L, i + 1, Shr(a, N), Shr(b, N))
(* StopNotDecremented: the exclusive end is shifted as is *)
AlgoBin(F, N, L, start, stop, fmtOff) ==
    IF OutOfRange(F, N, L, start, stop) THEN 1
    ELSE AlgoBinFrom(F, N, L, 1, Shr(start - fmtOff, F), Shr(stop, F))
AlgoBinSet(F, N, L, start, stop, fmtOff) ==
    IF OutOfRange(F, N, L, start, stop) THEN {1}
    ELSE {1} \cup UNION { LET sh == LevelShift(F, N, i) IN
                          {Offset(N, L, i) + k : k \in Shr(start - fmtOff, sh)..Shr(stop, sh)} : i \in Levels(L) }
(* the boundary family on which the assigned bin is not the smallest (known finding key) *)
EndOnBoundary(F, N, L, s, e) == s < e /\ AlgoBin(F, N, L, s, e, 0) # SemBin(F, N, L, s, e)

Overlaps(s, e, qs, qe) == s < qe /\ qs < e
Within(s, e, qs, qe) == qs <= s /\ e <= qe
=============================================================================
