------------------------------- MODULE LocSim -------------------------------
(* Behaviours of the LocMC calculator emitted for replay on the real Location classes (direction A of C01/C02):
   the history h records, for every step, the action with its arguments and the location the transcribed
   algorithm returns.  Run with -simulate: TLC evaluates the invariant Emit on every successor it generates, so every
   behaviour prefix of length D that it visits is printed.  Operands and sub-interval arguments are drawn with
   RandomElement (one candidate per action and step) to keep the branching of a simulation step small; every action
   of LocMC is used unchanged.
   The replay harness performs the same calls, in the same order, on real objects: every real step is judged by the
   trace specifications (Sem layer); agreement of the real result with the recorded Algo result is reported as model
   fidelity (it is what lets the exhaustive Algo = Sem theorems of LocMC speak about the code). *)
EXTENDS LocMC, Randomization
VARIABLE h
svars == <<cur, last, h>>
SimInit == /\ cur = RandomElement(Locs(K)) /\ last = <<"init">> /\ h = <<cur>>
SameStrand == {o \in Operands : St(o) = St(cur)}
(* each draw is bound by an existential over a singleton: RandomElement is evaluated once per bound variable *)
SimStep ==
  \E o \in {RandomElement(Operands)} : \E ms \in {RandomElement(BOOLEAN)} : \E rs \in {RandomElement({"+", "-"})} :
  \E a \in {RandomElement(0..LenLoc(cur))} : \E b \in {RandomElement(a..LenLoc(cur))} :
  \/ Sub(a, b, rs) \/ Optimize \/ OptimizeCombine \/ Gaps \/ Intersect(o, ms) \/ Minus(o, ms)
  \/ (SameStrand # {} /\ \E u \in {RandomElement(SameStrand)} : Union(u))
SimNext == SimStep /\ h' = Append(h, <<last', cur'>>)
SimSpec == SimInit /\ [][SimNext]_svars
Emit == (Len(h) = D + 1) => PrintT(<<"CHAIN", h>>)
=============================================================================
