------------------------------ MODULE VariantsMC ------------------------------
(* A location is carried onto the alternative haplotype by applying the variants one at a time (one Apply action per
   variant, as VariantIntervalCollection.lift_over_location does).  Invariant after the last variant: the location
   covers exactly the edited image of its reference bases, and reads the edited spliced sequence. *)
EXTENDS Variants, TLC
CONSTANTS G, MaxVars, Order
VARIABLES loc0, V, cur, k
vars == <<loc0, V, cur, k>>
Ref == [i \in 1..G |-> <<"A", "C", "G", "T">>[((i * 7) % 4) + 1]]
Alts == {<<>>, <<"T">>, <<"G", "A">>, <<"C", "C", "T">>}
OneVar == {v \in (0..G) \X (0..G) \X Alts : v[1] < v[2] /\ v[2] - v[1] <= 3}
Haplotypes == {<<v>> : v \in OneVar} \cup
              (IF MaxVars >= 2 THEN {<<v, w>> : v \in OneVar, w \in OneVar} \cap {h \in Seq(OneVar) : Len(h) = 2 /\ h[1][2] <= h[2][1]} ELSE {})
Layouts == {l \in LocsGK(G, 2) : (\A i \in DOMAIN l[1] : BLen(l[1][i]) > 0) /\ ~SelfOverlap(l)}
Init == /\ loc0 \in Layouts /\ V \in Haplotypes /\ Premise(loc0, V)
        /\ cur = loc0 /\ k = (IF Order = "right-to-left" THEN Len(V) ELSE 1)
Apply == /\ k \in DOMAIN V /\ ~IsEmptyLoc(cur)
         /\ cur' = (LET bs == SelectSeq([i \in DOMAIN cur[1] |-> AlgoBlock(cur[1][i], V[k])], LAMBDA x : x # <<>>)
                    IN IF bs = <<>> THEN EMPTY ELSE <<bs, St(cur)>>)
         /\ k' = (IF Order = "right-to-left" THEN k - 1 ELSE k + 1) /\ UNCHANGED <<loc0, V>>
Spec == Init /\ [][Apply]_vars
Finished == k \notin DOMAIN V \/ IsEmptyLoc(cur)
(* C13: edited image, for every haplotype of one variant and -- when applied right to left -- of two *)
EditedImage == (k \notin DOMAIN V) => PosSet(cur) = SemLiftPos(loc0, V)
SplicedIsEdited == (k \notin DOMAIN V /\ ~IsEmptyLoc(cur)) =>
                     Extract(<<NonEmptyBlocks(cur[1]), St(cur)>>, Alt(Ref, V)) = Extract(SemLiftLoc(loc0, V), Alt(Ref, V))
(* left-to-right application is right except on the keyed family *)
WrongOnlyWhenShiftingNonLast == (k \notin DOMAIN V /\ PosSet(cur) # SemLiftPos(loc0, V)) => ShiftingNonLast(V)
=============================================================================
