--------------------------------- MODULE Tx ---------------------------------
(* Chromosome / transcript / CDS coordinate systems of a transcript (property C06).
   A transcript is exons (a location without self-overlap) plus, when coding, a transcript-relative CDS interval
   [ca, cb).  Everything is a composition of the Loc maps. *)
EXTENDS CDS

TxBases(ex) == Bases(ex)
(* CDS blocks on the chromosome: each exon clipped to the chromosome span of the CDS bases *)
CdsBases(ex, ca, cb) == SubSeq(TxBases(ex), ca + 1, cb)
CdsLoc(ex, ca, cb) ==
  LET cbs == CdsBases(ex, ca, cb) lo == Min(Range(cbs)) hi == Max(Range(cbs)) + 1
      clipped == [i \in DOMAIN ex[1] |-> <<Max2(ex[1][i][1], lo), Min2(ex[1][i][2], hi)>>]
  IN <<SelectSeq(clipped, LAMBDA b : b[1] < b[2]), St(ex)>>
(* transcript-relative start of a CDS location given on the chromosome *)
CdsStartOnTx(ex, cds) == Min(Par2RelSet(ex, Bases(cds)[1]))
Utr5Bases(ex, ca) == SubSeq(TxBases(ex), 1, ca)
Utr3Bases(ex, cb) == SubSeq(TxBases(ex), cb + 1, LenLoc(ex))
IntronPos(ex) == SemGapsPos(ex)
=============================================================================
