------------------------------- MODULE SerialMC -------------------------------
(* The serialisation conversion graph (property C08) as a state machine.  A value travels between forms
   OBJ (live object), DICT (to_dict output), MODEL (marshmallow data model), PLAIN (JSON-able dump of the model),
   JSON (text), PICKLE (bytes); Rebuild re-creates the object from its content in another interpreter (another hash
   seed, another qualifier insertion order); Perturb changes one coordinate / strand / frame.
   content and guid are abstract class numbers: every action except Perturb must keep both, Perturb must change both.
   The history h is carried only to EMIT every route of length D for replay on the real classes (direction A). *)
EXTENDS Serial, TLC
CONSTANTS D, Variant
VARIABLES form, content, guid, h
vars == <<form, content, guid, h>>
Init == form = "OBJ" /\ content = 0 /\ guid = 0 /\ h = <<>>
Do(a) == /\ form = Edges[a][1] /\ form' = Edges[a][2] /\ h' = Append(h, a)
         /\ IF a = "Perturb" THEN content' = content + 1 /\ guid' = guid + 1
            ELSE IF Variant = "lossy-model" /\ a = "SchemaLoad" THEN content' = content /\ guid' = guid + 100
            ELSE UNCHANGED <<content, guid>>
Next == \E a \in Actions : Do(a)
Spec == Init /\ [][Next]_vars
Depth == Len(h) <= D
IdentifierIsFunctionOfContent == guid = content
RoundTripKeepsContent == [][\A a \in Actions \ {"Perturb"} : (h' = Append(h, a)) => (content' = content /\ guid' = guid)]_vars
PerturbChangesIdentifier == [][(h' = Append(h, "Perturb")) => guid' # guid]_vars
(* every complete route is printed once (run with -workers 1) *)
Emit == (Len(h) = D) => PrintT(<<"PATH", h>>)
=============================================================================
