-------------------------------- MODULE Serial --------------------------------
(* The serialisation conversion graph of BioCantor intervals and collections (property C08): forms and the public
   conversions between them.  Shared by the machine SerialMC and the replay judge C08Trace. *)
EXTENDS Naturals, Sequences
Forms == {"OBJ", "DICT", "MODEL", "PLAIN", "JSON", "PICKLE"}
(* action name -> <<from, to>> *)
Edges == [ToDict |-> <<"OBJ", "DICT">>, FromDict |-> <<"DICT", "OBJ">>, SchemaLoad |-> <<"DICT", "MODEL">>,
          FromObject |-> <<"OBJ", "MODEL">>, ToObject |-> <<"MODEL", "OBJ">>, SchemaDump |-> <<"MODEL", "PLAIN">>,
          PlainLoad |-> <<"PLAIN", "MODEL">>, JsonDumps |-> <<"PLAIN", "JSON">>, JsonLoads |-> <<"JSON", "PLAIN">>,
          Pickle |-> <<"OBJ", "PICKLE">>, Unpickle |-> <<"PICKLE", "OBJ">>, Rebuild |-> <<"OBJ", "OBJ">>,
          Perturb |-> <<"OBJ", "OBJ">>,
          \* a GFF3 / qualifier export of the object (with parent qualifiers that share its keys): a read
          Export |-> <<"OBJ", "OBJ">>]
Actions == DOMAIN Edges
=============================================================================
