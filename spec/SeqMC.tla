-------------------------------- MODULE SeqMC --------------------------------
(* Calculator machine for Sequence objects that record a location on a root sequence.  The abstract state is
   (chars, bases, minus): the characters held, the root positions they were read from (5'->3'), and whether they
   were read on the minus strand.  Actions = Slice / ReverseComplement / Append / ExtractBlock; invariant = the
   characters are the base-by-base image of the recorded positions. *)
EXTENDS SeqAlg, TLC
CONSTANTS Root, D, Variant
VARIABLES chars, bases, minus
vars == <<chars, bases, minus>>
RootDef == <<"A", "c", "R", "-", "T", "n", "G">>     \* mixed case, IUPAC, gap
G == Len(Root)
Runs == {<<s, e>> \in (0..G) \X (0..G) : s < e}
RunBases(r, m) == IF m THEN [i \in 1..(r[2] - r[1]) |-> r[2] - i] ELSE [i \in 1..(r[2] - r[1]) |-> r[1] + i - 1]
Init == \E r \in Runs : \E m \in BOOLEAN : bases = RunBases(r, m) /\ minus = m /\ chars = CharsOf(bases, m, Root)
Slice(a, b) == /\ 0 <= a /\ a <= b /\ b <= Len(chars)
               /\ chars' = SubSeq(chars, a + 1, b) /\ bases' = SubSeq(bases, a + 1, b) /\ UNCHANGED minus
RevComp == /\ chars' = RevCompSeq(chars)
           /\ bases' = (IF Variant = "revcomp-keeps-order" THEN bases ELSE Reverse(bases)) /\ minus' = ~minus
(* append a freshly extracted run that continues in 5'->3' direction without overlap *)
AppendRun(r) == /\ bases # <<>>
             /\ (IF minus THEN r[2] <= bases[Len(bases)] ELSE r[1] > bases[Len(bases)])
             /\ bases' = bases \o RunBases(r, minus) /\ chars' = chars \o CharsOf(RunBases(r, minus), minus, Root)
             /\ UNCHANGED minus
Next == (\E a, b \in 0..G : Slice(a, b)) \/ RevComp \/ (\E r \in Runs : AppendRun(r))
Spec == Init /\ [][Next]_vars
Depth == TLCGet("level") <= D
(* C03 *)
Consistent == chars = CharsOf(bases, minus, Root)
Directed == \A i \in 1..(Len(bases) - 1) : IF minus THEN bases[i] > bases[i + 1] ELSE bases[i] < bases[i + 1]
RevCompTwice == [][RevComp => RevCompSeq(chars') = [i \in DOMAIN chars |->
                     IF chars[i] \in {"U", "u"} THEN (IF chars[i] = "U" THEN "T" ELSE "t") ELSE chars[i]]]_vars
(* splitting a location splits its sequence: checked on every state for every cut *)
SplitLaw == \A k \in 0..Len(bases) : CharsOf(SubSeq(bases, 1, k), minus, Root) \o CharsOf(SubSeq(bases, k + 1, Len(bases)), minus, Root) = chars
=============================================================================
