------------------------------ MODULE GffParse ------------------------------
(* The default GFF3 READER (io/gff3/parser.py: default_parse_func, _parse_genes, _parse_features,
   _convert_features_to_transcript) on files it did not write itself -- growth of the specification beyond the listed
   properties (the listed C11 only speaks about files the library exported).  Transcribed from the parser and its
   docstrings ("NCBI style: {gene,pseudogene} -> {mRNA, tRNA, ...} -> {exon, CDS}; Ensembl/GENCODE style: gene ->
   transcript -> {exon, CDS}"; "direct CDS/exon descendants are allowed, but they will all become one transcript"; "this
   gene was totally isolated: infer a transcript"; "found only CDS and no exons: treat CDS as exon"; "anything that cannot be
   interpreted as a gene" is a feature collection whose children are combined into ONE feature interval).

   A file is a sequence of rows  <<id, parent (0 = none), type, start, end, strand, phase (-1 = ".")>>  in GFF3's own
   1-based inclusive coordinates, about ONE locus whose top-level row is rows[1]; bio is the gene_biotype attribute of
   that row ("" = absent).  Parse(rows, bio) is what the reader returns, as
       <<"gene", coding biotype?, {transcripts}>>   transcript = <<exon blocks, CDS blocks, frames, strand>>
       <<"fc", type, <<blocks, strand, {child types}>>>>
       <<"refuse", exception>>
   with blocks 0-based half-open, sorted.  *)
EXTENDS Naturals, Integers, Sequences, FiniteSets, SequencesExt, FiniteSetsExt
RecognisedTx == {"mRNA", "transcript", "tRNA"}          \* names the library's Biotype enumeration knows
KnownBio == {"protein_coding", "tRNA"}
GeneTops == {"gene", "pseudogene", "CDS"}
Blk(r) == <<r[4] - 1, r[5]>>
BLess(a, b) == a[1] < b[1] \/ (a[1] = b[1] /\ a[2] < b[2])
SortBlocks(S) == SetToSortSeq(S, BLess)
Kids(rows, id, ty) == {i \in DOMAIN rows : rows[i][2] = id /\ rows[i][3] = ty}
BlocksOf(rows, I) == SortBlocks({Blk(rows[i]) : i \in I})
SumLen(bs) == FoldLeft(LAMBDA acc, b : acc + (b[2] - b[1]), 0, bs)
(* frames: from the phase column (frame = (3 - phase) mod 3) -- but ONE "." among the CDS rows of a transcript makes the
   reader infer ALL frames of that transcript from the block lengths, 5' -> 3' *)
FrameOfPhase(p) == (3 - p) % 3
InferredFrames(bs, strand) ==
  [k \in DOMAIN bs |->
     IF strand = "-" THEN SumLen(SubSeq(bs, k + 1, Len(bs))) % 3 ELSE SumLen(SubSeq(bs, 1, k - 1)) % 3]
PhaseOfBlock(rows, I, b) == LET i == CHOOSE i \in I : Blk(rows[i]) = b IN rows[i][7]
Frames(rows, I, strand) ==
  LET bs == BlocksOf(rows, I) IN
  IF \E i \in I : rows[i][7] < 0 THEN InferredFrames(bs, strand)
  ELSE [k \in DOMAIN bs |-> FrameOfPhase(PhaseOfBlock(rows, I, bs[k]))]
(* one transcript from exon rows E and CDS rows C ("no exons: the CDS rows are the exons") *)
Tx(rows, E, C, strand) ==
  <<BlocksOf(rows, IF E = {} THEN C ELSE E), BlocksOf(rows, C), IF C = {} THEN <<>> ELSE Frames(rows, C, strand), strand>>
GeneBio(rows, bio) == IF bio \in KnownBio THEN bio
                      ELSE IF bio = "" /\ rows[1][3] = "CDS" THEN "protein_coding" ELSE "none"
TxRows(rows) == {i \in DOMAIN rows : i > 1 /\ rows[i][2] = rows[1][1] /\ rows[i][3] \in RecognisedTx}
TxOfRow(rows, t) ==
  LET E == Kids(rows, rows[t][1], "exon") C == Kids(rows, rows[t][1], "CDS") IN
  \* a transcript row without exon / CDS rows of its own is its own single exon (fix 5f2b61b; IndexError before)
  IF E = {} /\ C = {} THEN Tx(rows, {t}, {}, rows[t][6]) ELSE Tx(rows, E, C, rows[t][6])
(* a row whose end lies before its start (the machine writes such a row only as the sole exon row of its parent): the
   transcript built from it is refused (fix f64a9a7: GFF3ParserError; an AssertionError before) *)
HasReversedExon(rows) == \E i \in DOMAIN rows : rows[i][3] = "exon" /\ rows[i][4] > rows[i][5]
                                                 /\ (rows[i][2] = rows[1][1] \/ \E t \in TxRows(rows) : rows[t][1] = rows[i][2])
ParseGene(rows, bio) ==
  IF HasReversedExon(rows) THEN <<"refuse", "GFF3ParserError">> ELSE
  LET top == rows[1]
      dE == Kids(rows, top[1], "exon") dC == Kids(rows, top[1], "CDS")
      fromRows == [t \in TxRows(rows) |-> TxOfRow(rows, t)]
      direct == IF dE # {} \/ dC # {} THEN {Tx(rows, dE, dC, top[6])} ELSE {}
      listed == {<<rows[t][1], fromRows[t]>> : t \in TxRows(rows)}          \* keyed by row: two rows may describe equal transcripts
      n == Cardinality(listed) + Cardinality(direct) IN
  IF n = 0
  THEN <<"gene", GeneBio(rows, bio), {<<0, Tx(rows, {1}, IF GeneBio(rows, bio) = "protein_coding" THEN {1} ELSE {}, top[6])>>}>>
  ELSE <<"gene", GeneBio(rows, bio), listed \cup {<<0, d>> : d \in direct}>>
(* features: the children (level 1) are combined into one interval; starts and ends are sorted SEPARATELY *)
ParseFeature(rows) ==
  LET top == rows[1] K == {i \in DOMAIN rows : i > 1 /\ rows[i][2] = top[1]} IN
  IF K = {} THEN <<"fc", top[3], <<<<Blk(top)>>, top[6], {top[3]}>>>>
  ELSE IF Cardinality({rows[i][6] : i \in K}) > 1 THEN <<"refuse", "GFF3ChildParentMismatchError">>
  ELSE LET ss == SetToSortSeq({Blk(rows[i])[1] : i \in K}, <) es == SetToSortSeq({Blk(rows[i])[2] : i \in K}, <)
           st == rows[CHOOSE i \in K : TRUE][6] IN
       \* equal starts / ends collapse in the sets above only when two children are the same block: excluded by the machine
       <<"fc", top[3], <<[k \in DOMAIN ss |-> <<ss[k], es[k]>>], st, {rows[i][3] : i \in K}>>>>
Parse(rows, bio) == IF rows[1][3] \in GeneTops THEN ParseGene(rows, bio) ELSE ParseFeature(rows)

(* a parsed transcript becomes an interval object when its CDS lies within the SPAN of its exons: that is the rule the
   TranscriptInterval constructor documents ("CDS start must be greater than or equal to exon start", "CDS end must be
   less than or equal to exon end").  Observation recorded in DESIGN: a CDS block that lies in an intron is accepted. *)
TxConvertible(tx) == tx[2] = <<>> \/ (tx[2][1][1] >= tx[1][1][1] /\ tx[2][Len(tx[2])][2] <= tx[1][Len(tx[1])][2])
=============================================================================
