------------------------------ MODULE TablesMC ------------------------------
(* State machine over the enumerated algebras: a (frame, strand, letter) cursor driven by the public
   operations CDSFrame.shift / to_phase / Strand.reverse / relative_to / complement.  TLC checks the
   modular / group laws as invariants and action properties over every reachable combination. *)
EXTENDS Tables
CONSTANT MaxShift, Variant   \* Variant = "code" | "mutant" (negative control)
VARIABLES frame, net, strand, flips, letter, comps

vars == <<frame, net, strand, flips, letter, comps>>
Init == /\ frame \in Frames /\ net = frame /\ strand \in {"+", "-"} /\ flips = 0
        /\ letter \in AllCases(IupacLetters) \ {"U", "u"} /\ comps = 0

(* the code's arithmetic, transcribed: positive shifts and non-positive shifts take different branches *)
AlgoShift(f, n) == IF f = NoneFP THEN f
                   ELSE IF n > 0 THEN (f + n) % 3
                   ELSE IF Variant = "mutant" THEN (f - n) % 3                 \* sign slip on the non-positive branch
                   ELSE (f - (n - ((-n) % 3))) % 3
Shift(n) == /\ frame' = AlgoShift(frame, n) /\ net' = net + n
            /\ UNCHANGED <<strand, flips, letter, comps>>
Reverse == /\ strand' = RevStrand(strand) /\ flips' = 1 - flips /\ UNCHANGED <<frame, net, letter, comps>>
Complement == /\ letter' = Comp(letter) /\ comps' = 1 - comps /\ UNCHANGED <<frame, net, strand, flips>>
Next == (\E n \in -MaxShift..MaxShift : Shift(n)) \/ Reverse \/ Complement
Spec == Init /\ [][Next]_vars

Bound == net \in -40..40
FrameIsNetMod3 == frame = net % 3
ShiftLaw == [][\A n \in -MaxShift..MaxShift : Shift(n) => frame' = ShiftFrame(frame, n)]_vars
TypeOK == frame \in Frames /\ strand \in {"+", "-"} /\ letter \in AllCases(IupacLetters)
StrandInvolution == [][Reverse => (strand' # strand /\ RevStrand(strand') = strand)]_vars
LetterInvolution == [][Complement => Comp(letter') = letter]_vars
=============================================================================
