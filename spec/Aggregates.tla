------------------------------ MODULE Aggregates ------------------------------
(* Gene / feature-collection aggregates as functions of the children (property C20).
   A child summary is <<cdsLen, splicedLen, flag>> with flag in {TRUE, FALSE} (flagged primary by the data source). *)
EXTENDS Loc

Flagged(ch) == {i \in DOMAIN ch : ch[i][3]}
(* the documented rule: the flagged child (several flags = error) else longest CDS, then longest spliced length,
   then earliest in the list *)
Better(ch, i, j) == \/ ch[i][1] > ch[j][1]
                    \/ ch[i][1] = ch[j][1] /\ ch[i][2] > ch[j][2]
                    \/ ch[i][1] = ch[j][1] /\ ch[i][2] = ch[j][2] /\ i < j
SemPrimary(ch) == IF Cardinality(Flagged(ch)) = 1 THEN CHOOSE i \in Flagged(ch) : TRUE
                  ELSE CHOOSE i \in DOMAIN ch : \A j \in DOMAIN ch : j = i \/ Better(ch, i, j)
PrimaryIsError(ch) == Cardinality(Flagged(ch)) > 1
(* span and merged blocks of a list of locations *)
SpanStart(locs) == Min({MinStart(locs[i]) : i \in DOMAIN locs})
SpanEnd(locs) == Max({MaxEnd(locs[i]) : i \in DOMAIN locs})
UnionPos(locs) == UNION {PosSet(locs[i]) : i \in DOMAIN locs}
=============================================================================
