"""Common machinery: TLC invocation (model checking + batch trace validation), findings, evidence.

Exit codes of a check: 0 = property held on everything explored, 1 = VIOLATION printed,
2 = machinery failure (TLC crash, a control that should fail but passes, shim mismatch...).
"""
import concurrent.futures as cf
import json
import os
import re
import shutil
import subprocess
import sys
import time

VERIF = os.path.dirname(os.path.dirname(os.path.dirname(os.path.abspath(__file__))))
SPEC = os.path.join(VERIF, "spec")
# BCVERIF_OUT (default: /verif) receives build/, evidence/ and replays/ -- the registered commands never set it; it lets
# tools/try_seed.sh judge a scratch worktree (BCVERIF_REPO) without touching /repo or the committed evidence
OUT = os.environ.get("BCVERIF_OUT", VERIF)
BUILD = os.path.join(OUT, "build")
REPO = os.environ.get("BCVERIF_REPO", "/repo")
TLA_JAR = "/opt/veriftools/tla/tla2tools.jar"
NCPU = os.cpu_count() or 4


class MachineryError(Exception):
    pass


def _java_cmd(extra_props=()):
    # Same classpath the `tlc` wrapper uses (CommunityModules included).
    cp = os.environ.get("BCVERIF_TLA_CP")
    if not cp:
        cands = [TLA_JAR]
        d = os.path.dirname(TLA_JAR)
        for f in sorted(os.listdir(d)):
            if f.endswith(".jar") and f != os.path.basename(TLA_JAR):
                cands.append(os.path.join(d, f))
        cp = ":".join(cands)
    return ["java", "-Xss64m", "-XX:+UseParallelGC", *extra_props, "-cp", cp, "tlc2.TLC"]


def _stage(workdir, modules):
    """Copy spec modules into the working directory (TLC resolves EXTENDS relative to it)."""
    os.makedirs(workdir, exist_ok=True)
    for root in (SPEC, os.path.join(SPEC, "trace"), os.path.join(SPEC, "mc")):
        if not os.path.isdir(root):
            continue
        for f in os.listdir(root):
            if f.endswith(".tla") or f.endswith(".cfg"):
                shutil.copy(os.path.join(root, f), os.path.join(workdir, f))


_RE_STATES = re.compile(r"(\d+) states generated, (\d+) distinct states found")
_RE_DEPTH = re.compile(r"The depth of the complete state graph search is (\d+)")


def run_tlc(workdir, module, cfg=None, workers=NCPU, env=None, timeout=3600, simulate=None, extra=(), heap=None,
            deque=False):
    """Run TLC once.  Returns dict(out, rc, generated, distinct, depth, violated, error)."""
    import uuid

    meta = os.path.join(workdir, "meta_" + module + "_" + uuid.uuid4().hex[:12])
    shutil.rmtree(meta, ignore_errors=True)
    props = []
    if heap:
        props.append("-Xmx" + heap)
    if deque:
        props.append("-Dtlc2.tool.queue.IStateQueue=StateDeque")
    if workers == 1:
        props += ["-XX:ParallelGCThreads=2", "-XX:CICompilerCount=2", "-XX:TieredStopAtLevel=1"]
    cmd = _java_cmd(props) + ["-workers", str(workers), "-metadir", meta, "-noGenerateSpecTE"]
    if cfg:
        cmd += ["-config", cfg]
    if simulate:
        cmd += ["-simulate", simulate]
    cmd += list(extra) + [module + ".tla"]
    e = dict(os.environ)
    e.pop("JAVA_TOOL_OPTIONS", None)
    if env:
        e.update(env)
    t0 = time.time()
    try:
        p = subprocess.run(cmd, cwd=workdir, env=e, stdout=subprocess.PIPE, stderr=subprocess.STDOUT, timeout=timeout,
                           text=True)
        out, rc = p.stdout, p.returncode
    except subprocess.TimeoutExpired as ex:
        out = (ex.stdout or "") if isinstance(ex.stdout, str) else (ex.stdout or b"").decode("utf8", "replace")
        rc = -9
    shutil.rmtree(meta, ignore_errors=True)
    res = {"out": out, "rc": rc, "wall": time.time() - t0, "generated": 0, "distinct": 0, "depth": 0}
    m = None
    for m in _RE_STATES.finditer(out):
        pass
    if m:
        res["generated"], res["distinct"] = int(m.group(1)), int(m.group(2))
    m = _RE_DEPTH.search(out)
    if m:
        res["depth"] = int(m.group(1))
    res["violated"] = ("is violated" in out) or ("Error: Invariant" in out) or ("Error: Action property" in out) \
        or ("Assumption" in out and "is false" in out) or ("Error: Deadlock reached" in out)
    res["error"] = (rc not in (0, 12, 13)) and not res["violated"] or ("Error: " in out and not res["violated"]) \
        or ("Exception" in out and "Error:" in out and not res["violated"])
    res["completed"] = "Model checking completed. No error has been found." in out or \
        ("Finished in" in out and not res["violated"] and "Error:" not in out)
    return res


_RE_PRINT = re.compile(r'^<<"(BAD|DONE|CERT|INFO)"(.*)>>\s*$')


def _parse_tla_value(s):
    """Parse the restricted TLA+ value syntax TLC prints for tuples of ints/strings/bools/tuples/sets."""
    s = s.strip()
    pos = 0

    def ws():
        nonlocal pos
        while pos < len(s) and s[pos] in " \n\t":
            pos += 1

    def val():
        nonlocal pos
        ws()
        if s.startswith("<<", pos):
            pos += 2
            items = []
            ws()
            if s.startswith(">>", pos):
                pos += 2
                return items
            while True:
                items.append(val())
                ws()
                if s.startswith(">>", pos):
                    pos += 2
                    return items
                assert s[pos] == ",", (s, pos)
                pos += 1
        if s[pos] == "{":
            pos += 1
            items = []
            ws()
            if s[pos] == "}":
                pos += 1
                return items
            while True:
                items.append(val())
                ws()
                if s[pos] == "}":
                    pos += 1
                    return items
                assert s[pos] == ",", (s, pos)
                pos += 1
        if s[pos] == '"':
            j = pos + 1
            buf = []
            while s[j] != '"':
                if s[j] == "\\":
                    j += 1
                buf.append(s[j])
                j += 1
            pos = j + 1
            return "".join(buf)
        m = re.match(r"-?\d+", s[pos:])
        if m:
            pos += m.end()
            return int(m.group(0))
        for lit, v in (("TRUE", True), ("FALSE", False)):
            if s.startswith(lit, pos):
                pos += len(lit)
                return v
        raise ValueError("cannot parse TLA value at %d: %r" % (pos, s[pos:pos + 40]))

    v = val()
    return v


def parse_prints(out, tag):
    """All values TLC printed with PrintT(<<tag, ...>>), possibly wrapped over several lines (bracket matching)."""
    vals, buf = [], None
    heads = ('<<"%s"' % tag, '<< "%s"' % tag)
    for line in out.splitlines():
        t = line.strip()
        if buf is None:
            if t.startswith(heads):
                buf = t
        else:
            buf += " " + t
        if buf is not None and buf.count("<<") == buf.count(">>"):
            vals.append(_parse_tla_value(buf)[1:])
            buf = None
    return vals


def _validate_shard(args):
    workdir, module, path, n, env, timeout, cfgname = args[:7]
    e = {"TRACE_FILE": path}
    if env:
        e.update(env)
    r = run_tlc(workdir, module, cfg=os.path.join(workdir, cfgname or "Empty.cfg"), workers=1, env=e, timeout=timeout, heap="3g")
    bad, done, cert, info = [], None, [], []
    for line in r["out"].splitlines():
        m = _RE_PRINT.match(line.strip())
        if not m:
            continue
        v = _parse_tla_value(line.strip())
        if v[0] == "BAD":
            bad.append((v[1], v[2], v[3:] if len(v) > 3 else None))
        elif v[0] == "DONE":
            done = v[1:]
        elif v[0] == "CERT":
            cert.append(v[1:])
        elif v[0] == "INFO":
            info.append(v[1:])
    if done is None and cfgname is None and _is_eval_error(r["out"]) and not args[-1:] == ("nobisect",):
        # An event whose recorded answer the specification cannot even EVALUATE (an index outside a sequence, a record
        # field that is not there) is not a behaviour the specification allows: find it by bisection and reject it, so
        # that the other events of the shard are still judged and the verdict is total.
        return _bisect_unevaluable(workdir, module, path, n, env, timeout)
    if done is None or done[0] != n:
        raise MachineryError("TLC trace validation did not complete for %s (%s):\n%s" % (path, module, r["out"][-3000:]))
    if done[1] != len(bad):
        raise MachineryError("TLC bad-count mismatch for %s" % path)
    return {"bad": bad, "cert": cert, "info": info, "wall": r["wall"]}


def _is_eval_error(out):
    return ("Error: Evaluating assumption" in out or "Error: Evaluating invariant" in out) and "OutOfMemory" not in out \
        and "java.lang.StackOverflow" not in out


UNEVALUABLE = "answer-outside-the-domain-of-the-specification"


def _bisect_unevaluable(workdir, module, path, n, env, timeout, cap=6):
    with open(path) as f:
        lines = f.readlines()
    bad, info, found = [], [], []

    def judge(lo, hi, depth):
        sub = "%s.bis_%d_%d" % (path, lo, hi)
        with open(sub, "w") as f:
            f.writelines(lines[lo:hi])
        try:
            res = _validate_shard((workdir, module, sub, hi - lo, env, timeout, None, "nobisect"))
        except MachineryError as ex:
            if not _is_eval_error(str(ex)):
                raise
            res = None
        finally:
            try:
                os.unlink(sub)
            except OSError:
                pass
        if res is not None:
            bad.extend((lo + i, cl, more) for (i, cl, more) in res["bad"])
            info.extend(res["info"])
            return
        if hi - lo == 1:
            found.append(lo)
            bad.append((lo + 1, UNEVALUABLE, None))
            return
        if len(found) >= cap:
            # enough is known to reject the run; the rest of this part is reported as one more unevaluable stretch
            bad.append((lo + 1, UNEVALUABLE, None))
            return
        mid = (lo + hi) // 2
        judge(lo, mid, depth + 1)
        judge(mid, hi, depth + 1)

    judge(0, len(lines), 0)
    bad.sort(key=lambda b: b[0])
    return {"bad": bad, "cert": [], "info": info, "wall": 0.0}


def _within(tree, node):
    if tree is node:
        return True
    return isinstance(tree, list) and any(_within(c, node) for c in tree)


def _corrupt_event(ev, rnd):
    """A copy of `ev` with ONE observed scalar changed (binding control): prefer a leaf inside an outcome ["v", ...];
    bools are flipped, ints shifted by one, nucleotide letters rotated.  Returns None when nothing can be changed."""
    import copy

    ev2 = copy.deepcopy(ev)
    inside, anywhere = [], []

    def walk(node, in_v, depth):
        if not isinstance(node, list):
            return
        iv = in_v or (len(node) >= 1 and node[0] == "v")
        for i, c in enumerate(node):
            if isinstance(c, list):
                walk(c, iv, depth + 1)
            elif isinstance(c, bool) or (isinstance(c, int) and not isinstance(c, bool)) or (
                    isinstance(c, str) and c in ("A", "C", "G", "T")):
                if depth == 0 and i == 0:
                    continue
                (inside if iv else anywhere).append((node, i))

    walk(ev2, False, 0)
    if not inside and anywhere:
        # no ["v", ...] outcome in this event shape: results are, by convention, the last fields of the event
        for j in range(len(ev2) - 1, 0, -1):
            last = [(nd, i) for (nd, i) in anywhere if (nd is ev2 and i == j) or (nd is not ev2 and _within(ev2[j], nd))]
            if last:
                anywhere = last
                break
    cands = inside or anywhere
    if not cands:
        return None
    node, i = rnd.choice(cands)
    c = node[i]
    if isinstance(c, bool):
        node[i] = not c
    elif isinstance(c, int):
        node[i] = c + 1
    else:
        node[i] = {"A": "C", "C": "G", "G": "T", "T": "A"}[c]
    return ev2


class Check:
    """One run of one property's check."""

    def __init__(self, pid, tier, seed):
        self.pid, self.tier, self.seed = pid, tier, seed
        self.t0 = time.time()
        self.dir = os.path.join(BUILD, pid)
        shutil.rmtree(self.dir, ignore_errors=True)
        shutil.rmtree(os.path.join(OUT, "replays", pid), ignore_errors=True)
        os.makedirs(self.dir, exist_ok=True)
        open(os.path.join(self.dir, "Empty.cfg"), "w").close()
        _stage(self.dir, None)
        self.states = 0
        self.transitions = 0
        self.mc_runs = []
        self.events = 0
        self.traces = 0
        self.samples = []
        self.violations = []  # (key, text, replay)
        self.known_hits = {}
        self.extra = {}
        self.assumptions = []
        self.trusted = []
        self.nontrivial = 0
        self.exhaustive = None
        self.controls = []
        self._findings = _load_findings()
        self._shard_no = 0
        self.quick = tier == "quick"

    # ---------------------------------------------------------------- model checking of the spec
    def mc(self, module, cfg, expect_violation=False, workers=NCPU, timeout=3000, simulate=None, note="", extra=(),
           env=None):
        # thorough tier: a deeper configuration of the same machine, when one is provided (<name>_thorough.cfg), is
        # checked IN ADDITION to the standard one (behaviour emission for replay keeps the standard configuration)
        deep = cfg[:-4] + "_thorough.cfg"
        if self.tier == "thorough" and not expect_violation and not simulate and os.path.exists(
                os.path.join(self.dir, deep)) and not getattr(self, "_in_deep", False):
            self._in_deep = True
            try:
                self.mc(module, deep, workers=NCPU, timeout=7200, note="thorough tier: deeper constants; " + note, env=env)
            finally:
                self._in_deep = False
        r = run_tlc(self.dir, module, cfg=os.path.join(self.dir, cfg), workers=workers, timeout=timeout,
                    simulate=simulate, extra=extra, heap="12g", env=env)
        rec = {"module": module, "cfg": cfg, "generated": r["generated"], "distinct": r["distinct"],
               "depth": r["depth"], "wall_s": round(r["wall"], 1), "note": note}
        if expect_violation:
            rec["control"] = True
            rec["refuted"] = bool(r["violated"])
            self.controls.append(rec)
            if not r["violated"]:
                self._dump("mc_%s_%s.out" % (module, cfg), r["out"])
                raise MachineryError("negative control %s/%s was NOT refuted by TLC" % (module, cfg))
            return r
        self.mc_runs.append(rec)
        if r["violated"] or r["error"] or (not simulate and not r["completed"]):
            self._dump("mc_%s_%s.out" % (module, cfg), r["out"])
            raise MachineryError("TLC failed on spec %s/%s (rc=%s): see %s\n%s" % (
                module, cfg, r["rc"], self.dir, r["out"][-2500:]))
        self.states += max(r["distinct"], 0)
        self.transitions += max(r["generated"], 0)
        return r

    def _dump(self, name, text):
        with open(os.path.join(self.dir, name), "w") as f:
            f.write(text)

    # ---------------------------------------------------------------- batch trace validation (code -> spec)
    def validate(self, module, events, shard=4000, env=None, timeout=3000, label="", keyfn=None, describe=None,
                 cfg=None, corrupt=None, align=None):
        """events: list of JSON-able arrays.  Returns list of (event, clause).  Violations are registered."""
        if not events:
            return []
        jobs = []
        tdir = os.path.join(self.dir, "traces")
        os.makedirs(tdir, exist_ok=True)
        cuts = list(range(0, len(events), shard))
        if align is not None:
            # stepped traces: a shard must start at the first event of an object's history
            cuts = [0]
            while cuts[-1] + shard < len(events):
                j = cuts[-1] + shard
                while j < len(events) and not align(events[j]):
                    j += 1
                if j >= len(events):
                    break
                cuts.append(j)
        for ci, off in enumerate(cuts):
            chunk = events[off:(cuts[ci + 1] if ci + 1 < len(cuts) else len(events))]
            self._shard_no += 1
            path = os.path.join(tdir, "%s_%s_%05d.ndjson" % (module, label or "t", self._shard_no))
            with open(path, "w") as f:
                for ev in chunk:
                    f.write(json.dumps(ev, separators=(",", ":")))
                    f.write("\n")
            jobs.append((off, (self.dir, module, path, len(chunk), env, timeout, cfg)))
        bad_all = []
        certs = []
        infos = []
        with cf.ThreadPoolExecutor(max_workers=NCPU) as ex:
            futs = {ex.submit(_validate_shard, a): off for off, a in jobs}
            for fu in cf.as_completed(futs):
                off = futs[fu]
                res = fu.result()
                for (i, clause, more) in res["bad"]:
                    bad_all.append((off + i - 1, clause))
                for c in res["cert"]:
                    certs.append(c)
                for c in res["info"]:
                    infos.append((off, c))
        self.events += len(events)
        self.traces += len(jobs)
        if len(self.samples) < 6:
            self.samples.append({"trace_module": module, "label": label, "event": events[0]})
            if len(events) > 1:
                self.samples.append({"trace_module": module, "label": label, "event": events[len(events) // 2]})
        bad_all.sort()
        out = []
        for idx, clause in bad_all:
            ev = events[idx]
            out.append((ev, clause))
            key = keyfn(ev, clause) if keyfn else None
            self.report(module, ev, clause, key, describe)
        self.last_certs = certs
        self.last_info = infos
        self._binding_control(module, events, {i for i, _ in bad_all}, env, timeout, cfg, label, corrupt=corrupt)
        return out

    def _binding_control(self, module, events, bad_idx, env, timeout, cfg, label, n=24, corrupt=None):
        """Binding demonstration: accepted events with one observed scalar corrupted must be rejected by the same trace
        specification.  A specification that accepts every corrupted event constrains nothing: machinery failure."""
        import random as _random

        rnd = _random.Random(self.seed * 7919 + len(events))
        ok_idx = [i for i in range(len(events)) if i not in bad_idx and not (events[i] and events[i][0] in ("cert", "certpairs"))]
        if len(ok_idx) < 4:
            return
        rec = self.extra.setdefault("binding_control", {})
        for attempt in range(3):
            picks = rnd.sample(ok_idx, min(n, len(ok_idx)))
            import copy as _copy

            cfn = (lambda e, r: corrupt(_copy.deepcopy(e), r)) if corrupt else _corrupt_event
            cor = [c for c in (cfn(events[i], rnd) for i in picks) if c is not None]
            if not cor:
                return
            self._shard_no += 1
            path = os.path.join(self.dir, "traces", "%s_%s_binding_%05d.ndjson" % (module, label or "t", self._shard_no))
            with open(path, "w") as f:
                for ev in cor:
                    f.write(json.dumps(ev, separators=(",", ":")) + "\n")
            try:
                res = _validate_shard((self.dir, module, path, len(cor), env, timeout, cfg))
            except MachineryError:
                continue  # a corrupted event may be outside the domain of the operators: draw again
            k = "%s/%s" % (module, label or "t")
            rec[k] = {"corrupted_events": len(cor), "rejected": len(res["bad"]),
                      "clauses": sorted({b[1] for b in res["bad"]})[:12]}
            if res["bad"]:
                return
        if rec.get("%s/%s" % (module, label or "t"), {}).get("rejected") == 0:
            raise MachineryError("binding control: %s accepted every corrupted event in 3 draws (%s)" % (module, label))
        rec["%s/%s" % (module, label or "t")] = {"inconclusive": "corrupted events left the domain of the trace operators"}

    def leg(self, module, fn, jobs, batch=64, stat=None, **kw):
        """Memory-bounded leg: pmap `fn` over `jobs` in batches, judge each batch's events at once, drop them.
        `fn(job)` returns a list of events; `stat(events)` (optional) returns a number summed over batches.
        Returns (events judged, sum of stat)."""
        n = tot = 0
        for off in range(0, len(jobs), batch):
            parts = pmap(fn, jobs[off:off + batch])
            evs = [e for p in parts for e in p]
            del parts
            if stat is not None:
                tot += stat(evs)
            n += len(evs)
            self.validate(module, evs, **kw)
            del evs
        return n, tot

    # ---------------------------------------------------------------- findings
    def report(self, module, ev, clause, key=None, describe=None):
        """Register a rejected event.  `key` (a string) is matched against the known-findings file."""
        if key is not None:
            for f in self._findings:
                if f.get("status") == "known" and f["property"] == self.pid and f["key"] == key:
                    h = self.known_hits.setdefault(key, {"count": 0, "text": f["text"], "example": ev})
                    h["count"] += 1
                    return
        nclause = sum(1 for v in self.violations if v[0] == clause)
        rdir = os.path.join(OUT, "replays", self.pid)
        if nclause < 5 and len(os.listdir(rdir) if os.path.isdir(rdir) else []) < 300:
            os.makedirs(rdir, exist_ok=True)
            safe = re.sub(r"[^A-Za-z0-9_.-]", "_", clause)
            path = os.path.join(rdir, "%s_%d.json" % (safe, nclause))
            with open(path, "w") as f:
                json.dump({"property": self.pid, "trace_module": module, "clause": clause, "event": ev,
                           "key": key, "detail": describe(ev, clause) if describe else None,
                           "seed": self.seed, "tier": self.tier}, f)
        else:
            safe = re.sub(r"[^A-Za-z0-9_.-]", "_", clause)
            path = os.path.join(rdir, "%s_0.json" % safe)
        self.violations.append((clause, key, path))

    def fail_direct(self, clause, detail, key=None):
        self.report("harness", detail, clause, key)

    # ---------------------------------------------------------------- finish
    def finish(self, rule, technique_note=""):
        wall = time.time() - self.t0
        for key, h in sorted(self.known_hits.items()):
            print("KNOWN-FINDING: property=%s %s [key=%s, %d event(s) this run]" % (self.pid, h["text"], key,
                                                                                   h["count"]))
        seen = {}
        for clause, key, path in self.violations:
            seen[clause] = seen.get(clause, 0) + 1
            if seen[clause] <= 3:
                print("VIOLATION property=%s replay=%s clause=%s" % (self.pid, path, clause))
        for clause, n in seen.items():
            if n > 3:
                print("  (clause %s: %d rejected events in total, first 3 listed)" % (clause, n))
        cov = {
            "states": self.states,
            "transitions": self.transitions,
            "traces_validated_against_impl": self.traces,
            "samples": self.samples[:8] or [{"note": "no events"}],
            "evaluations": self.events,
            "distinct_nontrivial": self.nontrivial,
            "rule": rule,
            "mc_runs": self.mc_runs,
            "negative_controls": self.controls,
            "known_findings_hit": {k: v["count"] for k, v in self.known_hits.items()},
            "trusted_base": self.trusted,
        }
        if self.exhaustive is not None:
            cov["exhaustive"] = bool(self.exhaustive)
        if JOB_FAILURES:
            cov["driver_jobs_crashed"] = [{"job": f[0], "exception": f[1]} for f in JOB_FAILURES[:10]]
        cov.update(self.extra)
        ev = {
            "property_id": self.pid,
            "tier": self.tier,
            "seed": self.seed,
            "level": "model_checking",
            "coverage": cov,
            "assumptions": self.assumptions,
            "wall_s": round(wall, 2),
            "violations": len(self.violations),
        }
        os.makedirs(os.path.join(OUT, "evidence"), exist_ok=True)
        with open(os.path.join(OUT, "evidence", self.pid + ".json"), "w") as f:
            json.dump(ev, f, indent=1, default=str)
        print("%s tier=%s seed=%d: spec states=%d transitions=%d; impl events judged by TLC=%d in %d trace files; "
              "violations=%d known=%d; %.1fs" % (self.pid, self.tier, self.seed, self.states, self.transitions,
                                                  self.events, self.traces, len(self.violations),
                                                  sum(v["count"] for v in self.known_hits.values()), wall))
        if JOB_FAILURES and not self.violations:
            raise MachineryError("%d driver job(s) crashed (%s) and nothing else was rejected; last traceback:\n%s" % (
                len(JOB_FAILURES), ", ".join(sorted({f[1] for f in JOB_FAILURES})), JOB_FAILURES[-1][2]))
        return 1 if self.violations else 0


def suite_events(chk, module):
    """Leg S: run the repository's own test-suite under the passive tracer and return the recorded events of one
    trace module (deduplicated)."""
    out = os.path.join(chk.dir, "suite_trace")
    shutil.rmtree(out, ignore_errors=True)
    env = dict(os.environ, BCVERIF_SUITE_OUT=out, PYTHONPATH=os.path.join(VERIF, "harness"), PYTHONDONTWRITEBYTECODE="1")
    p = subprocess.run([sys.executable, "-m", "pytest", "-q", "-p", "no:cacheprovider", "-p", "bcverif.suite_tracer", "-W",
                        "ignore"], cwd=REPO, env=env, stdout=subprocess.PIPE, stderr=subprocess.STDOUT, text=True,
                       timeout=1800)
    tail = p.stdout.strip().splitlines()[-1] if p.stdout.strip() else ""
    chk.extra["suite_run"] = tail
    path = os.path.join(out, module + ".ndjson")
    evs, seen = [], set()
    if os.path.exists(path):
        for line in open(path):
            if line in seen:
                continue
            seen.add(line)
            evs.append(json.loads(line))
    chk.extra["suite_events"] = len(evs)
    return evs


def _load_findings():
    p = os.path.join(VERIF, "known_findings.json")
    if not os.path.exists(p):
        return []
    with open(p) as f:
        return json.load(f).get("findings", [])


def setup_repo_import():
    """Install the shim and put the current /repo working tree first on sys.path."""
    from bcverif import compat

    compat.install()
    if REPO not in sys.path:
        sys.path.insert(0, REPO)
    import warnings

    warnings.filterwarnings("ignore")
    try:  # fixed import order (the package has an import cycle that only resolves starting from location)
        import inscripta.biocantor.location.location_impl  # noqa: F401
    except Exception:
        pass


JOB_FAILURES = []  # (function name, exception class, last lines of the traceback) of driver jobs that crashed


def _combine(a, b):
    """results of two halves of a job: lists are concatenated, numbers added, tuples combined element-wise"""
    if isinstance(a, list) and isinstance(b, list):
        return a + b
    if isinstance(a, tuple) and isinstance(b, tuple) and len(a) == len(b):
        return tuple(_combine(x, y) for x, y in zip(a, b))
    if isinstance(a, (int, float)) and isinstance(b, (int, float)) and not isinstance(a, bool):
        return a + b
    return a


class _Guarded:
    """picklable wrapper: a job that raises does not kill the whole map.  A job of the usual shape (list of items, ...)
    is bisected so that only the items on which the driver itself crashes are lost; everything else is still judged."""

    def __init__(self, fn):
        self.fn = fn

    def _run(self, x, crashes):
        import traceback

        try:
            return self.fn(x)
        except Exception as ex:  # noqa: B902
            tb = traceback.format_exc()[-1500:]
            if isinstance(x, tuple) and x and isinstance(x[0], list) and len(x[0]) > 1:
                h = len(x[0]) // 2
                a = self._run((x[0][:h],) + tuple(x[1:]), crashes)
                b = self._run((x[0][h:],) + tuple(x[1:]), crashes)
                if a is None:
                    return b
                if b is None:
                    return a
                return _combine(a, b)
            crashes.append((type(ex).__name__, tb))
            return None

    def __call__(self, x):
        crashes = []
        r = self._run(x, crashes)
        return ("ok" if r is not None else "crash", r, crashes)


def pmap(fn, items, procs=NCPU, chunksize=1, empty=list):
    """Process-parallel map preserving order (fork; workers import the repo lazily).  A job that crashes contributes
    `empty()` and is recorded in JOB_FAILURES: the other jobs' events are still judged, and Check.finish turns a run
    with crashed jobs and no violation into a machinery failure (never into a silent pass)."""
    import multiprocessing as mp

    # the parent must be able to unpickle whatever a worker sends back
    if REPO not in sys.path:
        sys.path.append(REPO)
    g = _Guarded(fn)
    if procs <= 1 or len(items) <= 1:
        raw = [g(x) for x in items]
    else:
        ctx = mp.get_context("fork")
        with ctx.Pool(min(procs, len(items))) as pool:
            # a worker that dies or never returns must not hang the check: give up after a (generous) limit
            limit = float(os.environ.get("BCVERIF_PMAP_TIMEOUT", "14400"))
            try:
                raw = pool.map_async(g, items, chunksize).get(timeout=limit)
            except mp.TimeoutError:
                pool.terminate()
                raise MachineryError("driver jobs of %s did not finish within %.0f s" % (getattr(fn, "__name__", fn), limit))
    out = []
    for r in raw:
        for (exc, tb) in r[2]:
            JOB_FAILURES.append((getattr(fn, "__name__", str(fn)), exc, tb))
        out.append(r[1] if r[0] == "ok" else empty())
    return out
