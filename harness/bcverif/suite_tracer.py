"""pytest plugin (-p bcverif.suite_tracer): passive tracing of the repository's own test-suite (leg S of DESIGN §2.3).

Public coordinate / set-algebra / sequence calls of the Location classes made by the tests are recorded at their return
(including the error path), outermost call only, as events of the same shape the property drivers emit, so that the
same TLA+ trace modules judge them.  Output: $BCVERIF_SUITE_OUT/<module>.ndjson
"""
import functools
import json
import os
import threading

from bcverif import compat

compat.install()

_OUT = os.environ.get("BCVERIF_SUITE_OUT")
_depth = threading.local()
_files = {}
_MAX_COORD = 400  # layouts beyond this are skipped: TLC judges position sets explicitly


def _emit(module, ev):
    if not _OUT:
        return
    f = _files.get(module)
    if f is None:
        os.makedirs(_OUT, exist_ok=True)
        f = _files[module] = open(os.path.join(_OUT, module + ".ndjson"), "a")
    f.write(json.dumps(ev, separators=(",", ":")) + "\n")


def _install():
    import inscripta.biocantor.location.location_impl as li
    from bcverif import encode as E

    Single, Compound, Empty = li.SingleInterval, li.CompoundInterval, li._EmptyLocation

    def small(l):
        try:
            if isinstance(l, Empty):
                return True
            return l.end <= _MAX_COORD and l.num_blocks <= 6
        except Exception:
            return False

    def pdesc(l):
        p = getattr(l, "parent", None)
        if p is None:
            return ["", -1]
        try:
            return [p.id or "", len(p.sequence) if p.sequence is not None else -1]
        except Exception:
            return ["?", -1]

    def pair_desc(a, b):
        """parent descriptors of two operands; agreement is taken from the library's own parent comparison"""
        da, db = pdesc(a), pdesc(b)
        pa, pb = getattr(a, "parent", None), getattr(b, "parent", None)
        try:
            agree = (pa is None and pb is None) or (pa is not None and pb is not None and pa.equals_except_location(pb))
        except Exception:
            agree = da == db
        if agree:
            return da, da
        if da == db:
            db = [db[0] + "#other", db[1]]
        return da, db

    def locval(r):
        return [E.loc(r), E.pid(r), E.loc(r.optimize_blocks())]

    def outcome(fn, enc):
        try:
            r = fn()
        except BaseException as ex:  # noqa: B902
            return ["x", E.exc_name(ex)], ex
        try:
            return ["v"] + enc(r), None
        except Exception:
            return None, None

    def wrap(cls, name, handler, group="loc"):
        """outermost call only, per group of wrapped classes (a Location call made inside a traced CDS / transcript
        method is still an outermost Location call)"""
        orig = getattr(cls, name)

        @functools.wraps(orig)
        def wrapper(self, *a, **k):
            d = getattr(_depth, group, 0)
            if d > 0 or not _OUT:
                return orig(self, *a, **k)
            setattr(_depth, group, 1)
            try:
                res, exc = None, None
                try:
                    res = orig(self, *a, **k)
                    return res
                except BaseException as ex:  # noqa: B902
                    exc = ex
                    raise
                finally:
                    try:
                        handler(self, a, k, res, exc)
                    except Exception:
                        pass
            finally:
                setattr(_depth, group, 0)

        setattr(cls, name, wrapper)

    def oc(res, exc, enc):
        if exc is not None:
            return ["x", E.exc_name(exc)]
        return ["v"] + enc(res)

    def strand_sym(s):
        return s.to_symbol()

    # ---------------- C01: coordinate maps
    def h_r2p(self, a, k, res, exc):
        if small(self) and not isinstance(self, Empty):
            i = a[0] if a else k.get("relative_pos")
            if isinstance(i, int) and -5 <= i <= 5000:
                _emit("C01Trace", ["r2p1", E.loc(self), i, oc(res, exc, lambda r: [r])])

    def h_p2r(self, a, k, res, exc):
        if small(self) and not isinstance(self, Empty):
            p = a[0] if a else k.get("parent_pos")
            if isinstance(p, int) and -5 <= p <= 5000:
                _emit("C01Trace", ["p2r1", E.loc(self), p, oc(res, exc, lambda r: [r])])

    def h_sub(self, a, k, res, exc):
        if small(self) and not isinstance(self, Empty):
            names = ("relative_start", "relative_end", "relative_strand")
            args = [a[i] if i < len(a) else k.get(names[i]) for i in range(3)]
            if len(args) == 3 and all(isinstance(x, int) for x in args[:2]):
                _emit("C01Trace", ["sub", E.loc(self), 2, [[args[0], args[1], strand_sym(args[2]),
                                                            oc(res, exc, lambda r: [E.loc(r), "*"])]]])

    # ---------------- C02: set algebra
    def flags(a, k, names, defaults):
        vals = list(a[1:]) + [None] * len(names)
        out = []
        for i, n in enumerate(names):
            v = k.get(n, vals[i] if i < len(a) - 1 else defaults[i])
            out.append(bool(v))
        return out

    def binop(name, names, defaults, enc, kcode):
        def h(self, a, k, res, exc):
            other = a[0] if a else k.get("other")
            if other is None or isinstance(self, Empty) or isinstance(other, Empty):
                return
            if not (small(self) and small(other)):
                return
            fl = flags(a, k, names, defaults)
            pa, pb = pair_desc(self, other)
            _emit("C02Trace", ["bin1", name, E.loc(self), E.loc(other), pa, pb, kcode(fl), oc(res, exc, enc)])
        return h

    def kc3(fl):  # match_strand, full_span, strict
        return (1 if fl[0] else 0) + (2 if fl[1] else 0) + (4 if fl[2] else 0)

    for cls in (Single, Compound):
        wrap(cls, "relative_to_parent_pos", h_r2p)
        wrap(cls, "parent_to_relative_pos", h_p2r)
        wrap(cls, "relative_interval_to_parent_location", h_sub)
        wrap(cls, "has_overlap", binop("overlap", ["match_strand", "full_span", "strict_parent_compare"],
                                       [False, False, False], lambda r: [bool(r)], kc3))
        wrap(cls, "intersection", binop("intersection", ["match_strand", "full_span", "strict_parent_compare"],
                                        [True, False, False], locval, kc3))
        wrap(cls, "minus", binop("minus", ["match_strand", "strict_parent_compare"], [True, False], locval,
                                 lambda fl: (1 if fl[0] else 0) + (4 if fl[1] else 0)))
        wrap(cls, "union", binop("union", [], [], locval, lambda fl: 0))
    wrap(li.Location, "contains", binop("contains", ["match_strand", "full_span", "strict_parent_compare"],
                                        [False, False, False], lambda r: [bool(r)], kc3))

    # ---------------- C03: extracted sequence
    def h_ext(self, a, k, res, exc):
        if isinstance(self, Empty) or not small(self):
            return
        p = self.parent
        if p is None or p.sequence is None:
            return
        al = p.sequence.alphabet.name
        if not al.startswith("NT_"):
            return
        _emit("C03Trace", ["ext", al, list(str(p.sequence)), E.loc(self), oc(res, exc, lambda r: [list(str(r))])])

    for cls in (Single, Compound):
        wrap(cls, "extract_sequence", h_ext)

    # ---------------- C05: translation / coding sequence of whole-chromosome CDS objects (coordinates re-based to the
    # CDS start: every judged quantity is translation invariant)
    from inscripta.biocantor.gene.cds import CDSInterval
    from inscripta.biocantor.gene.transcript import TranscriptInterval

    def rebased(loc, off):
        return [[[b.start - off, b.end - off] for b in loc.blocks], loc.strand.to_symbol()]

    def cds_desc(c):
        if c.is_chunk_relative or not c.has_sequence:
            return None
        loc = c.chromosome_location
        if isinstance(loc, Empty) or loc.end - loc.start > 900 or loc.num_blocks > 12:
            return None
        par = loc.parent
        if par is None or par.sequence is None or par.parent is not None:
            return None
        if not par.sequence.alphabet.name.startswith("NT_"):
            return None
        off = loc.start
        root = str(par.sequence)[loc.start:loc.end]
        if len(root) != loc.end - loc.start:
            return None
        return rebased(loc, off), [f.value for f in c.frames], list(root)

    def h_translate(self, a, k, res, exc):
        d = cds_desc(self)
        if d is None:
            return
        names = ("truncate_at_in_frame_stop", "translation_table", "strict")
        dflt = (False, 0, True)
        args = [a[i] if i < len(a) else k.get(names[i], dflt[i]) for i in range(3)]
        table = int(args[1])
        if table not in (0, 1, 11):
            return
        _emit("C05Trace", ["tr1", d[0], d[1], d[2], bool(args[0]), table, bool(args[2]),
                           oc(res, exc, lambda r: [list(str(r))])])

    wrap(CDSInterval, "translate", h_translate, "cds")

    # ---------------- C06: position conversions of whole transcripts (coordinates re-based to the transcript start)
    def tx_desc(t):
        loc = t.chromosome_location
        if isinstance(loc, Empty) or loc.end - loc.start > 1500 or loc.num_blocks > 12 or loc.is_overlapping:
            return None
        off = loc.start
        if t.is_coding:
            cl = t.cds.chromosome_location
            if cl.is_overlapping:
                return None
            return off, rebased(loc, off), rebased(cl, off)
        return off, rebased(loc, off), [[], "e"]

    def posconv(kind, chrom_arg):
        def h(self, a, k, res, exc):
            d = tx_desc(self)
            if d is None:
                return
            pos = a[0] if a else k.get("pos")
            if not isinstance(pos, int) or isinstance(pos, bool):
                return
            off = d[0]
            p = pos - off if chrom_arg else pos
            if not (-5 <= p <= 3000):
                return
            enc = (lambda r: [r]) if chrom_arg else (lambda r: [r - off])
            _emit("C06Trace", ["m1", d[1], d[2], kind, p, oc(res, exc, enc)])
        return h

    wrap(TranscriptInterval, "sequence_pos_to_transcript", posconv("s2t", True), "tx")
    wrap(TranscriptInterval, "transcript_pos_to_sequence", posconv("t2s", False), "tx")
    wrap(TranscriptInterval, "sequence_pos_to_cds", posconv("s2c", True), "tx")
    wrap(TranscriptInterval, "cds_pos_to_sequence", posconv("c2s", False), "tx")

    # ---------------- C16: every call of the binning function
    import sys

    import inscripta.biocantor.util.bins as bins_mod

    orig_bins = bins_mod.bins

    @functools.wraps(orig_bins)
    def traced_bins(start, stop, fmt="gff", one=True):
        end = stop
        res, exc = None, None
        try:
            res = orig_bins(start, stop, fmt=fmt, one=one)
            return res
        except BaseException as ex:  # noqa: B902
            exc = ex
            raise
        finally:
            try:
                if _OUT and isinstance(start, int) and isinstance(end, int) and fmt in ("bed", "gff") \
                        and 0 <= start and end < 2 ** 30:
                    off = 0 if fmt == "bed" else 1
                    if exc is not None:
                        pass
                    elif one:
                        _emit("C16Trace", ["bin", start, end, off, res])
                    elif not isinstance(res, set):
                        _emit("C16Trace", ["set", start, end, off, sorted(res)])
            except Exception:
                pass

    for m in list(sys.modules.values()):
        try:
            if getattr(m, "bins", None) is orig_bins:
                setattr(m, "bins", traced_bins)
        except Exception:
            pass


try:
    _install()
except Exception as _ex:  # the plugin must never break the suite
    import sys

    print("bcverif.suite_tracer: not installed: %r" % (_ex,), file=sys.stderr)


def pytest_sessionfinish(session, exitstatus):
    for f in _files.values():
        try:
            f.close()
        except Exception:
            pass
