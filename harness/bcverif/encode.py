"""Projections of real BioCantor objects onto the abstract values of the TLA+ specification (both directions)."""


def strand_sym(s):
    return s.to_symbol()


def loc(l):
    """Location -> [[ [s,e], ... ], strand]; EmptyLocation -> [[], "e"]."""
    if l is None:
        return [[], "none"]
    if type(l).__name__ == "_EmptyLocation":
        return [[], "e"]
    return [[[b.start, b.end] for b in l.blocks], l.strand.to_symbol()]


def pid(l):
    try:
        p = l.parent
    except Exception:
        return ""
    return (p.id or "") if p is not None else ""


_DOCUMENTED = None


def documented_exceptions():
    """the documented exception classes, read from the specification (Loc!DocumentedExc): one source of truth"""
    global _DOCUMENTED
    if _DOCUMENTED is None:
        import os
        import re

        here = os.path.dirname(os.path.dirname(os.path.dirname(os.path.abspath(__file__))))
        txt = open(os.path.join(here, "spec", "Loc.tla")).read()
        body = txt[txt.index("DocumentedExc =="):]
        body = body[:body.index("}")]
        _DOCUMENTED = set(re.findall(r'"([A-Za-z0-9_]+)"', body))
    return _DOCUMENTED


def exc_name(e):
    """The class under which an exception is judged: its own class when that is a documented one, otherwise its nearest
    documented ancestor (a NEW subclass of a documented exception is a documented rejection), otherwise its own name."""
    doc = documented_exceptions()
    for c in type(e).__mro__:
        if c.__name__ in doc:
            return c.__name__
    return type(e).__name__


def outcome(fn, enc=lambda x: x):
    """Call fn(); return ["v", enc(result)...] or ["x", ExceptionClassName]."""
    try:
        r = fn()
    except BaseException as e:  # noqa: B902 -- every outcome of a call is judged, including internal errors
        if isinstance(e, (KeyboardInterrupt, SystemExit, MemoryError)):
            raise
        return ["x", exc_name(e)]
    v = enc(r)
    return ["v"] + (list(v) if isinstance(v, tuple) else [v])


def loc_outcome(fn):
    return outcome(fn, lambda r: (loc(r), pid(r)))


_COMP = {"A": "T", "C": "G", "G": "C", "T": "A", "a": "t", "c": "g", "g": "c", "t": "a", "N": "N", "n": "n"}


def chunk_parent(root, ws, we, minus=False, **kw):
    """seq_chunk_to_parent for the window [ws, we) of `root`; minus=True: the chunk sits on the MINUS strand of the
    chromosome (its sequence is the reverse complement of the window) -- every chromosome-level answer of an object built
    on it is the same as on a plus-strand chunk"""
    from inscripta.biocantor.io.parser import seq_chunk_to_parent
    from inscripta.biocantor.location.strand import Strand

    if minus:
        return seq_chunk_to_parent("".join(_COMP.get(c, c) for c in reversed(root[ws:we])), "chr", ws, we,
                                   strand=Strand.MINUS, **kw)
    return seq_chunk_to_parent(root[ws:we], "chr", ws, we, **kw)


def make_loc(blocks, strand, parent=None, force_compound=False):
    from inscripta.biocantor.location.location_impl import CompoundInterval, SingleInterval
    from inscripta.biocantor.location.strand import Strand

    st = Strand.from_symbol(strand)
    if len(blocks) == 1 and not force_compound:
        return SingleInterval(blocks[0][0], blocks[0][1], st, parent=parent)
    return CompoundInterval([b[0] for b in blocks], [b[1] for b in blocks], st, parent=parent)


def enum_locs(G, K, strands=("+", "-")):
    """All layouts of 1..K blocks over 0..G in the library's storage order (mirrors Loc!LocsGK)."""
    import itertools

    blocks = [(s, e) for s in range(G + 1) for e in range(s, G + 1)]
    out = []
    for st in strands:
        key = (lambda b: (b[0], b[1])) if st == "+" else (lambda b: (b[0], -b[1]))
        sb = sorted(blocks, key=key)
        for n in range(1, K + 1):
            for combo in itertools.combinations_with_replacement(range(len(sb)), n):
                out.append(([list(sb[i]) for i in combo], st))
    return out


_WARM_SKIP = {"cache_clear", "cache_info", "cache_parameters", "to_biopython", "to_feature_location", "to_compound_location",
              "mro", "update_parent", "from_dict", "from_location", "from_single_intervals"}


def warm(obj, rnd=None, share=1.0):
    """Ask an object every public argument-free question (properties and methods without required parameters), ignoring
    answers and exceptions.  Used to put operands into an arbitrary 'already used' state before the calls that are
    judged: no answer may depend on what was asked before."""
    import inspect

    cls = type(obj)
    for name in dir(cls):
        if name.startswith("_") or name in _WARM_SKIP:
            continue
        if rnd is not None and rnd.random() > share:
            continue
        try:
            attr = inspect.getattr_static(cls, name)
            if isinstance(attr, property) or hasattr(attr, "fget"):
                getattr(obj, name)
                continue
            fn = getattr(obj, name)
            if not callable(fn):
                continue
            sig = inspect.signature(fn)
            if any(p.default is inspect.Parameter.empty and p.kind in (p.POSITIONAL_ONLY, p.POSITIONAL_OR_KEYWORD,
                                                                       p.KEYWORD_ONLY) for p in sig.parameters.values()):
                continue
            r = fn()
            if inspect.isgenerator(r):
                list(r)
        except Exception:
            pass
    return obj
