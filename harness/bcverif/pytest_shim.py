"""pytest plugin: `-p bcverif.pytest_shim` installs the compat shim before collection."""
from bcverif import compat

compat.install()
