"""Harness-side compatibility shim (DESIGN §2.7).  Loaded before any `inscripta` import.

The sandbox carries third-party packages newer than the ones BioCantor was written against
(marshmallow 4, Biopython 1.8x) and lacks pyvcf3.  This module restores exactly the removed
third-party API.  It never touches /repo.
"""
import sys
import types

_INSTALLED = False


def install():
    global _INSTALLED
    if _INSTALLED:
        return
    _INSTALLED = True
    _marshmallow()
    _vcf()
    _biopython()


def _marshmallow():
    import marshmallow
    import marshmallow.decorators as deco

    orig = deco.post_dump
    if getattr(orig, "_bcverif", False):
        return

    def post_dump(fn=None, pass_many=None, **kw):
        if pass_many is not None and "pass_collection" not in kw:
            kw["pass_collection"] = pass_many
        return orig(fn, **kw)

    post_dump._bcverif = True
    deco.post_dump = post_dump
    marshmallow.post_dump = post_dump


def _vcf():
    if "vcf" in sys.modules:
        return
    try:
        import vcf  # noqa: F401

        return
    except Exception:
        pass
    vcf = types.ModuleType("vcf")
    model = types.ModuleType("vcf.model")

    class _Record:  # duck-typed record; the real reader is unavailable in the sandbox
        pass

    class Reader:
        def __init__(self, *a, **k):
            raise ImportError("pyvcf3 is not available in this sandbox (bcverif shim)")

    model._Record = _Record
    vcf.model = model
    vcf.Reader = Reader
    sys.modules["vcf"] = vcf
    sys.modules["vcf.model"] = model


def _biopython():
    from Bio import SeqFeature as SF

    cls = SF.SeqFeature
    if getattr(cls, "_bcverif", False):
        return
    cls._bcverif = True
    orig_init = cls.__init__

    def __init__(self, location=None, type="", *args, strand=None, **kw):
        orig_init(self, location, type, *args, **kw)
        if strand is not None and self.location is not None:
            self.location.strand = strand

    cls.__init__ = __init__
    if not isinstance(getattr(cls, "strand", None), property):

        def _get(self):
            return self.location.strand if self.location is not None else None

        def _set(self, v):
            self.location.strand = v

        cls.strand = property(_get, _set)

    for name in ("SimpleLocation", "FeatureLocation", "CompoundLocation"):
        c = getattr(SF, name, None)
        if c is None:
            continue
        if not hasattr(c, "nofuzzy_start"):
            c.nofuzzy_start = property(lambda self: int(self.start))
        if not hasattr(c, "nofuzzy_end"):
            c.nofuzzy_end = property(lambda self: int(self.end))
