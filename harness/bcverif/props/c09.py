"""C09 — collection queries return exactly the specified members, self-consistently (chained queries on real
AnnotationCollections, with and without sequence, around bin boundaries and on chunks)."""
import random

from bcverif import encode as E
from bcverif.props.c06 import cds_blocks, mk_tx
from bcverif.runner import MachineryError, parse_prints, pmap, setup_repo_import

BIN = 1 << 17
IDENT_ATTRS = {"gene": ("gene_id", "gene_symbol", "locus_tag"),
               "feature": ("feature_collection_id", "feature_collection_name", "locus_tag"),
               "variant": ("variant_collection_id", "variant_collection_name")}


def _build(rnd, big, with_seq, on_chunk):
    from inscripta.biocantor.gene.collections import AnnotationCollection
    from inscripta.biocantor.gene.feature import FeatureInterval, FeatureIntervalCollection
    from inscripta.biocantor.gene.gene import GeneInterval
    from inscripta.biocantor.gene.variants import VariantInterval, VariantIntervalCollection
    from inscripta.biocantor.io.parser import seq_chunk_to_parent
    from inscripta.biocantor.location.strand import Strand
    from inscripta.biocantor.parent import Parent, SequenceType
    from inscripta.biocantor.sequence import Sequence
    from inscripta.biocantor.sequence.alphabet import Alphabet

    if big:
        base = rnd.randrange(1, 5) * BIN
        L = 7 * BIN

        def pos():
            return max(0, base + rnd.choice([0, 0, BIN, -BIN]) + rnd.randrange(-40, 41))

        lens = [3, 9, 30, 1000, BIN - 1, BIN, BIN + 1]
    else:
        L = 60

        def pos():
            return rnd.randrange(0, 50)

        lens = [3, 6, 9, 12]
    R = "".join(rnd.choice("ACGT") for _ in range(L)) if with_seq else None
    cs, ce = (0, L)
    parent = None
    if with_seq:
        alpha = rnd.choice([Alphabet.NT_EXTENDED_GAPPED, Alphabet.NT_EXTENDED_GAPPED, Alphabet.NT_STRICT,
                            Alphabet.NT_EXTENDED, Alphabet.NT_STRICT_GAPPED, Alphabet.NT_STRICT_UNKNOWN])
        if on_chunk:
            cs, ce = rnd.randrange(0, 8), L - rnd.randrange(0, 8)
            parent = seq_chunk_to_parent(R[cs:ce], "chr", cs, ce, alphabet=alpha)
        else:
            parent = Parent(id="chr", sequence=Sequence(R, alpha, id="chr", type=SequenceType.CHROMOSOME))
    genes, fcs, vcs = [], [], []
    n = rnd.randrange(1, 7)
    for k in range(n):
        s = pos()
        ln = rnd.choice(lens)
        e = s + ln
        if big and rnd.random() < 0.5:
            # boundary-aligned member: its end (or start) sits exactly on / next to a 128 kb bin boundary
            B = rnd.randrange(1, 6) * BIN
            if rnd.random() < 0.6:
                e = B + rnd.choice([0, 0, 0, 1, -1])
                s = max(0, e - rnd.choice([3, 30, 1000, 40000, BIN - 1, BIN]))
            else:
                s = B + rnd.choice([0, 0, 1, -1])
                e = s + rnd.choice([3, 30, 1000, BIN])
        if with_seq and (s < cs or e > ce):
            s = max(s, cs)
            e = min(max(e, s + 3), ce)
            if e - s < 3:
                continue
        kind = rnd.choice(["gene", "gene", "feature", "variant"])
        if kind == "gene":
            txs = []
            ntx = rnd.randrange(1, 3)
            flagged = rnd.randrange(0, ntx) if (ntx > 1 and rnd.random() < 0.4) else None  # explicit primary isoform
            far = big and ntx > 1 and rnd.random() < 0.4  # isoforms more than one 128 kb bin apart (a wide gap inside the gene)
            for t in range(ntx):
                ts, te = (s if t == 0 else s + 1), e
                if far and t == 1:
                    ts = e + rnd.choice([BIN, 2 * BIN, 3 * BIN]) + rnd.randrange(0, 2000)
                    te = ts + rnd.choice([9, 300, 1000])
                    if te > L:
                        ts, te = s + 1, e
                if te - ts >= 8 and rnd.random() < 0.5:
                    cut = rnd.randrange(ts + 2, te - 3)
                    blocks = [[ts, cut], [cut + 1, te]]
                else:
                    blocks = [[ts, te]]
                n_tx = sum(b[1] - b[0] for b in blocks)
                coding = rnd.random() < 0.5 and n_tx >= 3
                st = rnd.choice("+-")
                cds = cds_blocks(blocks, st, 0, 3 * (n_tx // 3)) if coding else None
                kw = {"is_primary_tx": True} if flagged == t else {}
                if coding:
                    # what the coding region says about itself (either, both or neither given)
                    m = (k + t) % 4
                    if m in (0, 1):
                        kw["protein_id"] = "prot%d_%d" % (k, t)
                    if m in (0, 2):
                        kw["product"] = "product %d" % k
                txs.append(mk_tx(blocks, st, cds, None, parent=parent, transcript_id="tx%d_%d" % (k, t), **kw))
            genes.append(GeneInterval(txs, gene_id="gid%d" % k, gene_symbol="sym%d" % (k % 3), locus_tag="lt%d" % k,
                                      parent_or_seq_chunk_parent=parent))
            if rnd.random() < 0.12:
                # a second locus that carries an IDENTICAL isoform (same structure and attributes, hence the same
                # interval identifier) next to one of its own -- e.g. a read-through locus
                try:
                    t0 = txs[0]
                    twin = mk_tx([list(b) for b in zip(t0._genomic_starts, t0._genomic_ends)], t0.strand.to_symbol(),
                                 [list(b) for b in zip(t0.cds._genomic_starts, t0.cds._genomic_ends)] if t0.is_coding else None,
                                 None, parent=parent, transcript_id=t0.transcript_id)
                    own = mk_tx([[t0.start, t0.end]], t0.strand.to_symbol(), None, None, parent=parent,
                                transcript_id="own%d" % k)
                    if twin.guid == t0.guid:
                        genes.append(GeneInterval([twin, own], gene_id="rt%d" % k, gene_symbol="rt%d" % k,
                                                  locus_tag="rt%d" % k, parent_or_seq_chunk_parent=parent))
                except Exception:
                    pass
        elif kind == "feature":
            fs = [FeatureInterval([s], [e], Strand.PLUS, feature_name="fn%d" % k, parent_or_seq_chunk_parent=parent)]
            if e - s > 4 and rnd.random() < 0.5:
                fs.append(FeatureInterval([s + 1], [e - 1], Strand.MINUS, feature_name="fm%d" % k,
                                          parent_or_seq_chunk_parent=parent))
            fcs.append(FeatureIntervalCollection(fs, feature_collection_name="fc%d" % k, locus_tag="lt%d" % k,
                                                 parent_or_seq_chunk_parent=parent))
        else:
            ve = min(e, s + 3)
            # the phase block (VCF PS) is content: none, 0 (a legal value), small and large numbers
            vcs.append(VariantIntervalCollection([VariantInterval(s, ve, "A" * (ve - s), "SNV",
                                                                  phase_block=rnd.choice([None, 0, 0, 1, 70001]),
                                                                  variant_id=rnd.choice([None, "", "rs%d" % k]),
                                                                  variant_name="v%d" % k,
                                                                  parent_or_seq_chunk_parent=parent)],
                                                 variant_collection_name="vc%d" % k,
                                                 parent_or_seq_chunk_parent=parent))
    if with_seq and not big and genes and rnd.random() < 0.65:
        # a haplotype laid over the first bases of a gene (so that gene, isoforms and variant meet in one small region)
        g0 = rnd.choice(genes)
        vs = max(cs, g0.start - rnd.choice([0, 1]))
        ve = min(ce, vs + rnd.choice([1, 2, 3]))
        if ve > vs:
            try:
                vcs.append(VariantIntervalCollection([VariantInterval(vs, ve, "A" * (ve - vs), "SNV", variant_name="vh",
                                                                      parent_or_seq_chunk_parent=parent)],
                                                     variant_collection_name="vch", parent_or_seq_chunk_parent=parent))
            except Exception:
                pass
    if not (genes or fcs or vcs):
        return None
    coll = AnnotationCollection(feature_collections=fcs, genes=genes, variant_collections=vcs, sequence_name="chr",
                                start=cs if with_seq else 0, end=ce if with_seq else L,
                                parent_or_seq_chunk_parent=parent)
    return coll, R, L


def _project(coll, ids, has_seq):
    mem = []
    for m in coll.iter_children():
        kind = {"transcript": "gene", "feature": "feature", "variant": "variant"}[str(m.interval_type.value)]
        ch = [[ids.setdefault(c.guid, len(ids) + 1), c.start, c.end] for c in m.iter_children()]
        mem.append([ids.setdefault(m.guid, len(ids) + 1), kind, m.start, m.end,
                    # a gene is coding exactly when some isoform has a CDS (not the gene's own answer: the oracle
                    # must not be computed by the code under test)
                    any(getattr(c, "cds", None) is not None for c in m.iter_children()) if kind == "gene" else False,
                    sorted(ch),
                    # the documented identifiers of a member, from the attributes it was built with
                    sorted(str(getattr(m, a)) for a in IDENT_ATTRS[kind] if getattr(m, a, None) is not None)])
    return [coll.start, coll.end, mem, has_seq]


def _events(args):
    seed, n, big = args
    setup_repo_import()
    rnd = random.Random(seed)
    ev = []
    prev_win = [None, None]
    for _ in range(n):
        with_seq = (not big) and rnd.random() < 0.7
        built = _build(rnd, big, with_seq, with_seq and rnd.random() < 0.4)
        if not built:
            continue
        coll, R, L = built
        # results fed back in: a gene split into single-isoform genes by interval-GUID queries (each keeps the gene's
        # identifier) and both halves put into ONE collection -- two members, one GUID.  Only range queries are asked of it
        # (what an identifier query answers for a shared GUID is not stated anywhere)
        dup = False
        if not big and not with_seq and rnd.random() < 0.25:
            gs = [g for g in coll.genes if len({t.guid for t in g.transcripts}) >= 2 and len(g.transcripts) == len({t.guid for t in g.transcripts})]
            if gs:
                from inscripta.biocantor.gene.collections import AnnotationCollection

                g = rnd.choice(gs)
                try:
                    halves = [coll.query_by_transcript_interval_guids([t.guid]).genes[0] for t in g.transcripts]
                    coll = AnnotationCollection(feature_collections=coll.feature_collections,
                                                genes=[x for x in coll.genes if x is not g] + halves,
                                                variant_collections=coll.variant_collections, sequence_name="chr",
                                                start=coll.start, end=coll.end)
                    dup = True
                except Exception:
                    dup = False
        if rnd.random() < 0.2:  # a collection whose members were already asked everything
            for m in coll.iter_children():
                E.warm(m)
        ids = {}
        cur = coll
        for depth in range(2):
            pre = _project(cur, ids, with_seq)
            src_children = {c.guid: c.to_dict() for m in cur.iter_children() for c in m.iter_children()}
            r = rnd.random()
            allm = list(cur.iter_children())
            # the answer of a relaxed range query holds members that overhang its bounds: identifier queries on such a
            # collection (members named in any order) are asked more often than chance would
            overhang = depth == 1 and len(allm) >= 2 and any(m.start < cur.start or m.end > cur.end for m in allm)
            if overhang and rnd.random() < 0.7:
                r = 0.6 + 0.4 * rnd.random()
            if dup:
                r = 0.6 * rnd.random()
            if r < 0.6:
                if big:
                    kids = [c for m in allm for c in m.iter_children()]
                    anchor = rnd.choice([cur.start, cur.end] + [m.start for m in allm] + [m.end for m in allm] +
                                        [k * BIN for k in range(1, 8)] + [c.start for c in kids] + [c.end for c in kids] +
                                        [(m.start + m.end) // 2 for m in allm])
                    if rnd.random() < 0.5:
                        qs = max(0, anchor + rnd.choice([-BIN, -50, -3, -1, 0, 1, 3]))
                        qe = qs + rnd.choice([1, 2, 10, 100, BIN - 1, BIN, BIN + 1, 2 * BIN])
                    else:  # the query END is the anchor (a member end / a bin boundary), the start somewhere before
                        qe = anchor + rnd.choice([0, 0, 0, 1, -1])
                        qs = max(0, qe - rnd.choice([1, 5, 1000, 30000, 70000, BIN, BIN + 5, 2 * BIN]))
                elif rnd.random() < 0.55 and allm:
                    # small genome: ranges that start / end ON a member's or a child's own boundary (+-1), so that a
                    # result chunk holds one isoform of a gene and not the other, cuts a variant, etc.
                    m0 = rnd.choice(allm)
                    anchor = rnd.choice([m0.start, m0.end] + [c.start for c in m0.iter_children()] +
                                        [c.end for c in m0.iter_children()])
                    if rnd.random() < 0.5:
                        qs = max(0, anchor + rnd.choice([-3, -1, 0, 1]))
                        qe = qs + rnd.choice([1, 2, 3, 6])
                    else:
                        qe = anchor + rnd.choice([0, 1, 2])
                        qs = max(0, qe - rnd.choice([1, 2, 3, 6]))
                else:
                    qs = rnd.randrange(-1, L)
                    qe = rnd.randrange(qs, L + 2)
                if rnd.random() < 0.1:
                    qs, qe = cur.start, cur.end
                # the SAME window that was asked of the previous collection with sequence in this process (another genome
                # under the same sequence name): the answer is about THIS collection's sequence
                if depth == 0 and with_seq and not big and prev_win[0] is not None and rnd.random() < 0.5 \
                        and cur.start <= prev_win[0] < prev_win[1] <= cur.end:
                    qs, qe = prev_win
                targeted = False
                if not big and with_seq and cur.variant_collections and rnd.random() < 0.5:
                    # a window that holds a variant and a gene ONE of whose isoforms has no base in it (relaxed query): the
                    # haplotype is applied to every member of the answer, also to the isoform that is not there
                    cands = []
                    for g in cur.genes:
                        if len(g.transcripts) < 2:
                            continue
                        for v in [x for vc in cur.variant_collections for x in vc.variant_intervals]:
                            for a in range(max(cur.start, v.start - 4), v.start + 1):
                                for b in range(v.end, min(cur.end, v.end + 5) + 1):
                                    inside = [any(s0 < b and a < e0 for s0, e0 in zip(t._genomic_starts, t._genomic_ends))
                                              for t in g.transcripts]
                                    if any(inside) and not all(inside) and a < b:
                                        cands.append((a, b))
                    if cands:
                        qs, qe = rnd.choice(cands)
                        targeted = True
                z = rnd.random() if not targeted else 1.0
                if z < 0.06:      # an explicit 0 is a coordinate, not "unset": outside a collection that starts later
                    qs = 0
                elif z < 0.10:
                    qe = 0
                elif z < 0.14:    # one position outside the collection on either side
                    qs, qe = (cur.start - 1, cur.end) if rnd.random() < 0.5 else (cur.start, cur.end + 1)
                flags = [rnd.random() < 0.3, rnd.random() < 0.5, rnd.random() < 0.5]
                if targeted:
                    flags = [False, False, flags[2]]
                if depth == 0 and with_seq and not big:
                    prev_win[0], prev_win[1] = qs, qe
                op, ar = "pos", [qs, qe] + flags
                # (half of the calls leave out every flag that has its DOCUMENTED default: coding_only=False,
                # completely_within=True, expand_location_to_children=False)
                kw = dict(coding_only=flags[0], completely_within=flags[1], expand_location_to_children=flags[2])
                if rnd.random() < 0.5:
                    kw = {k_: v_ for k_, v_ in kw.items()
                          if v_ != dict(coding_only=False, completely_within=True, expand_location_to_children=False)[k_]}
                call = lambda: cur.query_by_position(qs, qe, **kw)  # noqa
            elif r < 0.7:
                pick = [m for m in allm if rnd.random() < 0.5]
                if overhang:
                    pick = sorted(allm, key=lambda m: -m.start) if rnd.random() < 0.6 else pick[::-1]
                op, ar = "guids", [ids[m.guid] for m in pick]
                call = lambda: cur.query_by_guids([m.guid for m in pick])  # noqa
            elif r < 0.9:
                # (an interval identifier that occurs under two members is never asked for: which member answers for it is
                # not specified; every OTHER identifier of such a collection must be answered as usual)
                cnt = {}
                for m in allm:
                    for c in m.iter_children():
                        cnt[c.guid] = cnt.get(c.guid, 0) + 1
                kids = [c for m in allm for c in m.iter_children() if cnt[c.guid] == 1 and rnd.random() < 0.4]
                op = rnd.choice(["iguids", "txguids", "featguids"])
                ar = [ids[c.guid] for c in kids]
                fn = {"iguids": "query_by_interval_guids", "txguids": "query_by_transcript_interval_guids",
                      "featguids": "query_by_feature_interval_guids"}[op]
                call = lambda: getattr(cur, fn)([c.guid for c in kids])  # noqa
            else:
                pool = sorted({i for pm in pre[2] for i in pm[6]} | {"nosuch"})
                ar = rnd.sample(pool, min(len(pool), rnd.randrange(1, 5)))
                op = "idents"
                call = lambda: cur.query_by_feature_identifiers(ar)  # noqa
            holder = []
            o = E.outcome(lambda: holder.append(call()) or 1)
            if not holder:
                ev.append(["q", pre, op, ar, o, True, [], list(R) if R else []])
                break
            res = holder[0]
            post = _project(res, ids, with_seq)
            same = all(c.to_dict() == src_children.get(c.guid) for m in res.iter_children() for c in m.iter_children()) \
                if op in ("pos", "guids", "idents") else True
            seqs = []
            if with_seq and not res.is_empty:
                for m in res.iter_children():
                    lo, hi = max(m.start, res.start), min(m.end, res.end)
                    seqs.append([ids[m.guid], lo, hi, E.outcome(lambda m=m: list(str(m.get_reference_sequence())))])
            ev.append(["q", pre, op, ar, ["v", post], same, seqs, list(R) if R else []])
            if res.is_empty:
                break
            cur = res
    return ev


def _qchain_events(chains):
    """Direction A: behaviours of CollSim (full bin scale, boundary coordinates) performed on real collections."""
    setup_repo_import()
    from inscripta.biocantor.gene.collections import AnnotationCollection
    from inscripta.biocantor.gene.feature import FeatureInterval, FeatureIntervalCollection
    from inscripta.biocantor.gene.gene import GeneInterval
    from inscripta.biocantor.gene.variants import VariantInterval, VariantIntervalCollection
    from inscripta.biocantor.location.strand import Strand

    ev = []
    steps = agree = 0
    for h in chains:
        c0 = h[0]
        genes, fcs, vcs, order = [], [], [], []
        for m in sorted(c0[2], key=lambda m: m[0]):
            mid, kind, s, e, cdg, children = m
            if kind == "gene":
                txs = []
                for ci, (cid, cs, ce) in enumerate(sorted(children)):
                    blocks = [[cs, ce]]
                    cds = [[cs, cs + 3 * ((ce - cs) // 3)]] if (cdg and ci == 0 and ce - cs >= 3) else None
                    txs.append(mk_tx(blocks, "+", cds, None, transcript_id="t%d" % cid))
                if cdg and all(t.cds is None for t in txs):
                    continue
                genes.append(GeneInterval(txs, gene_id="m%d" % mid))
                order.append((mid, genes[-1]))
            elif kind == "feature":
                fcs.append(FeatureIntervalCollection([FeatureInterval([s], [e], Strand.PLUS, feature_name="f%d" % mid)],
                                                     feature_collection_name="m%d" % mid))
                order.append((mid, fcs[-1]))
            else:
                vcs.append(VariantIntervalCollection([VariantInterval(s, e, "A" * (e - s), "SNV", variant_name="v%d" % mid)],
                                                     variant_collection_name="m%d" % mid))
                order.append((mid, vcs[-1]))
        try:
            cur = AnnotationCollection(feature_collections=fcs, genes=genes, variant_collections=vcs, sequence_name="chr",
                                       start=c0[0], end=c0[1])
        except Exception:
            continue
        guid2mid = {o.guid: mid for mid, o in order}
        ids = {}
        for (q, want) in h[1:]:
            qs, qe, co, cw, ex = q
            pre = _project(cur, ids, False)
            holder = []
            o = E.outcome(lambda: holder.append(cur.query_by_position(qs, qe, coding_only=bool(co), completely_within=bool(cw),
                                                                       expand_location_to_children=bool(ex))) or 1)
            if not holder:
                ev.append(["q", pre, "pos", [qs, qe, bool(co), bool(cw), bool(ex)], o, True, [], []])
                break
            res = holder[0]
            post = _project(res, ids, False)
            ev.append(["q", pre, "pos", [qs, qe, bool(co), bool(cw), bool(ex)], ["v", post], True, [], []])
            steps += 1
            got = sorted(guid2mid.get(m.guid, -1) for m in res.iter_children())
            if got == sorted(want[2]) and [res.start, res.end] == [want[0], want[1]]:
                agree += 1
            if res.is_empty:
                break
            cur = res
    return ev, steps, agree


def _key(ev, clause):
    if clause == "id-query:widens-beyond-sequence-chunk":
        return "coll:id-query-widens-beyond-chunk"
    return None


def run(chk):
    quick = chk.quick
    chk.mc("CollMC", "CollMC.cfg", note="range queries with the bin pre-filter on grandchildren (scaled scheme), chained "
           "to depth 2 over all member spans, all query ranges and flags: PrefilterNeverChangesTheAnswer, bounds")
    chk.mc("CollMC", "CollMC_neg.cfg", expect_violation=True,
           note="query bin set computed from end-1 without the coarse bins")
    n = 90 if quick else 1500
    parts = pmap(_events, [(chk.seed * 701 + i, n, i % 2 == 0) for i in range(32)])
    evs = [e for p in parts for e in p]
    # direction A: chained boundary queries chosen by TLC at full bin scale, performed on real collections
    r = chk.mc("CollSim", "CollSim.cfg", workers=1, simulate="num=%d" % (400 if quick else 6000),
               extra=["-depth", "4", "-seed", str(chk.seed + 17)],
               note="simulated chains of 3 range queries over bin-boundary coordinates at full scale (17,3,5); along every "
                    "behaviour the pre-filter as the code applies it never changes the answer; emitted for replay")
    chains = [c[0] for c in parse_prints(r["out"], "QCHAIN")]
    if len(chains) < 100:
        raise MachineryError("TLC emitted only %d query chains" % len(chains))
    parts = pmap(_qchain_events, [chains[i::16] for i in range(16)], empty=lambda: ([], 0, 0))
    evs += [e for p in parts for e in p[0]]
    chk.extra["query_chains_replayed"] = len(chains)
    chk.extra["algo_fidelity"] = {"real_steps": sum(p[1] for p in parts),
                                  "answer_identical_to_model": sum(p[2] for p in parts)}
    chk.validate("C09Trace", evs, shard=600, label="queries", keyfn=_key)
    chk.nontrivial = len({str(e[1:4]) for e in evs})
    chk.extra["queries"] = {k: sum(1 for e in evs if e[2] == k) for k in ("pos", "guids", "iguids", "txguids",
                                                                          "featguids", "idents")}
    chk.trusted += ["TLC", "Collection.tla", "harness projection of collections (guid -> small integer)",
                    "dictionary equality of children computed in the harness"]
    chk.assumptions += ["cgranges absent: the bin pre-filter path is the live one"]
    return chk.finish("random collections (genes with 1-2 isoforms, feature collections, variant collections) on a large "
                      "genome with spans on and around 128 kb bin boundaries (no sequence) and on a 60 bp genome with "
                      "sequence (whole chromosome or chunk); chained queries of depth 2: position (all flags, ranges at "
                      "bounds / crossing bins / invalid), GUID, interval-GUID, transcript/feature-interval-GUID, "
                      "identifier queries; distinct = distinct (collection, query)")
