"""C10 — answers do not depend on call history; operations never change their operands.
Direction A: TLC (HistoryMC) emits call histories (exhaustive length 2 per object kind, simulated length 6 with cache
actions); each history is replayed on a real object X, the LAST call is repeated on a freshly built twin (after
Parent.cache_clear()), and TLC judges answers (value and type) and operand snapshots."""
import enum
import json
import os
import random
import re
import uuid

from bcverif import encode as E
from bcverif.runner import MachineryError, pmap, setup_repo_import


def canon(v, depth=0):
    """JSON-able canonical form of any answer"""
    import types

    if depth > 8:
        return "<deep>"
    if v is None or isinstance(v, (bool, int, float, str)):
        return v
    if isinstance(v, uuid.UUID):
        return str(v)
    if isinstance(v, enum.Enum):
        return v.name
    tn = type(v).__name__
    if tn in ("SingleInterval", "CompoundInterval", "_EmptyLocation"):
        return ["loc", tn if tn == "_EmptyLocation" else "", E.loc(v), E.pid(v)]
    if tn == "Sequence":
        lp = v.location_on_parent
        return ["seq", str(v), v.alphabet.name, E.loc(lp) if lp is not None else None]
    if tn == "Parent" or tn == "_lru_cache_wrapper":
        st = getattr(v, "strand", None)
        return ["parent", getattr(v, "id", None), str(getattr(v, "sequence_type", None)),
                str(v.sequence) if getattr(v, "sequence", None) is not None else None,
                E.loc(v.location) if getattr(v, "location", None) is not None else None,
                st.name if st is not None else None,
                canon(getattr(v, "parent", None), depth + 1) if getattr(v, "parent", None) is not None else None]
    if isinstance(v, dict):
        return {str(k): canon(w, depth + 1) for k, w in sorted(v.items(), key=lambda kv: str(kv[0]))}
    if isinstance(v, (set, frozenset)):
        return sorted((canon(w, depth + 1) for w in v), key=lambda x: json.dumps(x, sort_keys=True, default=str))
    if isinstance(v, (list, tuple)) or isinstance(v, types.GeneratorType) or tn in ("map", "filter", "chain"):
        return [canon(w, depth + 1) for w in v]
    if hasattr(v, "to_dict") and hasattr(v, "guid"):
        d = v.to_dict(export_parent=True) if tn == "AnnotationCollection" else v.to_dict()
        return ["obj", tn, canon(d, depth + 1), canon(getattr(v, "chunk_relative_location", None), depth + 1)]
    if tn in ("GFFRow", "BED12", "GFFAttributes", "Codon"):
        return [tn, str(v)]
    return [tn, str(v)]


def answer(fn):
    try:
        v = fn()
        return json.dumps(canon(v), sort_keys=True, default=str), type(v).__name__
    except BaseException as ex:  # noqa: B902
        if isinstance(ex, (KeyboardInterrupt, SystemExit, MemoryError)):
            raise
        return json.dumps(["x", type(ex).__name__]), "raise"


def snapshot(objs):
    out = []
    for o in objs:
        tn = type(o).__name__
        if tn in ("SingleInterval", "CompoundInterval"):
            out.append([E.loc(o), E.pid(o), hash(o), str(o), len(o)])
        elif tn == "Sequence":
            out.append(canon(o) + [hash(o)])
        elif hasattr(o, "to_dict"):
            d = o.to_dict(export_parent=True) if tn == "AnnotationCollection" else o.to_dict()
            out.append([canon(d), str(o.guid), hash(o), canon(getattr(o, "qualifiers", None)),
                        canon(getattr(o, "chunk_relative_location", None))])
        else:
            out.append(canon(o))
    return json.dumps(out, sort_keys=True, default=str)


# ---------------------------------------------------------------------------------------------------------------------
def factory(kind, spec):
    """Build (object, operands) from a content description; called again for the twin."""
    from inscripta.biocantor.gene.collections import AnnotationCollection
    from inscripta.biocantor.gene.gene import GeneInterval
    from inscripta.biocantor.gene.variants import VariantInterval
    from inscripta.biocantor.io.parser import seq_chunk_to_parent
    from inscripta.biocantor.parent import Parent, SequenceType
    from inscripta.biocantor.sequence import Sequence
    from inscripta.biocantor.sequence.alphabet import Alphabet
    from bcverif.props.c06 import mk_tx

    R = spec["root"]
    if spec["chunk"]:
        ws, we = spec["chunk"]
        par = E.chunk_parent(R, ws, we, minus=bool(spec.get("minus_chunk")))
    else:
        par = Parent(id="chr", sequence=Sequence(R, Alphabet.NT_EXTENDED_GAPPED, id="chr", type=SequenceType.CHROMOSOME))
    adopter = par
    if spec.get("noparent"):
        par = None
    ops = {"adopter": adopter, "chunk2": seq_chunk_to_parent(R[2:len(R) - 2], "chr", 2, len(R) - 2),
           "variant": VariantInterval(spec["vpos"], spec["vpos"] + 1, "GG", "insertion", parent_or_seq_chunk_parent=adopter)}
    quals = {"note": ["n1", "n2"], "k": ["v"]}
    if kind == "location":
        if spec.get("deep"):  # contig -> chromosome -> assembly
            plain = Parent(id="ctg", sequence=Sequence(R, Alphabet.NT_EXTENDED_GAPPED, id="ctg", type="contig"),
                           parent=Parent(id="chr", sequence_type="chromosome",
                                         parent=Parent(id="asm", sequence_type="assembly")))
        else:
            plain = Parent(id="chr", sequence=Sequence(R, Alphabet.NT_EXTENDED_GAPPED, id="chr",
                                                       type=SequenceType.CHROMOSOME))
        lst = spec.get("loc_strand", spec["strand"])
        obj = E.make_loc(spec["blocks"], lst, plain)
        ops["other"] = E.make_loc(spec["other"], lst, plain)
        ops["far"] = E.make_loc([[0, 1]], lst, plain)  # the generator keeps position 0..3 free of blocks
        # ANOTHER genome under the same name, of the same length (a haplotype, a corrected assembly): same id, other bases
        R2 = R[::-1]
        ops["other_genome"] = Parent(id=plain.id, sequence=Sequence(R2, Alphabet.NT_EXTENDED_GAPPED, id=plain.id,
                                                                    type=plain.sequence.sequence_type), parent=plain.parent)
        return obj, ops
    if kind == "parent":
        from inscripta.biocantor.location.strand import Strand

        sq = Sequence(R, Alphabet.NT_EXTENDED_GAPPED, id="chr", type=SequenceType.CHROMOSOME)
        st = Strand.from_symbol(spec["strand"])
        b = spec["blocks"][0]
        up = Parent(id="asm", sequence_type="assembly")
        shape = spec.get("pshape", 0)
        kw = [dict(sequence=sq, strand=st),                                   # sequence + explicit strand, no location
              dict(id="chr", sequence_type="chromosome", strand=st),
              dict(sequence=sq, location=E.make_loc([b], spec["strand"])),
              dict(id="chr", location=E.make_loc([b], spec["strand"]), parent=up),
              dict(sequence=sq), dict(id="chr", sequence_type="chromosome", parent=up),
              dict(sequence=sq, strand=st, parent=up)][shape % 7]
        # (an "uncached" twin is built around the constructor cache: it shares nothing with the object under test)
        obj = Parent.__wrapped__(**kw) if spec.get("uncached") else Parent(**kw)
        ops["other_loc"] = E.make_loc(spec["other"], spec["strand"])
        ops["kw"] = kw
        return obj, ops
    if kind == "sequence":
        loc = E.make_loc(spec["blocks"][:1], spec["strand"])
        data = str(E.make_loc(spec["blocks"][:1], spec["strand"], Parent(id="chr", sequence=Sequence(
            R, Alphabet.NT_EXTENDED_GAPPED, id="chr"))).extract_sequence())
        obj = Sequence(data, Alphabet.NT_EXTENDED_GAPPED, parent=Parent(id="chr", location=loc))
        b = spec["blocks"][0]
        nb = [b[1], min(len(R), b[1] + 3)] if spec["strand"] == "+" else [max(0, b[0] - 3), b[0]]
        oloc = E.make_loc([nb], spec["strand"])
        od = str(E.make_loc([nb], spec["strand"], Parent(id="chr", sequence=Sequence(
            R, Alphabet.NT_EXTENDED_GAPPED, id="chr"))).extract_sequence()) if nb[0] < nb[1] else ""
        ops["other"] = Sequence(od, Alphabet.NT_EXTENDED_GAPPED, parent=Parent(id="chr", location=oloc))
        # chunks that must NOT be concatenable: overlapping the receiver, and the receiver's own location again
        ob = [max(0, b[0] - 1), min(len(R), b[0] + 2)] if spec["strand"] == "-" else [max(0, b[1] - 2), min(len(R), b[1] + 1)]
        ops["other_overlap"] = Sequence("A" * (ob[1] - ob[0]), Alphabet.NT_EXTENDED_GAPPED,
                                        parent=Parent(id="chr", location=E.make_loc([ob], spec["strand"])))
        ops["other_same"] = Sequence(data, Alphabet.NT_EXTENDED_GAPPED, parent=Parent(id="chr", location=loc))
        return obj, ops
    tx = mk_tx(spec["blocks"], spec["strand"], spec["cds"], None, frames=spec["frames"], parent=par,
               transcript_id="tx1", transcript_symbol="sym", sequence_name="chr", qualifiers={k: list(v) for k, v in quals.items()},
               protein_id="prot", product="prod")
    if kind == "cds":
        return tx.cds, ops
    if kind == "transcript":
        return tx, ops
    tx2 = mk_tx(spec["blocks"][:1], spec["strand"], None, None, parent=par, transcript_id="tx2", sequence_name="chr")
    # (the gene's free qualifiers also hold keys that its children ADD on export -- their own identifiers)
    gquals = {"note": ["from-gene"], "k": ["v"], "g": ["only-gene"], "protein_id": ["gene-level-pid"],
              "transcript_id": ["gene-level-tid"], "product": ["gene-level-product"]}
    gene = GeneInterval([tx, tx2], gene_id="g1", gene_symbol="gs", locus_tag="lt", sequence_name="chr",
                        qualifiers={k: list(v) for k, v in gquals.items()}, parent_or_seq_chunk_parent=par)
    if kind == "gene":
        return gene, ops
    coll = AnnotationCollection(genes=[gene], sequence_name="chr", parent_or_seq_chunk_parent=par,
                                qualifiers={k: list(v) for k, v in quals.items()})
    return coll, ops


def _collect(o, into):
    """the object becomes a member of a new aggregate built WITHOUT a parent argument; answers with the aggregate's span
    and member identifiers"""
    from inscripta.biocantor.gene.collections import AnnotationCollection
    from inscripta.biocantor.gene.gene import GeneInterval

    g = GeneInterval([o]) if type(o).__name__ == "TranscriptInterval" else o
    if into == "gene":
        return [g.start, g.end, sorted(str(x) for x in g.children_guids)]
    c = AnnotationCollection(genes=[g])
    return [c.start, c.end, sorted(str(x) for x in c.children_guids)]


def _adopt(o, p):
    from inscripta.biocantor.gene.collections import AnnotationCollection

    AnnotationCollection(genes=[o], parent_or_seq_chunk_parent=p["adopter"])
    loc = o.chromosome_location
    return [str(loc), loc.parent.id if loc.parent is not None else None, str(o.transcripts[0].chromosome_location),
            o.transcripts[0].chromosome_location.parent is None]


def actions(kind):
    """name -> callable(obj, ops).  Names are the alphabet of History.tla."""
    from inscripta.biocantor.gene.codon import TranslationTable
    from inscripta.biocantor.location.strand import Strand
    from inscripta.biocantor.parent import Parent, SequenceType

    def first_pos(o):
        return o.blocks[0].start

    common_cache = {
        # equality / hash with a twin is judged after the history (field 10 of the event); as an action it is a no-op read
        "eq_twin": lambda o, p: (o == o, hash(o) == hash(o)),
        "cache_clear": lambda o, p: Parent.cache_clear(),
        "cache_flood": lambda o, p: [Parent(id="flood%d" % i) for i in range(1100)] and None,
        "cache_warm": lambda o, p: [Parent(id="chr", sequence_type=SequenceType.CHROMOSOME) for _ in range(3)] and None,
    }
    if kind == "location":
        A = {
            "blocks": lambda o, p: o.blocks, "num_blocks": lambda o, p: o.num_blocks,
            "is_overlapping": lambda o, p: o.is_overlapping, "is_contiguous": lambda o, p: o.is_contiguous,
            "start_end": lambda o, p: (o.start, o.end), "len": lambda o, p: len(o),
            "extract_sequence": lambda o, p: o.extract_sequence(), "gap_list": lambda o, p: o.gap_list(),
            "gaps_location": lambda o, p: o.gaps_location(), "full_span": lambda o, p: o._full_span_interval,
            "scan_blocks": lambda o, p: list(o.scan_blocks()), "hash": lambda o, p: hash(o), "str": lambda o, p: str(o),
            "rel_to_parent_0": lambda o, p: o.relative_to_parent_pos(0),
            "parent_to_rel_first": lambda o, p: o.parent_to_relative_pos(first_pos(o)),
            "first_ancestor_asm": lambda o, p: o.first_ancestor_of_type("assembly"),
            "has_ancestor_asm": lambda o, p: o.has_ancestor_of_type("assembly"),
            "parent_depth": lambda o, p: (lambda f: f(f, o.parent))(lambda f, q: 0 if q is None else 1 + f(f, q.parent)),
            "first_ancestor": lambda o, p: o.first_ancestor_of_type("chromosome"),
            "has_ancestor": lambda o, p: o.has_ancestor_of_type("chromosome"),
            "union_other": lambda o, p: o.union(p["other"]), "intersection_other": lambda o, p: o.intersection(p["other"]),
            "minus_other": lambda o, p: o.minus(p["other"]), "union_self": lambda o, p: o.union(o),
            "optimize_blocks": lambda o, p: o.optimize_blocks(), "reverse": lambda o, p: o.reverse(),
            "reset_strand": lambda o, p: o.reset_strand(Strand.MINUS), "shift": lambda o, p: o.shift_position(1),
            "relative_interval": lambda o, p: o.relative_interval_to_parent_location(0, min(2, len(o)), Strand.PLUS),
            "location_relative_to_other": lambda o, p: p["other"].location_relative_to(o),
            "merge_overlapping": lambda o, p: o.merge_overlapping(),
            "optimize_and_combine": lambda o, p: o.optimize_and_combine_blocks(),
            "extend_absolute_0": lambda o, p: o.extend_absolute(0, 0),
            "minus_disjoint": lambda o, p: o.minus(p["far"]),
            "intersection_self": lambda o, p: o.intersection(o),
            "contains_other": lambda o, p: o.contains(p["other"]),
            "has_overlap_other": lambda o, p: o.has_overlap(p["other"]),
            "gaps_op": lambda o, p: o.gaps_location(),
            "scan_windows_op": lambda o, p: list(o.scan_windows(2, 1, 0)),
            # the location moved onto another genome of the same name and length reads THAT genome's bases
            "reparent_extract": lambda o, p: o.reset_parent(p["other_genome"]).extract_sequence(),
        }
    elif kind == "parent":
        A = {
            "id": lambda o, p: o.id, "sequence_type": lambda o, p: o.sequence_type, "strand": lambda o, p: o.strand,
            "location": lambda o, p: o.location, "sequence": lambda o, p: o.sequence, "parent_of_parent": lambda o, p: o.parent,
            "hash": lambda o, p: hash(o), "repr": lambda o, p: repr(o),
            "strip_location_info": lambda o, p: o.strip_location_info(),
            "reset_location_none": lambda o, p: o.reset_location(None),
            "first_ancestor": lambda o, p: o.first_ancestor_of_type("assembly"),
            "has_ancestor": lambda o, p: o.has_ancestor_of_type("assembly"),
            "has_ancestor_sequence": lambda o, p: o.has_ancestor_sequence(o.sequence) if o.sequence is not None else None,
            "equals_except_location_twin": lambda o, p: o.equals_except_location(Parent(**p["kw"])),
            "reset_location_other": lambda o, p: o.reset_location(p["other_loc"]),
            "strip_then_reset": lambda o, p: o.strip_location_info().reset_location(p["other_loc"]),
            "make_location_on_it": lambda o, p: p["other_loc"].reset_parent(o),
            "build_equal_parent": lambda o, p: Parent(**p["kw"]),
        }
    elif kind == "sequence":
        A = {
            "str": lambda o, p: str(o), "len": lambda o, p: len(o), "hash": lambda o, p: hash(o),
            "location_on_parent": lambda o, p: o.location_on_parent, "parent_strand": lambda o, p: o.parent_strand,
            "slice_1_3": lambda o, p: o[1:3], "reverse_complement": lambda o, p: o.reverse_complement(),
            "summary": lambda o, p: o.summary(), "has_ancestor": lambda o, p: o.has_ancestor_of_type("chromosome"),
            "append_other": lambda o, p: o.append(p["other"]), "reverse_complement_op": lambda o, p: o.reverse_complement(),
            "slice_op": lambda o, p: o[0:2],
        }
    elif kind == "cds":
        A = {
            "extract_sequence": lambda o, p: o.extract_sequence(),
            "chunk_relative_codon_locations": lambda o, p: o.chunk_relative_codon_locations,
            "chromosome_codon_locations": lambda o, p: o.chromosome_codon_locations,
            "num_codons": lambda o, p: o.num_codons, "num_chunk_relative_codons": lambda o, p: o.num_chunk_relative_codons,
            "translate": lambda o, p: o.translate(),
            "translate_truncated": lambda o, p: o.translate(truncate_at_in_frame_stop=True,
                                                            translation_table=TranslationTable.PROKARYOTE),
            "has_valid_stop": lambda o, p: o.has_valid_stop, "has_in_frame_stop": lambda o, p: o.has_in_frame_stop,
            "has_canonical_start_codon": lambda o, p: o.has_canonical_start_codon,
            "scan_codons": lambda o, p: [str(c) for c in o.scan_codons()], "frames": lambda o, p: list(o.frames),
            "chunk_relative_frames": lambda o, p: list(o.chunk_relative_frames), "to_dict": lambda o, p: o.to_dict(),
            "guid": lambda o, p: o.guid, "hash": lambda o, p: hash(o),
            "chromosome_location": lambda o, p: o.chromosome_location,
            "chunk_relative_location": lambda o, p: o.chunk_relative_location,
            "scan_window": lambda o, p: list(o.scan_chromosome_codon_locations(o.start + 1, o.end)),
            "scan_window_expand": lambda o, p: list(o.scan_chromosome_codon_locations(o.start + 1, o.end, True)),
            "get_spliced_sequence": lambda o, p: o.get_spliced_sequence(),
            "to_gff": lambda o, p: [str(r) for r in o.to_gff()],
            "to_gff_parent_qualifiers": lambda o, p: [str(r) for r in o.to_gff(parent="P", parent_qualifiers={
                "note": {"from_parent"}, "extra": {"x"}})],
            "export_qualifiers_parent": lambda o, p: o.export_qualifiers({"note": {"from_parent"}, "extra": {"x"}}),
            "optimize_blocks_op": lambda o, p: o.optimize_blocks(),
            "liftover_to_chunk": lambda o, p: o.liftover_to_parent_or_seq_chunk_parent(p["chunk2"]),
            "incorporate_variant": lambda o, p: o.incorporate_variants(p["variant"]),
        }
    elif kind == "transcript":
        A = {
            "get_transcript_sequence": lambda o, p: o.get_transcript_sequence(),
            "get_cds_sequence": lambda o, p: o.get_cds_sequence(), "get_protein_sequence": lambda o, p: o.get_protein_sequence(),
            "get_5p_interval": lambda o, p: o.get_5p_interval(), "get_3p_interval": lambda o, p: o.get_3p_interval(),
            "cds_size": lambda o, p: o.cds_size, "is_coding": lambda o, p: o.is_coding,
            "has_in_frame_stop": lambda o, p: o.has_in_frame_stop,
            "chromosome_location": lambda o, p: o.chromosome_location,
            "chunk_relative_location": lambda o, p: o.chunk_relative_location, "to_dict": lambda o, p: o.to_dict(),
            "guid": lambda o, p: o.guid, "hash": lambda o, p: hash(o),
            "chromosome_gaps_location": lambda o, p: o.chromosome_gaps_location,
            "chromosome_span": lambda o, p: o.chromosome_span, "identifiers": lambda o, p: o.identifiers,
            "has_sequence": lambda o, p: o.has_sequence, "get_spliced_sequence": lambda o, p: o.get_spliced_sequence(),
            "get_reference_sequence": lambda o, p: o.get_reference_sequence(),
            "get_genomic_sequence": lambda o, p: o.get_genomic_sequence(),
            "sequence_pos_to_transcript": lambda o, p: o.sequence_pos_to_transcript(o.start),
            "cds_codons": lambda o, p: o.cds.chunk_relative_codon_locations if o.cds else None,
            "export_qualifiers": lambda o, p: o.export_qualifiers(),
            "to_gff": lambda o, p: [str(r) for r in o.to_gff()],
            "to_gff_parent_qualifiers": lambda o, p: [str(r) for r in o.to_gff(parent="P", parent_qualifiers={
                "note": {"from_parent"}, "extra": {"x"}})],
            "to_bed12": lambda o, p: str(o.to_bed12()),
            "export_qualifiers_parent": lambda o, p: o.export_qualifiers({"note": {"from_parent"}, "extra": {"x"}}),
            "intersect_location": lambda o, p: o.intersect(o.chromosome_location.blocks[0].reset_parent(None)),
            "liftover_to_chunk": lambda o, p: o.liftover_to_parent_or_seq_chunk_parent(p["chunk2"]),
            "incorporate_variant": lambda o, p: o.incorporate_variants(p["variant"]),
            "collect_into_gene": lambda o, p: _collect(o, "gene"),
            "collect_into_collection": lambda o, p: _collect(o, "collection"),
        }
    elif kind == "gene":
        A = {
            "to_dict": lambda o, p: o.to_dict(), "guid": lambda o, p: o.guid, "hash": lambda o, p: hash(o),
            "is_coding": lambda o, p: o.is_coding, "get_primary_transcript": lambda o, p: o.get_primary_transcript(),
            "get_primary_cds_sequence": lambda o, p: o.get_primary_cds_sequence(),
            "get_primary_protein": lambda o, p: o.get_primary_protein(),
            "get_merged_transcript": lambda o, p: o.get_merged_transcript(), "get_merged_cds": lambda o, p: o.get_merged_cds(),
            "chromosome_location": lambda o, p: o.chromosome_location, "identifiers": lambda o, p: o.identifiers,
            "export_qualifiers": lambda o, p: o.export_qualifiers(),
            "get_reference_sequence": lambda o, p: o.get_reference_sequence(), "children_guids": lambda o, p: o.children_guids,
            "to_gff": lambda o, p: [str(r) for r in o.to_gff()],
            "query_by_guids": lambda o, p: o.query_by_guids([o.transcripts[0].guid]),
            "liftover_to_chunk": lambda o, p: o.liftover_to_parent_or_seq_chunk_parent(p["chunk2"]),
            "incorporate_variant": lambda o, p: o.incorporate_variants(p["variant"]),
            "collect_into_collection": lambda o, p: _collect(o, "collection"),
            "adopt_then_location": lambda o, p: _adopt(o, p),
        }
    else:
        A = {
            "to_dict": lambda o, p: o.to_dict(), "guid": lambda o, p: o.guid, "hash": lambda o, p: hash(o),
            "children": lambda o, p: o.children, "is_empty": lambda o, p: o.is_empty,
            "chromosome_location": lambda o, p: o.chromosome_location,
            "query_all": lambda o, p: o.query_by_position(o.start, o.end),
            "query_guids": lambda o, p: o.query_by_guids([g.guid for g in o.genes]),
            "iter_order": lambda o, p: [x.guid for x in o], "get_reference_sequence": lambda o, p: o.get_reference_sequence(),
            "hierarchical_children_guids": lambda o, p: o.hierarchical_children_guids,
            "to_gff": lambda o, p: [str(r) for r in o.to_gff()],
            "query_by_position": lambda o, p: o.query_by_position(o.start + 1, o.end - 1, completely_within=False),
            "query_by_interval_guids": lambda o, p: o.query_by_interval_guids([o.genes[0].transcripts[0].guid]),
            "to_genbank_dict": lambda o, p: o.to_dict(chromosome_relative_coordinates=False)
            if o.is_chunk_relative else o.to_dict(),
            "incorporate_variant": lambda o, p: o.incorporate_variants(p["variant"]),
        }
    A.update(common_cache)
    return A


def _spec(rnd, mode=None):
    from bcverif.props.c06 import cds_blocks
    from bcverif.props.c05 import _consistent_frames

    G = 30
    R = "".join(rnd.choice("ACGT") for _ in range(G))
    k = rnd.choice([1, 2, 2, 3]) if mode not in ("loc-single", "loc-unstranded") else rnd.choice([1, 1, 2])
    cuts = sorted(rnd.sample(range(4, G - 4), 2 * k))
    blocks = [[cuts[2 * i], cuts[2 * i + 1]] for i in range(k)]
    if mode == "loc-overlap":
        # blocks that strictly overlap (a -1 frameshift layout), a share of them with a third block behind a gap
        a = rnd.randrange(4, G - 17)
        b = rnd.randrange(a + 3, a + 8)
        c = rnd.randrange(a + 1, b - 1)
        blocks = sorted([[a, b], [c, rnd.randrange(b, b + 4)]])
        if rnd.random() < 0.4:
            blocks.append([blocks[-1][1] + 2, blocks[-1][1] + 4])
    st = rnd.choice("+-")
    n = sum(b[1] - b[0] for b in blocks)
    ca = rnd.randrange(0, max(1, n - 3))
    cb = rnd.randrange(ca + 1, n + 1)
    cds = cds_blocks(blocks, st, ca, cb) if rnd.random() < 0.8 else None
    f0 = rnd.choice([0, 0, 1, 2])
    frames = list(_consistent_frames(cds, st, f0)) if cds else None
    chunk = None
    r = rnd.random() if mode is None or mode.startswith("loc-") else {"none": 0.9, "enclosing": 0.1, "cutting": 0.4}[mode]
    if r < 0.25:
        chunk = (rnd.randrange(0, blocks[0][0] + 1), rnd.randrange(blocks[-1][1], G + 1))
    elif r < 0.5:
        # the chunk boundary falls inside a terminal exon (of the CDS when there is one): block count kept, leading /
        # trailing bases sliced off
        tb = cds if cds else blocks
        side = rnd.choice(["lo", "hi", "both", "any"])
        lo = rnd.randrange(0, tb[0][0] + 1)
        hi = rnd.randrange(tb[-1][1], G + 1)
        if side in ("lo", "both") and tb[0][1] - tb[0][0] >= 2:
            lo = rnd.randrange(tb[0][0] + 1, tb[0][1])
        if side in ("hi", "both") and tb[-1][1] - tb[-1][0] >= 2:
            hi = rnd.randrange(tb[-1][0] + 1, tb[-1][1])
        if side == "any":
            lo, hi = rnd.randrange(0, blocks[0][1]), rnd.randrange(blocks[-1][0] + 1, G + 1)
        chunk = (lo, hi) if lo < hi else (tb[0][0], tb[-1][1])
    o0 = rnd.randrange(0, G - 6)
    vlo, vhi = blocks[0][0], blocks[0][1]
    if chunk:
        vlo = min(max(vlo, chunk[0]), vhi - 1)
    if mode == "loc-overlap":
        cds, frames = None, None
        if st == "-":
            blocks = sorted(blocks, key=lambda x: (x[0], -x[1]))
    return {"minus_chunk": rnd.random() < 0.25, "root": R, "blocks": blocks, "strand": st, "loc_strand": "." if mode == "loc-unstranded" else (st if mode == "loc-overlap" else rnd.choice([st, st, st, "."])), "cds": cds,
            "frames": frames, "chunk": chunk,
            "other": [[o0, o0 + rnd.randrange(1, 6)]], "vpos": rnd.randrange(vlo, vhi)}


class _Stranger:
    """an object of a class the library knows nothing about"""


def _replay(args):
    kind, hists, seed = args
    setup_repo_import()
    from inscripta.biocantor.parent import Parent

    rnd = random.Random(seed)
    acts = actions(kind)
    ev = []
    modes = ["loc-any", "loc-single", "loc-unstranded", "loc-deep", "loc-overlap"] if kind == "location" else \
        [None] if kind == "sequence" else ["p0", "p1", "p2", "p3", "p4", "p5", "p6"] if kind == "parent" else \
        ["none", "enclosing", "cutting", "cutting", "cutting"] + (["noparent"] if kind == "gene" else [])
    for h, mode in [(h, m) for h in hists for m in modes]:
        if any(a.startswith("adopt_") for a in h[:-1]):
            continue  # adoption changes the member (by design): it is only asked as the LAST step of a history
        sp = _spec(rnd, None if kind == "parent" else ("none" if mode == "noparent" else mode))
        if mode == "noparent":
            sp["noparent"] = True
        if kind == "parent":
            sp["pshape"] = int(mode[1:])
        if kind == "cds" and not sp["cds"]:
            sp = _spec(rnd, mode)
            if not sp["cds"]:
                continue
        if mode == "loc-deep":
            # the object lives under chr -> asm; an UNRELATED, shallower hierarchy with the same ids (chr without asm) is
            # built first, so that the process-wide Parent cache is warm with a look-alike when X is constructed
            sp["deep"] = True
            try:
                from inscripta.biocantor.parent import SequenceType
                from inscripta.biocantor.sequence import Sequence
                from inscripta.biocantor.sequence.alphabet import Alphabet

                shadow = Parent(id="ctg", sequence=Sequence(sp["root"], Alphabet.NT_EXTENDED_GAPPED, id="ctg", type="contig"),
                                parent=Parent(id="chr", sequence_type="chromosome"))
                E.make_loc(sp["blocks"], sp["strand"], shadow)
            except Exception:
                pass
        try:
            X, ops = factory(kind, sp)
        except Exception:
            continue
        unknown = [a for a in h if a not in acts]
        if unknown:
            ev.append(["hist", kind, h, "?", "?", "??", "??", "", "", "!unknown:" + unknown[0]])
            continue
        if kind == "parent":
            # reading a Parent fills its lazily computed slots: the content before the history is read from an
            # independent, uncached twin so that X itself is untouched when the history starts
            T0, _ = factory(kind, dict(sp, uncached=True))
            before = snapshot([T0])
        else:
            before = snapshot([X] + [v for k2, v in sorted(ops.items()) if k2 in ("other",)])
        ans = None
        for a in h:
            ans = answer(lambda a=a: acts[a](X, ops))
        after = snapshot([X] + [v for k2, v in sorted(ops.items()) if k2 in ("other",)])
        if any(a.startswith("adopt_") for a in h):
            before = after   # adoption re-parents the member by design: not an operand-preserving operation
        # the fresh twin: same content, built after clearing the process-wide Parent cache
        Parent.cache_clear()
        T, tops = factory(kind, sp)
        tans = answer(lambda: acts[h[-1]](T, tops))
        # equality with the twin is itself an accessor ("eq_twin"): asked of X after the history
        ev.append(["hist", kind, h, ans[0], ans[1], tans[0], tans[1], before, after,
                   # (equal to its twin -- and to nothing of another kind)
                   "eq" if (X == T and hash(X) == hash(T) and not (X == _Stranger()) and not (X == 0) and X != None  # noqa: E711
                            and not (X == "x")) else "neq"])
    return ev



# ---------------------------------------------------------------------------------------------------------------------
# The memo machine (spec/Memo.tla, MemoMC.tla, trace/MemoTrace.tla): behaviours simulated by TLC are performed on real
# transcripts; after every call the answer is compared with a fresh twin's (verdict) and cache_info() of all eight
# memo tables is recorded and validated STEP BY STEP against the machine (model fidelity).
MEMO_TABLES = [("tx", "get_protein_sequence"), ("tx", "get_cds_sequence"), ("cds", "translate"),
               ("cds", "has_in_frame_stop"), ("cds", "extract_sequence"), ("cds", "chunk_relative_codon_locations"),
               ("cds", "chromosome_codon_locations"), ("cds", "prep")]
MEMO_LAYOUTS = [
    # exons, strand, cds, chunk (None = chromosome parent).  CDS sequences are planted: GTG start (M only under table
    # 11), an in-frame TAA before the end, a final stop.
    ([[2, 40]], "+", [[5, 35]], None), ([[2, 40]], "-", [[5, 35]], None),
    ([[2, 14], [20, 44]], "+", [[5, 14], [20, 41]], None), ([[2, 14], [20, 44]], "-", [[5, 14], [20, 41]], None),
    ([[2, 14], [20, 30], [36, 50]], "+", [[8, 14], [20, 30], [36, 50]], (1, 52)),
    ([[2, 14], [20, 44]], "-", [[5, 14], [20, 41]], (0, 48)),
    ([[2, 14], [20, 44]], "+", [[5, 14], [20, 41]], (7, 38)), ([[2, 40]], "+", [[5, 35]], (9, 30)),
]


def _plant(layout, rnd):
    """a chromosome whose CDS reads GTG ... TAA ... <sense> TGA in frame"""
    exons, st, cds, chunk = layout
    G = 56
    root = [rnd.choice("ACGT") for _ in range(G)]
    pos = [p for b in cds for p in range(b[0], b[1])]
    if st == "-":
        pos = pos[::-1]
    n = len(pos) - len(pos) % 3
    sense = []
    for i in range(0, n, 3):
        c = rnd.choice(["GCT", "AAA", "CCG", "TTC", "GGA", "CAT"])
        sense.append(c)
    sense[0] = rnd.choice(["GTG", "TTG", "ATG"])
    if len(sense) > 4:
        sense[rnd.randrange(2, len(sense) - 1)] = "TAA"
    sense[-1] = "TGA"
    comp = {"A": "T", "C": "G", "G": "C", "T": "A"}
    for j, ch in enumerate("".join(sense)):
        root[pos[j]] = ch if st == "+" else comp[ch]
    return "".join(root)


def _memo_obs(tx):
    cds = tx.cds
    out = []
    for who, name in MEMO_TABLES:
        o = tx if who == "tx" else cds
        if name == "prep":
            name = "_prepare_multi_exon_window_for_scan_codon_locations" if cds.num_blocks > 1 else \
                "_prepare_single_exon_window_for_scan_codon_locations"
        w = None
        for k, v in vars(o).items():
            if k.startswith("__wire|") and k.endswith("|" + name):
                w = v
        if w is None:
            rope = getattr(type(o), name, None)
            if rope is not None and not isinstance(getattr(type(o), name), property) and callable(getattr(o, name, None)) \
                    and hasattr(getattr(o, name), "cache_info") and name not in (
                    "has_in_frame_stop", "chunk_relative_codon_locations", "chromosome_codon_locations"):
                w = getattr(o, name)
        if w is None or not hasattr(w, "cache_info"):
            out.append([0, 0, 0])
        else:
            ci = w.cache_info()
            out.append([ci.hits, ci.misses, ci.currsize])
    return out


def _memo_call(tx, method, form, wins):
    from inscripta.biocantor.gene.codon import TranslationTable

    args = {"()": (), "(T)": (True,), "(F,11)": (False, TranslationTable.PROKARYOTE),
            "(F,1,F)": (False, TranslationTable.DEFAULT, False)}
    who, name = method.split(".")
    o = tx if who == "tx" else tx.cds
    if name in ("get_protein_sequence", "translate"):
        return getattr(o, name)(*args[form])
    if name == "scan_chunk_window":
        return list(o.scan_chunk_relative_codon_locations(*wins[form]))
    if name == "scan_chrom_window":
        return list(o.scan_chromosome_codon_locations(*wins[form]))
    if name == "scan_codons":
        return [str(c) for c in o.scan_codons()]
    v = getattr(o, name)
    return v() if callable(v) and name in ("get_cds_sequence", "extract_sequence") else v


def _memo_replay(args):
    behaviours, seed = args
    setup_repo_import()
    from inscripta.biocantor.io.parser import seq_chunk_to_parent
    from inscripta.biocantor.parent import Parent
    from bcverif.props.c05 import _consistent_frames

    rnd = random.Random(seed)
    ev = []
    tid = 0
    for beh in behaviours:
        layout = rnd.choice(MEMO_LAYOUTS)
        exons, st, cds, chunk = layout
        root = _plant(layout, rnd)
        frames = list(_consistent_frames(cds, st, 0))

        def build():
            par = seq_chunk_to_parent(root[chunk[0]:chunk[1]], "chr", chunk[0], chunk[1]) if chunk else None
            return mk_tx_(exons, st, cds, root if not chunk else None, frames, par)

        lo, hi = cds[0][0], cds[-1][1]
        wins = {"w1": (lo + 4, hi - 3), "w2": (lo + 7, hi)}
        try:
            X = build()
        except Exception:
            continue
        tid += 1
        ev.append(["new", tid])
        twin = {}
        for (method, form, _pred) in beh:
            ans = answer(lambda: _memo_call(X, method, form, wins))
            key = (method, form)
            if key not in twin:
                Parent.cache_clear()
                T = build()
                twin[key] = answer(lambda: _memo_call(T, method, form, wins))
            ev.append(["call", tid, method, form, _memo_obs(X), ans[0] == twin[key][0], ans[1] == twin[key][1]])
    return ev


def mk_tx_(exons, st, cds, root, frames, par):
    return mk_tx_impl()(exons, st, cds, root, frames=frames, parent=par, transcript_id="txm")


def mk_tx_impl():
    from bcverif.props.c06 import mk_tx

    return mk_tx


def _memo_corrupt(ev, rnd):
    if ev[0] != "call":
        return None
    ev[5] = not ev[5]
    return ev


def memo_leg(chk):
    quick = chk.quick
    chk.mc("MemoMC", "MemoMC.cfg", note="the memo machine of TranscriptInterval / CDSInterval (eight bounded LRU tables keyed "
           "by literal call form, nested calls in program order, the codon-locations flag): every reachable table content, "
           "every public call from it answers with the method's own answer; bounds, key uniqueness, cache_info bookkeeping")
    chk.mc("MemoMC", "MemoMC_neg.cfg", expect_violation=True,
           note="translate() filed under a key that forgets the translation table (as seeded change C05-3 did)")
    r = chk.mc("MemoMC", "MemoSim.cfg", workers=1, simulate="num=%d" % (160 if quick else 4000),
               extra=["-depth", "11", "-seed", str(chk.seed + 41)],
               note="simulated behaviours of 10 public calls, each step with the cache_info() vector the machine predicts; "
                    "emitted for replay on real transcripts")
    from bcverif.runner import parse_prints

    behs = [b[0] for b in parse_prints(r["out"], "MEMO")]
    if len(behs) < 50:
        raise MachineryError("TLC emitted only %d memo behaviours" % len(behs))
    parts = pmap(_memo_replay, [(behs[i::16], chk.seed * 31 + i) for i in range(16)])
    evs = []
    tid = 0
    for p in parts:  # renumber objects across workers
        m = {}
        for e in p:
            if e[0] == "new":
                tid += 1
                m[e[1]] = tid
            e[1] = m[e[1]]
            evs.append(e)
    chk.validate("MemoTrace", evs, shard=3000, label="memo", cfg="MemoTrace.cfg", corrupt=_memo_corrupt,
                 align=lambda e: e[0] == "new")
    divs = [c for (_off, c) in chk.last_info if c and c[0] == "DIV"]
    # binding control of the stepped validation itself: one cache_info() number of one call of each of the first
    # objects is changed; the machine must diverge at exactly those lines
    import copy
    import os
    from bcverif.runner import _validate_shard

    # (the control needs objects that follow the machine: under model drift there is nothing to corrupt)
    ctl, want, nobj = [], [], 0
    if not divs:
        for e in evs:
            if e[0] == "new":
                nobj += 1
                if nobj > 12:
                    break
                k = 0
            e2 = copy.deepcopy(e)
            if e[0] == "call":
                k += 1
                if k == 3:
                    e2[4][(nobj * 3) % 8][1] += 1
                    want.append(len(ctl) + 1)
            ctl.append(e2)
        cpath = os.path.join(chk.dir, "traces", "MemoTrace_fidelity_control.ndjson")
        with open(cpath, "w") as f:
            for e in ctl:
                f.write(json.dumps(e, separators=(",", ":")) + "\n")
        res = _validate_shard((chk.dir, "MemoTrace", cpath, len(ctl), None, 600, "MemoTrace.cfg"))
        got = sorted(c[1][0] for c in res["info"] if c and c[0] == "DIV")
        if got != want:
            raise MachineryError("stepped memo validation: corrupted cache_info lines %s, machine diverged at %s" % (want, got))
    else:
        got = []
    objects = sum(1 for e in evs if e[0] == "new")
    calls = sum(1 for e in evs if e[0] == "call")
    chk.extra["memo_machine"] = {
        "behaviours_from_tlc": len(behs), "objects": objects, "calls_validated_step_by_step": calls,
        "objects_whose_tables_follow_the_machine": objects - len(divs),
        "stepped_validation_control": ("%d corrupted cache_info lines, all %d located by the machine" % (len(want), len(got)))
        if not divs else "skipped: the real tables no longer follow the machine (model drift)",
        "divergences": [{"line": d[1][0], "table": d[1][1], "machine": d[1][2], "observed": d[1][3]} for d in divs[:8]],
        "meaning": "a divergence is model drift (the call graph of the memoised methods changed), not a violation; "
                   "the C10 verdict of this leg is the answer comparison with a fresh twin at every step"}
    return evs


# ---------------------------------------------------------------------------------------------------------------------
# The Parent constructor cache (spec/PCache.tla, PCacheMC.tla, trace/PCacheTrace.tla)
def _parent_pool():
    """twelve LOOK-ALIKE keyword-argument sets for Parent(): they differ in exactly one component"""
    from inscripta.biocantor.location.location_impl import CompoundInterval, SingleInterval
    from inscripta.biocantor.location.strand import Strand
    from inscripta.biocantor.parent import Parent
    from inscripta.biocantor.sequence import Sequence
    from inscripta.biocantor.sequence.alphabet import Alphabet

    asm = Parent(id="asm", sequence_type="assembly")
    asm2 = Parent(id="asm2", sequence_type="assembly")
    return {
        1: dict(id="chr", sequence_type="chromosome"),
        2: dict(id="chr", sequence_type="chromosome", parent=asm),
        3: dict(id="chr"),
        4: dict(id="chr", sequence_type="contig"),
        5: dict(id="chr", sequence_type="chromosome", strand=Strand.PLUS),
        6: dict(id="chr", sequence_type="chromosome", location=SingleInterval(0, 5, Strand.PLUS)),
        7: dict(id="chr", sequence_type="chromosome", location=SingleInterval(0, 5, Strand.MINUS)),
        8: dict(id="chr", sequence_type="chromosome", location=CompoundInterval([0, 3], [2, 5], Strand.PLUS)),
        9: dict(id="chr", sequence=Sequence("ACGTACGT", Alphabet.NT_STRICT, id="chr", type="chromosome")),
        10: dict(id="chr", sequence=Sequence("ACGTACGA", Alphabet.NT_STRICT, id="chr", type="chromosome")),
        11: dict(id="chr", sequence=Sequence("ACGTACGT", Alphabet.NT_EXTENDED, id="chr", type="chromosome")),
        12: dict(id="chr", sequence_type="chromosome", parent=asm2),
    }


def _parent_content(q, depth=0):
    if q is None or depth > 6:
        return None
    loc = q.location
    seq = q.sequence
    return [q.id, str(q.sequence_type), q.strand.name if q.strand is not None else None,
            [E.loc(loc), E.pid(loc)] if loc is not None else None,
            [str(seq), seq.alphabet.name, seq.id, str(seq.sequence_type)] if seq is not None else None,
            _parent_content(q.parent, depth + 1)]


_FLOOD = [0]


def _pcache_replay(args):
    behaviours, seed = args
    setup_repo_import()
    from inscripta.biocantor.parent import Parent

    pool = _parent_pool()
    raw = Parent.__wrapped__
    want = {k: _parent_content(raw(**kw)) for k, kw in pool.items()}
    ev = []
    tid = seed * 100000

    def obs():
        ci = Parent.cache_info()
        return [ci.hits, ci.misses, ci.currsize]

    for beh in behaviours:
        tid += 1
        Parent.cache_clear()
        ev.append(["new", tid])
        for (act, x, _pred) in beh:
            if act == "construct":
                got = Parent(**pool[x])
                ev.append(["construct", tid, x, obs(), _parent_content(got) == want[x]])
            elif act == "flood":
                for _ in range(x):
                    _FLOOD[0] += 1
                    Parent(id="flood%d_%d" % (seed, _FLOOD[0]))
                ev.append(["flood", tid, x, obs(), True])
            else:
                Parent.cache_clear()
                ev.append(["clear", tid, 0, obs(), True])
    Parent.cache_clear()
    return ev


def _pcache_corrupt(ev, rnd):
    if ev[0] == "new":
        return None
    ev[4] = not ev[4]
    return ev


def pcache_leg(chk):
    quick = chk.quick
    setup_repo_import()
    from inscripta.biocantor.parent import Parent
    from bcverif.runner import parse_prints

    chk.mc("PCacheMC", "PCacheMC.cfg", note="the process-wide Parent constructor cache as a bounded LRU machine (capacity 3, four "
           "look-alike keys, floods of 1..3 unrelated parents, clear): the object handed back is the one for the arguments "
           "asked; bounds; recency")
    chk.mc("PCacheMC", "PCacheMC_neg.cfg", expect_violation=True,
           note="a key equality under which two look-alikes collide (what seeded changes C04-1 / C10-4 did)")
    cap = Parent.cache_info().maxsize
    if not cap or cap < 20:
        chk.extra["parent_cache_machine"] = {"skipped": "Parent cache capacity is %r: no bounded LRU to step through" % (cap,)}
        return
    cfg = open(os.path.join(chk.dir, "PCacheSim.cfg")).read()
    cfg = re.sub(r"N = \d+", "N = %d" % cap, cfg)
    cfg = re.sub(r"Floods = \{[^}]*\}", "Floods = {1, 2, %d, %d, %d, %d, %d, %d, %d}" % (
        cap - 13, cap - 12, cap - 11, cap - 2, cap - 1, cap, cap + 1), cfg)
    open(os.path.join(chk.dir, "PCacheSimN.cfg"), "w").write(cfg)
    r = chk.mc("PCacheMC", "PCacheSimN.cfg", workers=1, simulate="num=%d" % (120 if quick else 2500),
               extra=["-depth", "15", "-seed", str(chk.seed + 43)],
               note="simulated behaviours (14 steps: construct one of 12 look-alikes / flood to the eviction boundary / clear) at "
                    "the real capacity %d, each step with the cache_info() the machine predicts; emitted for replay" % cap)
    behs = [b[0] for b in parse_prints(r["out"], "PCACHE")]
    if len(behs) < 50:
        raise MachineryError("TLC emitted only %d Parent-cache behaviours" % len(behs))
    parts = pmap(_pcache_replay, [(behs[i::16], i + 1) for i in range(16)])
    evs = [e for p in parts for e in p]
    open(os.path.join(chk.dir, "PCacheTraceN.cfg"), "w").write(
        "SPECIFICATION TraceSpec\nCONSTANTS\n  N = %d\n  NK = 12\n  Variant = \"code\"\nINVARIANT Report\n"
        "POSTCONDITION TraceAccepted\nCHECK_DEADLOCK FALSE\n" % cap)
    chk.validate("PCacheTrace", evs, shard=1200, label="pcache", cfg="PCacheTraceN.cfg", corrupt=_pcache_corrupt,
                 align=lambda e: e[0] == "new")
    divs = [c for (_off, c) in chk.last_info if c and c[0] == "DIV"]
    objs = sum(1 for e in evs if e[0] == "new")
    chk.extra["parent_cache_machine"] = {
        "capacity_read_from_the_class": cap, "behaviours_from_tlc": len(behs),
        "steps_validated_one_tlc_state_each": len(evs) - objs,
        "behaviours_whose_counters_follow_the_machine": objs - len(divs),
        "divergences": [{"line": d[1][0], "action": d[1][1], "machine": d[1][2], "observed": d[1][3]} for d in divs[:6]],
        "meaning": "a divergence is model drift (capacity or key equality changed in a way that keeps every answer), not a "
                   "violation; the verdict is content of the object handed back = content of an uncached construction"}


def _corrupt(ev, rnd):
    """binding control: one observed field of a replayed history changed"""
    k = rnd.choice([3, 4, 8, 9])
    ev[k] = "neq" if k == 9 else ev[k] + "#"
    return ev


def _parse_hists(out):
    hists = []
    buf = None
    for line in out.splitlines():
        s = line.strip()
        if s.startswith('<<"HIST"') or s.startswith('<< "HIST"'):
            buf = s
        elif buf is not None:
            buf += " " + s
        if buf is not None and buf.count("<<") == buf.count(">>") and buf.count("<<") > 0:
            names = re.findall(r'"([A-Za-z0-9_]+)"', buf)[1:]
            hists.append(names)
            buf = None
    return hists


def run(chk):
    quick = chk.quick
    rnd = random.Random(chk.seed * 179424673 + 10)
    kinds = ["location", "parent", "sequence", "cds", "transcript", "gene", "collection"]
    jobs = []
    total_emitted = 0
    for k in kinds:
        r = chk.mc("HistoryMC", "HistoryMC_%s.cfg" % k, workers=1,
                   note="all histories of length 2 over the %s alphabet: AnswersIgnoreHistory, OperandsUnchanged" % k)
        hs = _parse_hists(r["out"])
        if len(hs) < 50:
            raise MachineryError("TLC emitted only %d histories for %s" % (len(hs), k))
        total_emitted += len(hs)
        # simulated longer histories with cache actions
        cfgtxt = open(chk.dir + "/HistoryMC_sim.cfg").read().replace('Kind = "cds"', 'Kind = "%s"' % k)
        open(chk.dir + "/HistoryMC_sim_%s.cfg" % k, "w").write(cfgtxt)
        r2 = chk.mc("HistoryMC", "HistoryMC_sim_%s.cfg" % k, workers=1,
                    simulate="num=%d" % (150 if quick else 3000), extra=["-depth", "7", "-seed", str(chk.seed + 3)],
                    note="simulated histories of length 6 incl. Parent-cache clear/flood/warm (%s)" % k)
        hs2 = _parse_hists(r2["out"])
        total_emitted += len(hs2)
        allh = hs + hs2
        for i in range(16):
            jobs.append((k, allh[i::16], chk.seed * 907 + i))
    chk.mc("HistoryMC", "HistoryMC_neg_str.cfg", expect_violation=True, workers=1,
           note="extract_sequence answers a str once codon locations were listed (code before fix 8518d78)")
    chk.mc("HistoryMC", "HistoryMC_neg_merge.cfg", expect_violation=True, workers=1,
           note="export with parent qualifiers mutates the interval's qualifier sets (code before fix 241fec7)")
    parts = pmap(_replay, jobs)
    evs = [e for p in parts for e in p]
    chk.validate("C10Trace", evs, shard=1500, label="hist", corrupt=_corrupt)
    memo_leg(chk)
    pcache_leg(chk)
    chk.nontrivial = len({(e[1], tuple(e[2])) for e in evs})
    chk.extra["histories_emitted_by_tlc"] = total_emitted
    chk.extra["histories_replayed"] = len(evs)
    chk.trusted += ["TLC", "History.tla alphabets / HistoryMC.tla mechanism model", "harness canon() of answers and "
                    "snapshot() of operands", "the twin factory (same content description, built after Parent.cache_clear())"]
    return chk.finish("call histories generated by TLC from HistoryMC: every ordered pair of accessors/operations/cache "
                      "actions per object kind (location, sequence, CDS, transcript, gene, collection) and simulated histories of length 6 with Parent-cache clear/flood/warm, each replayed "
                      "on randomly structured real objects (1-3 exons, either strand, coding or not; for intervals "
                      "and collections once each on a chromosome parent, an enclosing chunk and a chunk cutting the "
                      "terminal exons); last call compared with a fresh twin, operands snapshotted before/after; distinct = "
                      "distinct (kind, history)")
