"""C19 — invalid input is refused with documented errors; nothing ill-formed is built; public operations on valid
objects never fail with internal errors.  Part A: ValidityMC enumerates (class, valid seed, corruption kind); every case
is replayed on the real constructors (direction A) and more random tuples are driven; TLC classifies by Validity!Valid.
Part B: every public method/property of valid objects of every kind called with in-range and boundary arguments."""
import inspect
import itertools
import json
import random
import re

from bcverif import encode as E
from bcverif.runner import MachineryError, _parse_tla_value, pmap, setup_repo_import


def _parent(seqlen):
    if seqlen is None or seqlen < 0:
        return None
    from inscripta.biocantor.parent import Parent, SequenceType
    from inscripta.biocantor.sequence import Sequence
    from inscripta.biocantor.sequence.alphabet import Alphabet

    return Parent(id="chr", sequence=Sequence(("ACGT" * (seqlen // 4 + 1))[:seqlen], Alphabet.NT_STRICT, id="chr",
                                              type=SequenceType.CHROMOSOME))


def construct(cls, a):
    from inscripta.biocantor.gene.cds import CDSInterval
    from inscripta.biocantor.gene.cds_frame import CDSFrame, CDSPhase
    from inscripta.biocantor.gene.collections import AnnotationCollection
    from inscripta.biocantor.gene.feature import FeatureInterval
    from inscripta.biocantor.gene.gene import GeneInterval
    from inscripta.biocantor.gene.transcript import TranscriptInterval
    from inscripta.biocantor.gene.variants import VariantInterval, VariantIntervalCollection
    from inscripta.biocantor.location.location_impl import CompoundInterval, SingleInterval
    from inscripta.biocantor.location.strand import Strand
    from inscripta.biocantor.parent import Parent
    from inscripta.biocantor.sequence import Sequence
    from inscripta.biocantor.sequence.alphabet import Alphabet

    S = Strand.from_symbol
    if cls == "SI":
        return SingleInterval(a[0], a[1], S(a[2]), parent=_parent(a[3]))
    if cls == "CI":
        return CompoundInterval(a[0], a[1], S(a[2]), parent=_parent(a[3]))
    if cls == "SEQ":
        return Sequence("".join(a[0]), Alphabet[a[1]])
    if cls == "CDS":
        fr = [CDSFrame(f) for f in a[3]]
        if a[5] and len(fr) > 1:
            fr[1] = CDSPhase(0)
        return CDSInterval(a[0], a[1], S(a[2]), fr, parent_or_seq_chunk_parent=_parent(a[4]))
    if cls == "TX":
        kw = {}
        if a[3] or a[4]:
            kw = dict(cds_starts=a[3] if a[3] else None, cds_ends=a[4] if a[4] else None,
                      cds_frames=[CDSFrame(f) for f in a[5]])
        return TranscriptInterval(a[0], a[1], S(a[2]), parent_or_seq_chunk_parent=_parent(a[6]), **kw)
    if cls == "FEAT":
        return FeatureInterval(a[0], a[1], S(a[2]), parent_or_seq_chunk_parent=_parent(a[3]))
    if cls == "GENE":
        n, flags, dup = a
        txs = [TranscriptInterval([2 + i], [9 + i], Strand.PLUS, is_primary_tx=(i < flags) or None,
                                  transcript_id="t%d" % i) for i in range(n)]
        if dup and n >= 2:
            if n % 2:
                # an equal copy of the first child (same content, hence the same identifier)
                txs[1] = TranscriptInterval([2], [9], Strand.PLUS, is_primary_tx=(0 < flags) or None, transcript_id="t0")
            else:
                # a DIFFERENT isoform that carries the first child's identifier (a copied and edited record)
                txs[1] = TranscriptInterval([3], [11], Strand.PLUS, transcript_id="t1", guid=txs[0].guid)
        return GeneInterval(txs)
    if cls == "VAR":
        return VariantInterval(a[0], a[1], "A" * a[2], "x", parent_or_seq_chunk_parent=_parent(a[3]))
    if cls == "VCOLL":
        return VariantIntervalCollection([VariantInterval(s, e, "A", "x", variant_name="v%d" % i)
                                          for i, (s, e) in enumerate(a[0])])
    if cls == "COLL":
        genes = [GeneInterval([TranscriptInterval([2 + 3 * i], [9 + 3 * i], Strand.PLUS, transcript_id="c%d" % i)])
                 for i in range(a[2])]
        return AnnotationCollection(genes=genes, start=None if a[0] < 0 else a[0], end=None if a[1] < 0 else a[1])
    if cls == "PMODEL":
        from inscripta.biocantor.io.models import ParentModel

        return ParentModel(seq="ACGT", sequence_name="chr" if a[0] else None, start=None if a[1] < 0 else a[1],
                           end=None if a[2] < 0 else a[2], type="sequence_chunk").to_parent()
    if cls == "PARENT":
        return Parent(id="p", location=SingleInterval(0, a[0], S(a[3])),
                      sequence=Sequence("A" * a[1], Alphabet.NT_STRICT) if a[1] >= 0 else None,
                      strand=S(a[2]) if a[2] else None)
    if cls == "RPOS":
        l = SingleInterval(a[0][0], a[1][0], S(a[2])) if len(a[0]) == 1 else CompoundInterval(a[0], a[1], S(a[2]))
        p = l.relative_to_parent_pos(a[3])
        if not any(s0 <= p < e0 for s0, e0 in zip(a[0], a[1])):
            raise AttributeError("relative_to_parent_pos answered with a position outside the location")
        return l
    if cls == "QPOS":
        genes = [GeneInterval([TranscriptInterval([a[0] + 2 + 3 * i], [a[0] + 6 + 3 * i], Strand.PLUS, transcript_id="q%d" % i)])
                 for i in range(2)]
        coll = AnnotationCollection(genes=genes, start=a[0], end=a[1])
        kw = {}
        if a[4]:
            kw["start"] = a[2]
        if a[5]:
            kw["end"] = a[3]
        res = coll.query_by_position(completely_within=False, **kw)
        # what was built answers for the range that was asked
        if (res.start, res.end) != (a[2] if a[4] else a[0], a[3] if a[5] else a[1]):
            raise AttributeError("query result does not span the range asked: %r" % ((res.start, res.end),))
        return res
    if cls == "FSI":
        from inscripta.biocantor.parent import SequenceType

        def par(d):
            if not d:
                return None
            pid, sv, ty = d
            if sv:
                return Parent(id=pid, sequence=Sequence(("ACGT" if sv == 1 else "TTGCA" * sv) * 6, Alphabet.NT_STRICT,
                                                        id=pid, type=ty))
            return Parent(id=pid, sequence_type=ty)

        blocks = [SingleInterval(2 + 5 * i, 5 + 5 * i, S(st), parent=par(d)) for i, (d, st) in enumerate(zip(a[0], a[1]))]
        if len(a[0]) != len(a[1]):
            raise MachineryError("FSI tuple")
        ci = CompoundInterval.from_single_intervals(blocks)
        if ci.num_blocks != len(blocks) or (ci.parent is None) != (not a[0][0]):
            raise AttributeError("half-built CompoundInterval")
        return ci
    if cls == "CODON":
        from inscripta.biocantor.gene.codon import Codon

        c = Codon("".join(a[0]))
        # a constructed codon is usable: it knows its three letters and answers the table questions
        if len(str(c)) != 3 or str(c) != "".join(a[0]).upper():
            raise AttributeError("half-initialised Codon")
        c.translate(strict=False), c.is_stop_codon, c.is_strict_codon
        return c
    raise MachineryError("unknown class " + cls)


def _ctor_events(cases):
    setup_repo_import()
    from inscripta.biocantor.gene.codon import Codon
    from inscripta.biocantor.location.location_impl import SingleInterval
    from inscripta.biocantor.location.strand import Strand

    ev = []
    for (cls, kind, a) in cases:
        def once():
            o = E.outcome(lambda: construct(cls, a) and 1)
            return ["v", 1] if o[0] == "v" else o

        o = once()
        again = [once()]
        # something unrelated and valid in between, then the same construction a third time
        SingleInterval(1, 4, Strand.PLUS), Codon("ATG")
        again.append(once())
        ev.append(["ctor", cls, kind, a, o, again])
    return ev


def _random_cases(rnd, n):
    out = []
    for _ in range(n):
        cls = rnd.choice(["SI", "CI", "CDS", "TX", "FEAT", "VAR", "VCOLL", "COLL", "GENE", "SEQ", "PARENT", "CODON", "QPOS", "FSI", "RPOS", "PMODEL"])
        r = lambda lo=-1, hi=12: rnd.randrange(lo, hi)  # noqa: E731
        st = rnd.choice("+-.")
        sl = rnd.choice([-1, -1, 8, 10])
        if cls == "SI":
            a = [r(), r(), st, sl]
        elif cls in ("CI", "FEAT"):
            k = rnd.randrange(0, 4)
            a = [[r() for _ in range(k)], [r() for _ in range(rnd.choice([k, k, k, k + 1]))], st, sl]
        elif cls == "CDS":
            k = rnd.randrange(1, 3)
            ss = sorted(r(0, 10) for _ in range(k))
            a = [ss, [s + rnd.randrange(0, 4) for s in ss], rnd.choice("+-"), [rnd.randrange(3) for _ in range(rnd.choice([k, k, k + 1]))],
                 sl, k >= 2 and rnd.random() < 0.15]
        elif cls == "TX":
            k = rnd.randrange(1, 3)
            ss = sorted(r(0, 8) for _ in range(k))
            es = [s + rnd.randrange(0, 5) for s in ss]
            if rnd.random() < 0.5:
                cs, ce, fr = [], [], []
            else:
                cs = [ss[0] + rnd.randrange(-1, 3)]
                ce = [cs[0] + rnd.randrange(0, 6)]
                fr = [0] * rnd.choice([1, 1, 2])
                if k == 2 and rnd.random() < 0.5:
                    # a CDS of two blocks: the first ends with the first exon, the second starts with the second exon and
                    # ends inside, at, or past the end of the last exon
                    cs = [min(cs[0], es[0]), ss[1]]
                    ce = [es[0], es[1] + rnd.choice([-1, 0, 0, 1, 2])]
                    fr = [0, 0] if rnd.random() < 0.85 else [0]
            a = [ss, es, rnd.choice("+-"), cs, ce, fr, sl]
        elif cls == "VAR":
            s0 = r(0, 8)
            a = [s0, s0 + rnd.randrange(0, 4), rnd.randrange(0, 3), sl]
        elif cls == "VCOLL":
            a = [[[s0, s0 + rnd.randrange(1, 4)] for s0 in (r(0, 9) for _ in range(rnd.randrange(0, 4)))]]
        elif cls == "COLL":
            a = [rnd.choice([-1, 0, 3]), rnd.choice([-1, 20, 40]), rnd.randrange(0, 3)]
        elif cls == "PMODEL":
            s0 = rnd.choice([-1, 0, 2])
            a = [rnd.random() < 0.8, s0, rnd.choice([-1, max(s0, 0) + 4])]
        elif cls == "GENE":
            a = [rnd.randrange(0, 4), rnd.randrange(0, 3), rnd.random() < 0.2]
            if a[1] > a[0]:
                a[1] = a[0]
            a[2] = a[2] and a[0] >= 2
        elif cls == "RPOS":
            k = rnd.randrange(1, 3)
            ss = sorted(r(0, 10) for _ in range(k))
            es = [s0 + rnd.randrange(1, 4) for s0 in ss]
            if k == 2 and es[0] > ss[1]:
                ss[1] = es[0]
                es[1] = max(es[1], ss[1] + 1)
            n = sum(e0 - s0 for s0, e0 in zip(ss, es))
            a = [ss, es, rnd.choice("+-"), rnd.choice([-1, 0, n - 1, n, n, n + 1, rnd.randrange(0, n + 1)])]
        elif cls == "QPOS":
            cs = rnd.choice([0, 0, 3, 10])
            ce = cs + rnd.choice([20, 30])
            a = [cs, ce, rnd.choice([0, 0, cs, cs + 1, cs - 1, cs + 5, ce]), rnd.choice([0, 0, ce, ce - 1, ce + 1, cs + 4, cs]),
                 rnd.random() < 0.75, rnd.random() < 0.75]
        elif cls == "FSI":
            k = rnd.randrange(0, 4)
            pool = [[], ["P", 0, "chromosome"], ["P", 1, "chromosome"], ["P", 2, "chromosome"], ["P", 1, "plasmid"],
                    ["P", 0, "plasmid"], ["Q", 1, "chromosome"]]
            base = rnd.choice(pool)
            a = [[base if rnd.random() < 0.75 else rnd.choice(pool) for _ in range(k)],
                 [x for x in (lambda b: [b if rnd.random() < 0.85 else rnd.choice("+-.") for _ in range(k)])(rnd.choice("+-."))]]
        elif cls == "CODON":
            a = [[rnd.choice("ACGTUNRYacgtnw-X*. ") for _ in range(rnd.choice([3, 3, 3, 3, 2, 4, 0]))]]
        elif cls == "SEQ":
            al = rnd.choice(["NT_STRICT", "NT_EXTENDED", "NT_STRICT_GAPPED", "NT_STRICT_UNKNOWN"])
            a = [[rnd.choice("ACGTacgtNRn-!x") for _ in range(rnd.randrange(0, 6))], al]
            if rnd.random() < 0.3:  # white space where files leave it: at the very end, at the very start
                a[0] = a[0] + [rnd.choice(["\n", "\r", " ", "\t", "\n"])] if rnd.random() < 0.7 else [rnd.choice(["\n", " "])] + a[0]
        else:
            a = [r(0, 10), rnd.choice([-1, 4, 8]), rnd.choice(["", "+", "-"]), rnd.choice("+-")]
        out.append((cls, "random", a))
    return out


# ---------------------------------------------------------------------------------------------------------------------
INT_PARAMS = re.compile(r"(pos|start|end|shift|extend|size|num_chars|distance|score)")
SKIP = {"to_biopython", "to_feature_location", "to_compound_location", "cache_clear", "cache_info", "cache_parameters",
        "from_dict", "from_location", "from_chunk_relative_location", "from_single_intervals", "update_parent",
        "construct_frames_from_location", "validate_alphabet", "initialize_location",
        "liftover_location_to_seq_chunk_parent", "sequence_type_str_to_type", "mro"}


def _arg_domain(name, ann, obj, ops):
    from inscripta.biocantor import DistanceType
    from inscripta.biocantor.gene.codon import TranslationTable
    from inscripta.biocantor.location.strand import Strand

    n = len(obj) if hasattr(obj, "__len__") else 5
    lname = name.lower()
    if "strand" in lname:
        return [Strand.PLUS, Strand.MINUS, Strand.UNSTRANDED]
    if ann is bool or lname.startswith(("match_", "full_", "strict", "optimize", "truncate", "expand", "completely",
                                        "coding_only", "chromosome_relative", "include_self", "data_only", "export_",
                                        "raise_on")):
        return [True, False]
    if lname == "other" and type(obj).__name__ == "Sequence":
        return [ops[k] for k in ("other", "other_overlap", "other_same") if k in ops]
    if lname in ("other", "location", "parent_location"):
        return [ops["loc_other"], ops["loc_empty"]]
    if lname == "distance_type":
        return list(DistanceType)
    if lname == "translation_table":
        return list(TranslationTable)
    if lname in ("sequence_type", "ancestor_type"):
        return ["chromosome", "nosuch"]
    if lname == "parent_or_seq_chunk_parent":
        return [ops["chunk2"]]
    if lname in ("variants",):
        return [ops["variant"]]
    if lname in ("name",):
        return ["transcript_symbol", "literal"]
    if lname == "key":
        return [0, -1, n - 1, n, slice(0, 2), slice(None, 2)]
    if INT_PARAMS.search(lname):
        return [-1, 0, 1, n - 1, n, n + 1]
    return None


def _calls(kind, obj, ops, rnd, budget):
    ev = []
    cls = type(obj)
    names = [m for m in dir(cls) if not m.startswith("_") and m not in SKIP]
    for m in names:
        attr = inspect.getattr_static(cls, m)
        is_prop = isinstance(attr, property) or type(attr).__name__ in ("cached_property",) or (
            hasattr(attr, "fget"))
        if is_prop or not callable(getattr(cls, m, None)):
            o = E.outcome(lambda: getattr(obj, m))
            _log(ev, kind, m, [], o)
            continue
        try:
            sig = inspect.signature(getattr(obj, m))
        except Exception:
            continue
        doms = []
        ok = True
        for pn, p in sig.parameters.items():
            if p.kind in (p.VAR_POSITIONAL, p.VAR_KEYWORD):
                continue
            d = _arg_domain(pn, p.annotation, obj, ops)
            if d is None:
                if p.default is not inspect.Parameter.empty:
                    continue
                ok = False
                break
            doms.append((pn, d))
        if not ok:
            continue
        combos = list(itertools.product(*[d for _, d in doms])) if doms else [()]
        if len(combos) > budget:
            combos = rnd.sample(combos, budget)
        for c in combos:
            kw = {pn: v for (pn, _), v in zip(doms, c)}
            o = E.outcome(lambda: _consume(getattr(obj, m)(**kw)))
            _log(ev, kind, m, [str(v) for v in c], o)
    return ev


def _consume(v):
    import types

    if isinstance(v, types.GeneratorType):
        return list(v)
    return v


def _log(ev, kind, m, args, o):
    if o[0] == "v":
        val = o[1] if len(o) > 1 else None
        tn = type(val).__name__
        ev.append(["call", kind, m, args, ["v", 1]])
        if tn in ("SingleInterval", "CompoundInterval", "_EmptyLocation"):
            ev.append(["result", kind, m, E.loc(val)])
        elif tn == "Sequence":
            # a returned sequence that records where it sits on its parent has exactly that many residues
            lp = None
            try:
                lp = val.location_on_parent
            except Exception:
                pass
            ev.append(["seqresult", kind, m, len(val), len(lp) if lp is not None else -1,
                       E.loc(lp) if lp is not None else [[], "e"]])
    else:
        ev.append(["call", kind, m, args, o])


def _method_events(args):
    seed, n, budget = args
    setup_repo_import()
    from bcverif.props import c10
    from inscripta.biocantor.location.location_impl import EmptyLocation

    rnd = random.Random(seed)
    ev = []
    for _ in range(n):
        sp = c10._spec(rnd)
        for kind in ("location", "sequence", "cds", "transcript", "gene", "collection"):
            if kind == "cds" and not sp["cds"]:
                continue
            try:
                obj, ops = c10.factory(kind, sp)
            except Exception:
                continue
            ops["loc_other"] = E.make_loc(sp["other"], sp["strand"], getattr(obj, "parent", None)
                                          if kind == "location" else None)
            ops["loc_empty"] = EmptyLocation()
            ev += _calls(kind, obj, ops, rnd, budget)
            if kind == "location":  # also a SingleInterval and the EmptyLocation
                si = E.make_loc(sp["blocks"][:1], sp["strand"], obj.parent)
                ev += _calls("location", si, ops, rnd, budget)
                ev += _calls("location", EmptyLocation(), ops, rnd, max(2, budget // 3))
    return ev


KNOWN_INTERNAL = {}


def _parent_space():
    """ParentAlg!ArgSpace, enumerated in the same way"""
    ids, types, strands = ["", "a", "b"], ["", "chromosome", "sequence_chunk"], ["", "+", "-"]
    locs = [[]] + [[e, s, i, t] for e in (2, 5) for s in "+-." for i in ids for t in ("", "chromosome")]
    seqs = [[]] + [[n, i, t] for n in (3, 6) for i in ids for t in types]
    return [[i, t, s, l, q, p] for i in ids for t in types for s in strands for l in locs for q in seqs for p in ("", "P")]


def _parent_events(space):
    setup_repo_import()
    from inscripta.biocantor.location.location_impl import SingleInterval
    from inscripta.biocantor.location.strand import Strand
    from inscripta.biocantor.parent import Parent
    from inscripta.biocantor.sequence import Sequence
    from inscripta.biocantor.sequence.alphabet import Alphabet

    S = {"+": Strand.PLUS, "-": Strand.MINUS, ".": Strand.UNSTRANDED}

    def mk_loc(l):
        if not l:
            return None
        lp = Parent(id=l[2] or None, sequence_type=l[3] or None) if (l[2] or l[3]) else None
        return SingleInterval(0, l[0], S[l[1]], parent=lp)

    def proj(p):
        return [p.id or "", str(p.sequence_type.value if hasattr(p.sequence_type, "value") else p.sequence_type or ""),
                p.strand.to_symbol() if p.strand is not None else "", p.location.end if p.location is not None else -1,
                len(p.sequence) if p.sequence is not None else -1, (p.parent.id or "") if p.parent is not None else ""]

    def oc(fn):
        return E.outcome(fn, lambda r: (proj(r),))

    ev = []
    for a in space:
        i, t, s, l, q, par = a
        root = Parent(id="root", sequence_type="chromosome", sequence=Sequence("ACGT", Alphabet.NT_STRICT)) if par else None
        seq = Sequence("ACGTAC"[:q[0]], Alphabet.NT_STRICT, id=q[1] or None, type=q[2] or None) if q else None
        holder = []
        o = oc(lambda: holder.append(Parent(id=i or None, sequence_type=t or None, strand=S[s] if s else None,
                                            location=mk_loc(l), sequence=seq, parent=root)) or holder[0])
        if not holder:
            ev.append(["parent", a, o, ["x", "-"], [], []])
            continue
        p = holder[0]
        resets = [[l2, oc(lambda l2=l2: p.reset_location(mk_loc(l2)))]
                  for l2 in ([], [2, "-", "", ""], [9, "+", "", ""], [2, "+", "b", ""], l)]
        anc = [[ty, inc, oc(lambda ty=ty, inc=inc: p.first_ancestor_of_type(ty, include_self=inc)),
                E.outcome(lambda ty=ty, inc=inc: p.has_ancestor_of_type(ty, include_self=inc))]
               for ty in ("chromosome", "sequence_chunk", "x") for inc in (True, False)]
        ev.append(["parent", a, o, oc(p.strip_location_info), resets, anc])
    # identifiers that are EMPTY but not absent ("" is an id like any other: only None means "not given"): the three places
    # an id can come from (own, the location's parent, the sequence) must agree on every value that is not None
    ids = {"N": None, "E": "", "c": "chr1", "d": "chr2"}
    code = {v: k for k, v in ids.items()}
    for x in ids:
        for y in ids:
            for z in ids:
                def build(x=x, y=y, z=z):
                    loc = SingleInterval(0, 3, Strand.PLUS, parent=Parent(id=ids[y])) if y != "N" else None
                    sq = Sequence("ACGT", Alphabet.NT_STRICT, id=ids[z]) if z != "N" else None
                    return Parent(id=ids[x], location=loc, sequence=sq)
                ev.append(["pids", x, y, z, E.outcome(build, lambda r: (code.get(r.id, "?"),))])
    return ev


def _big_events(seed):
    """locations and transcripts with more blocks than the interpreter allows nested calls (a thousand): every public
    question is answered or refused with a documented error -- RecursionError is an internal error"""
    setup_repo_import()
    from bcverif.props.c06 import mk_tx
    from inscripta.biocantor.location.strand import Strand

    rnd = random.Random(seed)
    ev = []
    n = rnd.choice([1050, 1300, 2100])
    root = "".join(rnd.choice("ACGT") for _ in range(5 * n + 10))
    blocks = [[5 * i + 1, 5 * i + 4] for i in range(n)]
    for st in "+-":
        l = E.make_loc(blocks, st, _parent(-1))
        other = E.make_loc([[2, 30]], st)
        L = len(l)
        calls = [("relative_to_parent_pos", [L - 1], lambda: l.relative_to_parent_pos(L - 1)),
                 ("relative_to_parent_pos", [0], lambda: l.relative_to_parent_pos(0)),
                 ("relative_to_parent_pos", [L], lambda: l.relative_to_parent_pos(L)),
                 ("parent_to_relative_pos", [blocks[-1][0]], lambda: l.parent_to_relative_pos(blocks[-1][0])),
                 ("relative_interval_to_parent_location", [1, L - 1], lambda: l.relative_interval_to_parent_location(1, L - 1, Strand.PLUS).num_blocks),
                 ("gaps_location", [], lambda: l.gaps_location().num_blocks), ("optimize_blocks", [], lambda: l.optimize_blocks().num_blocks),
                 ("reverse", [], lambda: l.reverse().num_blocks), ("union", [], lambda: l.union(other).num_blocks),
                 ("intersection", [], lambda: l.intersection(other).num_blocks), ("minus", [], lambda: l.minus(other).num_blocks),
                 ("scan_blocks", [], lambda: len(list(l.scan_blocks()))), ("str", [], lambda: len(str(l))), ("hash", [], lambda: hash(l) and 1),
                 ("scan_windows", [3, 3], lambda: len(list(l.scan_windows(3, 3, 0))))]
        for name, ar, fn in calls:
            ev.append(["call", "big-location", name, ar, E.outcome(lambda: fn() and 1)])
        t = mk_tx(blocks, st, blocks, root)
        T = len(t)
        tcalls = [("transcript_pos_to_sequence", [T - 1], lambda: t.transcript_pos_to_sequence(T - 1)),
                  ("sequence_pos_to_transcript", [blocks[-1][0]], lambda: t.sequence_pos_to_transcript(blocks[-1][0])),
                  ("cds_pos_to_sequence", [T - 1], lambda: t.cds_pos_to_sequence(T - 1)),
                  ("get_spliced_sequence", [], lambda: len(str(t.get_spliced_sequence()))),
                  ("get_protein_sequence", [], lambda: len(str(t.get_protein_sequence()))),
                  ("chromosome_codon_locations", [], lambda: len(list(t.cds.chromosome_codon_locations))),
                  ("to_dict", [], lambda: len(t.to_dict())), ("to_bed12", [], lambda: len(str(t.to_bed12()))),
                  ("chromosome_intron_location", [], lambda: t.chromosome_intron_location.num_blocks),
                  ("transcript_interval_to_sequence", [0, T], lambda: t.transcript_interval_to_sequence(0, T, t.strand).num_blocks),
                  ("get_5p_interval", [], lambda: t.get_5p_interval() is not None)]
        for name, ar, fn in tcalls:
            ev.append(["call", "big-transcript", name, ar, E.outcome(lambda: fn() and 1)])
    return ev


def _corrupt(ev, rnd):
    """binding control: the observed outcome replaced by an internal error / the returned location made ill-formed"""
    if ev[0] == "parent":
        if ev[2][0] == "v":
            ev[2] = ["v", [ev[2][1][0] + "z"] + ev[2][1][1:]]
        else:
            ev[2] = ["x", "KeyError"]
        return ev
    if ev[0] in ("ctor", "call"):
        ev[4] = ["x", rnd.choice(["AttributeError", "IndexError", "KeyError", "StopIteration"])]
        return ev
    if ev[0] == "result" and ev[3][0]:
        b = ev[3][0][0]
        ev[3][0][0] = [b[1] + 1, b[0]]
        return ev
    return None


def _key(ev, clause):
    if clause == "call:internal-error" and ev[0] == "call":
        k = "%s.%s:%s" % (ev[1], ev[2], ev[4][1])
        return KNOWN_INTERNAL.get(k)
    return None


def run(chk):
    quick = chk.quick
    rnd = random.Random(chk.seed * 198491317 + 19)
    r = chk.mc("ValidityMC", "ValidityMC.cfg", workers=1, note="fault enumeration: every class x valid seed x corruption "
               "kind; SeedsAreValid, FaultsAreFaults (no vacuous fault); every case emitted for replay")
    cases = []
    for line in r["out"].splitlines():
        if line.startswith('<<"CASE"'):
            v = _parse_tla_value(line.strip())
            cases.append((v[1], v[2], v[3]))
    if len(cases) < 60:
        raise MachineryError("TLC emitted only %d fault cases" % len(cases))
    cases += _random_cases(rnd, 3000 if quick else 60000)
    parts = pmap(_ctor_events, [cases[i::32] for i in range(32)])
    evs = [e for p in parts for e in p]
    parts = pmap(_method_events, [(chk.seed * 1009 + i, 2 if quick else 25, 6 if quick else 14) for i in range(32)])
    evs += [e for p in parts for e in p]
    parts = pmap(_big_events, [chk.seed * 53 + i for i in range(2 if quick else 8)])
    evs += [e for p in parts for e in p]
    # the Parent record algebra: the whole argument space of ParentAlg performed on the real class
    chk.mc("ParentMC", "ParentMC.cfg", workers=1, note="laws of the Parent algebra over the complete argument space: strip is "
           "total, reset(None) = strip, reset(own location) = identity, strand follows the location, ids never invented")
    chk.mc("ParentMC", "ParentMC_neg.cfg", expect_violation=True, workers=1,
           note="an explicit strand that overrides the location's strand")
    space = _parent_space()
    if quick:
        space = rnd.sample(space, 6000)
    parts = pmap(_parent_events, [space[i::32] for i in range(32)])
    pevs = [e for p in parts for e in p]
    if not quick:
        pevs.append(["parentcert", len(pevs)])
    chk.validate("C19Trace", evs, shard=6000, label="validity", keyfn=_key, corrupt=_corrupt)
    chk.validate("C19Trace", pevs, shard=1500, label="parent-algebra", corrupt=_corrupt)
    chk.extra["parent_argument_tuples"] = len(pevs)
    # the default GFF3 reader on foreign files (spec/GffParse.tla): a public operation on legal input
    from bcverif.props import gffparse

    gevs = gffparse.leg(chk)
    evs = evs + pevs + gevs
    chk.nontrivial = len({json.dumps(e[1:4]) for e in evs})
    chk.extra["fault_cases_from_tlc"] = len([c for c in cases if c[1] != "random"])
    chk.extra["random_ctor_tuples"] = len([c for c in cases if c[1] == "random"])
    chk.extra["method_calls"] = sum(1 for e in evs if e[0] == "call")
    chk.extra["distinct_methods"] = len({(e[1], e[2]) for e in evs if e[0] == "call"})
    chk.trusted += ["TLC", "Validity.tla (Valid predicates from the docstrings)", "harness constructors from abstract "
                    "argument tuples", "argument-domain table of the method caller", "ParentAlg.tla (constructor rules transcribed from parent.py)"]
    return chk.finish("constructors of 11 classes on every TLC-enumerated (valid seed, corruption kind) and on random "
                      "argument tuples; every public method and property of valid locations, sequences, CDSs, transcripts, "
                      "genes and collections (random structures, chromosome or chunk parents) with in-range and boundary "
                      "arguments (-1, 0, 1, len-1, len, len+1, all strands, both flag values); the Parent constructor, "
                      "strip_location_info, reset_location, first/has_ancestor_of_type on the argument space of ParentAlg "
                      "(37 962 tuples; quick: 6 000 sampled); distinct = distinct (class/kind, method, arguments)")
