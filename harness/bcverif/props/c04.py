"""C04 — lift-over through nested coordinate systems composes and preserves sequence; chunk round trips."""
import random

from bcverif import encode as E
from bcverif.runner import pmap, setup_repo_import

COMP = {"A": "T", "C": "G", "G": "C", "T": "A", "a": "t", "c": "g", "g": "c", "t": "a", "N": "N", "n": "n"}


def extract_py(blocks, st, seq):
    """harness-side sequence of a level (only used to BUILD the hierarchy's sequences, not to judge)"""
    out = []
    for b in (blocks if st == "+" else blocks[::-1]):
        s = seq[b[0]:b[1]]
        out.append(s if st == "+" else "".join(COMP[c] for c in reversed(s)))
    return "".join(out)


def level_sequence(j, types, seqs, idoff=0):
    from inscripta.biocantor.sequence import Sequence
    from inscripta.biocantor.sequence.alphabet import Alphabet

    return Sequence(seqs[j], Alphabet.NT_EXTENDED, id="L%d" % (j + idoff), type=types[j])


def build_parent(j, types, seqs, Ps, has_seq, child_blocks=None, idoff=0):
    """Parent object of level j: id / type / sequence of the level, `location` = where the child (level j+1 or the
    queried location) sits on it, `parent` = the Parent object of level j-1 carrying this level's placement."""
    from inscripta.biocantor.parent import Parent

    seq = level_sequence(j, types, seqs, idoff) if has_seq else None
    loc = E.make_loc(child_blocks[0], child_blocks[1]) if child_blocks is not None else None
    up = build_parent(j - 1, types, seqs, Ps, has_seq, Ps[j - 1], idoff) if j > 0 else None
    return Parent(id="L%d" % (j + idoff), sequence_type=types[j], sequence=seq, location=loc, parent=up)


def _rand_clean_loc(rnd, n, k):
    """non-empty, non-overlapping blocks inside 0..n"""
    k = min(k, max(1, n // 2))
    k = rnd.randrange(1, k + 1)
    cuts = sorted(rnd.sample(range(n + 1), 2 * k)) if n + 1 >= 2 * k else [0, n]
    blocks = [[cuts[2 * i], cuts[2 * i + 1]] for i in range(len(cuts) // 2)]
    if rnd.random() < 0.25 and len(blocks) > 1:  # make two blocks adjacent
        blocks[1][0] = blocks[0][1]
    return blocks, rnd.choice("+-")


def _one_hierarchy(ev, types, seqs, Ps, child, has_seq, idoff, ask):
    d = len(Ps)
    root = seqs[0]
    if True:
        try:
            par = build_parent(d, types, seqs, Ps, has_seq, None, idoff)
            c = E.make_loc(child[0], child[1], par)
            if len(root) % 4 == 1 or (child[0][0][0] % 3 == 0):  # a deterministic share of used locations / parents
                E.warm(c)
        except Exception:
            return  # the library refuses this hierarchy (e.g. a level longer than its parent): not a lift question

        def val(fn):
            def enc(r):
                try:
                    s = list(str(r.extract_sequence())) if has_seq else "<noseq>"
                except Exception as ex2:
                    s = "!" + type(ex2).__name__
                return (E.loc(r), E.pid(r), s)

            return E.outcome(fn, enc)

        # a share of the hierarchies is first asked the STRICT ancestor question (include_self=False) on the parent
        # object itself -- before anything else touches that (constructor-cached, hence shared) Parent
        no_self = []
        if (len(root) + len(child[0])) % 2 == 0:
            no_self = [[t, bool(c.parent.has_ancestor_of_type(t, include_self=False))] for t in ask]
        by_type = [[t, val(lambda t=t: c.lift_over_to_first_ancestor_of_type(t))] for t in ask]
        by_seq = []
        if has_seq:
            from inscripta.biocantor.sequence import Sequence
            from inscripta.biocantor.sequence.alphabet import Alphabet

            for a in range(d + 1):
                target = level_sequence(a, types, seqs, idoff)
                by_seq.append([a, val(lambda target=target: c.lift_over_to_sequence(target))])
            other = Sequence("ACGT", Alphabet.NT_EXTENDED, id="elsewhere")
            by_seq.append([-1, val(lambda: c.lift_over_to_sequence(other))])
        has_t = [[t, bool(c.has_ancestor_of_type(t))] for t in ask]
        one = val(lambda: c.parent.lift_child_location_to_parent())
        ev.append(["lift", types, list(root), has_seq, [list(p) for p in Ps], list(child), by_type, by_seq, has_t, one, idoff,
                   no_self])
        # the interval-level wrapper (AbstractInterval.lift_over_to_first_ancestor_of_type) of a feature that owns the
        # same location: same answers, same refusals
        if len(root) % 3 == 0:
            try:
                from inscripta.biocantor.gene.feature import FeatureInterval
                from inscripta.biocantor.location.strand import Strand

                ft = FeatureInterval([b[0] for b in child[0]], [b[1] for b in child[0]], Strand.from_symbol(child[1]),
                                     parent_or_seq_chunk_parent=par)
            except Exception:
                ft = None
            if ft is not None and E.loc(ft.chunk_relative_location) == E.loc(c):
                ev.append(["liftw", types, list(root), has_seq, [list(p) for p in Ps], list(child),
                           [[t, val(lambda t=t: ft.lift_over_to_first_ancestor_of_type(t))] for t in ask], idoff])


def _blocks_of(positions, st):
    """ascending blocks covering a 5'->3' list of positions that never turns back"""
    asc = positions if st == "+" else positions[::-1]
    blocks = []
    for p in asc:
        if blocks and blocks[-1][1] == p:
            blocks[-1][1] = p + 1
        else:
            blocks.append([p, p + 1])
    return blocks


def _derived_hierarchy(ev, rnd, types, seqs, Ps, has_seq, ask):
    """the top level is not constructed directly but DERIVED by the library from a sequence that knows its location on
    its parent: reverse_complement() or a slice.  Judged as the hierarchy with the equivalent placement."""
    from inscripta.biocantor.parent import Parent
    from inscripta.biocantor.sequence import Sequence
    from inscripta.biocantor.sequence.alphabet import Alphabet

    d = len(Ps)
    (pb, pst) = Ps[d - 1]
    try:
        # the placement of the top level carries its own parent pointer (the documented way to say where a sequence sits)
        ptr = Parent(id="L%d" % (d - 1), sequence_type=types[d - 1])
        up = Parent(id="L%d" % (d - 1), sequence_type=types[d - 1], sequence=level_sequence(d - 1, types, seqs, 0),
                    location=E.make_loc(pb, pst, ptr),
                    parent=build_parent(d - 2, types, seqs, Ps, True, Ps[d - 2], 0) if d >= 2 else None)
        base = Sequence(seqs[d], Alphabet.NT_EXTENDED, id="L%d" % d, type=types[d], parent=up)
    except Exception:
        return
    positions = []
    for b in (pb if pst == "+" else pb[::-1]):
        rng = list(range(b[0], b[1]))
        positions += rng if pst == "+" else rng[::-1]
    how = rnd.choice(["revcomp", "slice", "revcomp-slice"])
    try:
        if how == "revcomp":
            derived = base.reverse_complement(new_id="L%d" % d, new_type=types[d])
            eq_place = (pb, "-" if pst == "+" else "+")
            chars = extract_py(eq_place[0], eq_place[1], seqs[d - 1])
        else:
            src, spos, sst = base, positions, pst
            if how == "revcomp-slice":
                src = base.reverse_complement(new_id="L%d" % d, new_type=types[d])
                spos, sst = positions[::-1], ("-" if pst == "+" else "+")
            a = rnd.randrange(0, len(spos))
            b = rnd.randrange(a + 1, len(spos) + 1)
            derived = src[a:b]
            eq_place = (_blocks_of(spos[a:b], sst), sst)
            chars = extract_py(eq_place[0], eq_place[1], seqs[d - 1])
    except Exception:
        return
    if str(derived) != chars:
        return  # the derived characters themselves are property C03's business
    n = len(chars)
    child = _rand_clean_loc(rnd, n, 3)
    Ps2 = list(Ps[:d - 1]) + [eq_place]
    seqs2 = list(seqs[:d]) + [chars]
    try:
        par = Parent(id="L%d" % d, sequence_type=types[d], sequence=derived)
        c = E.make_loc(child[0], child[1], par)
    except Exception:
        return

    def val(fn):
        def enc(r):
            try:
                s2 = list(str(r.extract_sequence()))
            except Exception as ex2:
                s2 = "!" + type(ex2).__name__
            return (E.loc(r), E.pid(r), s2)

        return E.outcome(fn, enc)

    one = val(lambda: c.parent.lift_child_location_to_parent())
    if how != "slice":
        # reverse_complement() keeps the converted location (with its parent pointer) but not the ancestors' sequences:
        # what can be asked is the one-step lift
        ev.append(["lift1", how, list(seqs[0]), [list(p) for p in Ps2], list(child), one])
        return
    by_type = [[t, val(lambda t=t: c.lift_over_to_first_ancestor_of_type(t))] for t in ask]
    by_seq = []
    for a in range(d + 1):
        target = derived if a == d else level_sequence(a, types, seqs2, 0)
        by_seq.append([a, val(lambda target=target: c.lift_over_to_sequence(target))])
    has_t = [[t, bool(c.has_ancestor_of_type(t))] for t in ask]
    ev.append(["lift", types, list(seqs[0]), True, [list(p) for p in Ps2], list(child), by_type, by_seq, has_t, one, 0])


def _lift_events(args):
    seed, n, G, with_overlap = args
    setup_repo_import()
    rnd = random.Random(seed)
    ev = []
    for _ in range(n):
        d = rnd.choice([0, 1, 1, 2, 2, 3, 4])
        has_seq = rnd.random() < 0.75
        tpool = ["chromosome", "sequence_chunk", "mrna", "unknown", "tX"]
        types = [rnd.choice(tpool) for _ in range(d + 1)]
        root = "".join(rnd.choice("ACGTacgtNn") for _ in range(G))
        seqs, Ps, length = [root], [], G
        ok = True
        for j in range(1, d + 1):
            if length < 2:
                ok = False
                break
            if with_overlap and rnd.random() < 0.3:
                a = rnd.randrange(0, length - 1)
                b = rnd.randrange(a + 1, length + 1)
                c0 = rnd.randrange(a, b)
                P = (sorted([[a, b], [c0, rnd.randrange(c0 + 1, length + 1)]]), rnd.choice("+-"))
                if P[1] == "-":
                    P = (sorted(P[0], key=lambda x: (x[0], -x[1])), "-")
            else:
                P = _rand_clean_loc(rnd, length, 3)
            Ps.append(P)
            seqs.append(extract_py(P[0], P[1], seqs[-1]))
            length = len(seqs[-1])
        if not ok or length < 1:
            continue
        child = _rand_clean_loc(rnd, length, 3)
        if rnd.random() < 0.3:
            child = ([[child[0][0][0], child[0][-1][1]]], child[1])  # contiguous
        variants = [(types, seqs, Ps, 0)]
        if d >= 1:
            k = rnd.randrange(1, d + 1)  # the shallower twin: levels k..d only, same ids / sequences / placements
            variants.append((types[k:], seqs[k:], Ps[k:], k))
        if rnd.random() < 0.5:
            variants.reverse()
        for (vtypes, vseqs, vPs, idoff) in variants:
            _one_hierarchy(ev, vtypes, vseqs, vPs, child, has_seq, idoff, sorted(set(types + ["zzz"])))
        clean = all(all(Ps[-1][0][i][1] <= Ps[-1][0][i + 1][0] for i in range(len(Ps[-1][0]) - 1)) for _ in [0]) if d >= 1 else False
        if d >= 1 and has_seq and clean and len(seqs[d]) >= 1:
            _derived_hierarchy(ev, rnd, types, seqs, Ps, has_seq, sorted(set(types + ["zzz"])))
    return ev


def _chunk_events(args):
    locs, G, seed = args
    setup_repo_import()
    from inscripta.biocantor.gene.interval import AbstractInterval
    from inscripta.biocantor.io.parser import seq_chunk_to_parent
    from inscripta.biocantor.parent import Parent, SequenceType
    from inscripta.biocantor.sequence import Sequence
    from inscripta.biocantor.sequence.alphabet import Alphabet

    rnd = random.Random(seed)
    ev = []
    root = "".join(rnd.choice("ACGT") for _ in range(G))
    for (blocks, st) in locs:
        l = E.make_loc(blocks, st)
        wins = [(a, b) for a in range(0, G) for b in range(a + 1, G + 1)]
        for (ws, we) in rnd.sample(wins, 6):
            cp = seq_chunk_to_parent(root[ws:we], "chr", ws, we)
            holder = []
            o = E.loc_outcome(lambda: holder.append(AbstractInterval.liftover_location_to_seq_chunk_parent(l, cp)) or holder[0])
            back = ["x", "n/a"]
            tw, ws2, we2 = ["x", "n/a"], 0, 0
            if holder and not holder[0].is_empty:
                back = E.loc_outcome(lambda: holder[0].lift_over_to_first_ancestor_of_type(SequenceType.CHROMOSOME))
                ws2, we2 = rnd.choice(wins)
                cp2 = seq_chunk_to_parent(root[ws2:we2], "chr", ws2, we2)
                tw = E.loc_outcome(lambda: AbstractInterval.liftover_location_to_seq_chunk_parent(holder[0], cp2))
            ev.append(["chunk", [blocks, st], ws, we, o, back, tw, ws2, we2])
    return ev



def _xlift_events(args):
    """the interval-level liftover between WHOLE-chromosome parents that carry sequence: onto an equal chromosome it is the
    identity on chromosome coordinates, onto a chromosome of another name or with other residues it is refused"""
    locs, G, seed = args
    setup_repo_import()
    from inscripta.biocantor.gene.feature import FeatureInterval
    from inscripta.biocantor.io.parser import seq_to_parent
    from inscripta.biocantor.location.strand import Strand

    rnd = random.Random(seed)
    ev = []
    for (blocks, st) in locs:
        if st not in "+-" or any(b[1] <= b[0] for b in blocks):
            continue
        root = "".join(rnd.choice("ACGT") for _ in range(G))
        other = "".join({"A": "C", "C": "G", "G": "T", "T": "A"}[c] if rnd.random() < 0.5 else c for c in root)
        if other == root:
            other = ("C" if root[0] != "C" else "G") + root[1:]
        try:
            f = FeatureInterval([b[0] for b in blocks], [b[1] for b in blocks], Strand.from_symbol(st),
                                parent_or_seq_chunk_parent=seq_to_parent(root, seq_id="chrX"))
        except Exception:
            continue
        for rel, target in (("same", lambda: seq_to_parent(root, seq_id="chrX")),
                            ("other-residues", lambda: seq_to_parent(other, seq_id="chrX")),
                            ("other-id", lambda: seq_to_parent(root, seq_id="chrY"))):
            o = E.outcome(lambda: f.liftover_to_parent_or_seq_chunk_parent(target()),
                          lambda r: (E.loc(r.chromosome_location), str(r.get_spliced_sequence())))
            ev.append(["xlift", [blocks, st], rel, o, str(f.get_spliced_sequence())])
    return ev


def _pseq_events(args):
    """a level declared as Parent(sequence=S, parent=P) where the Sequence S itself names the level above WITHOUT a
    placement and the explicit parent P carries the placement: lifts go through P (judged as ordinary `lift` events)"""
    seed, n, G = args
    setup_repo_import()
    from inscripta.biocantor.parent import Parent
    from inscripta.biocantor.sequence import Sequence
    from inscripta.biocantor.sequence.alphabet import Alphabet

    rnd = random.Random(seed)
    ev = []
    for _ in range(n):
        root = "".join(rnd.choice("ACGTacgtN") for _ in range(G))
        P0 = _rand_clean_loc(rnd, G, 3)
        sub = extract_py(P0[0], P0[1], root)
        if len(sub) < 1:
            continue
        child = _rand_clean_loc(rnd, len(sub), 2)
        types = ["chromosome", rnd.choice(["contig", "mrna"])]
        try:
            top_bare = Parent(id="L0", sequence_type=types[0], sequence=Sequence(root, Alphabet.NT_EXTENDED, id="L0", type=types[0]))
            top_placed = Parent(id="L0", sequence_type=types[0], sequence=Sequence(root, Alphabet.NT_EXTENDED, id="L0", type=types[0]),
                                location=E.make_loc(P0[0], P0[1]))
            S = Sequence(sub, Alphabet.NT_EXTENDED, id="L1", type=types[1], parent=top_bare)
            level = Parent(id="L1", sequence_type=types[1], sequence=S, parent=top_placed)
            c = E.make_loc(child[0], child[1], level)
        except Exception:
            continue

        def val(fn):
            def enc(r):
                try:
                    sq = list(str(r.extract_sequence()))
                except Exception as ex2:
                    sq = "!" + type(ex2).__name__
                return (E.loc(r), E.pid(r), sq)
            return E.outcome(fn, enc)

        ask = sorted(set(types + ["zzz"]))
        by_type = [[t, val(lambda t=t: c.lift_over_to_first_ancestor_of_type(t))] for t in ask]
        has_t = [[t, bool(c.has_ancestor_of_type(t))] for t in ask]
        one = val(lambda: c.parent.lift_child_location_to_parent())
        ev.append(["lift", types, list(root), True, [list(P0)], list(child), by_type, [], has_t, one, 0, []])
    return ev


def _nested_chunk_events(args):
    """A location that lives one or two coordinate systems BELOW a sequence chunk (child -> region [-> sub-region] ->
    chunk A -> chromosome) is moved with the public static liftover_location_to_seq_chunk_parent onto another chunk B
    or onto the whole chromosome: the answer must be the base-by-base composition of every level, restricted to B."""
    seed, n, G = args
    setup_repo_import()
    from inscripta.biocantor.gene.interval import AbstractInterval
    from inscripta.biocantor.io.parser import seq_chunk_to_parent, seq_to_parent
    from inscripta.biocantor.parent import Parent
    from inscripta.biocantor.sequence import Sequence
    from inscripta.biocantor.sequence.alphabet import Alphabet

    rnd = random.Random(seed)
    ev = []
    for _ in range(n):
        root = "".join(rnd.choice("ACGT") for _ in range(G))
        a_s = rnd.randrange(0, G - 6)
        a_e = rnd.randrange(a_s + 6, G + 1)
        try:
            chunk_a = seq_chunk_to_parent(root[a_s:a_e], "chr", a_s, a_e)
        except Exception:
            continue
        depth = rnd.choice([1, 1, 2])
        Ps, seqs = [], [root[a_s:a_e]]
        upper_seq, upper_id = chunk_a.sequence, chunk_a.id
        ok = True
        for j in range(depth):
            if len(seqs[-1]) < 2:
                ok = False
                break
            P = _rand_clean_loc(rnd, len(seqs[-1]), 2)
            data = extract_py(P[0], P[1], seqs[-1])
            try:
                lvl = Sequence(data, Alphabet.NT_STRICT, id="region%d" % j, type="region%d" % j,
                               parent=Parent(id=upper_id, location=E.make_loc(P[0], P[1]), sequence=upper_seq))
            except Exception:
                ok = False
                break
            Ps.append(P)
            seqs.append(data)
            upper_seq, upper_id = lvl, "region%d" % j
        if not ok or len(seqs[-1]) < 1:
            continue
        child = _rand_clean_loc(rnd, len(seqs[-1]), 2)
        try:
            c = E.make_loc(child[0], child[1], upper_seq)
        except Exception:
            continue
        if rnd.random() < 0.5:
            ws, we, kind = 0, G, "chromosome"
            target = seq_to_parent(root, seq_id="chr")
        else:
            ws = rnd.randrange(0, G - 1)
            we = rnd.randrange(ws + 1, G + 1)
            kind = "chunk"
            target = seq_chunk_to_parent(root[ws:we], "chr", ws, we)

        def enc(r):
            try:
                s2 = list(str(r.extract_sequence()))
            except Exception as ex2:
                s2 = "!" + type(ex2).__name__
            return (E.loc(r), E.pid(r), s2)

        o = E.outcome(lambda: AbstractInterval.liftover_location_to_seq_chunk_parent(c, target), enc)
        ev.append(["nchunk", list(root), a_s, a_e, [list(p) for p in Ps], list(child), ws, we, o, kind])
    return ev


def _key(ev, clause):
    if clause == "lift:selfoverlap-order":
        return "loc:selfoverlap-order"
    return None


def run(chk):
    quick = chk.quick
    rnd = random.Random(chk.seed * 15485867 + 4)
    chk.mc("LiftMC", "LiftMC.cfg", note="level-by-level lift by the library's algorithm = base-by-base composition: all "
           "hierarchies of depth 2 over a length-4 root with placements and children in Locs(.,2); Composes, "
           "SequencePreserved, WF")
    chk.mc("LiftMC", "LiftMC_neg.cfg", expect_violation=True, note="lift that keeps the child's strand")
    n = 250 if quick else 5000
    parts = pmap(_lift_events, [(chk.seed * 401 + i, n, rnd.choice([8, 10, 12]), i % 4 == 0) for i in range(32)])
    evs = [e for p in parts for e in p]
    G = 8
    locs = E.enum_locs(G, 3)
    if quick:
        locs = E.enum_locs(5, 3) + rnd.sample(locs, 1000)
    parts = pmap(_chunk_events, [(locs[i::64], G if not quick else 8, chk.seed * 409 + i) for i in range(64)])
    evs += [e for p in parts for e in p]
    parts = pmap(_pseq_events, [(chk.seed * 439 + i, 40 if quick else 800, rnd.choice([10, 14])) for i in range(16)])
    evs += [e for p in parts for e in p]
    xl = rnd.sample(locs, min(len(locs), 400 if quick else 6000))
    parts = pmap(_xlift_events, [(xl[i::16], G if not quick else 8, chk.seed * 431 + i) for i in range(16)])
    evs += [e for p in parts for e in p]
    parts = pmap(_nested_chunk_events, [(chk.seed * 419 + i, 60 if quick else 1500, rnd.choice([12, 16, 20])) for i in range(32)])
    evs += [e for p in parts for e in p]
    chk.validate("C04Trace", evs, shard=1500, label="lift", keyfn=_key)
    chk.nontrivial = len({str(e[1:7]) for e in evs})
    chk.extra["constants"] = {"hierarchies": sum(1 for e in evs if e[0] == "lift"),
                              "chunk_round_trips": sum(1 for e in evs if e[0] == "chunk"),
                              "nested_below_chunk": sum(1 for e in evs if e[0] == "nchunk"), "max_depth": 4}
    chk.trusted += ["TLC", "Lift.tla/Loc.tla Sem layer", "encode.py", "harness extract_py (builds level sequences only)"]
    return chk.finish("random hierarchies of depth 0..4 (placements = 1..3-block locations on either strand, adjacent "
                      "blocks, a share with self-overlapping placements; repeated sequence types; with/without "
                      "sequences): lift by type to every type, by sequence identity to every level, one-step lift, "
                      "ancestor predicates; every location of Locs(5,3)+sample of Locs(8,3) onto 6 chunk windows, back, "
                      "and onto a second chunk; locations one or two coordinate systems below a chunk moved onto another chunk / "
                      "the chromosome with the public static lift; distinct = distinct (hierarchy, child) / (location, window)")
