"""C18 — identifier/qualifier extraction is order-independent and priority-respecting."""
import io
import itertools
import random

from bcverif import encode as E
from bcverif.runner import pmap, setup_repo_import

NAME_SPELLINGS = {"feature_name": ["feature_name", "FEATURE_NAME", "Feature_Name"],
                  "standard_name": ["standard_name", "STANDARD_NAME", "Standard_name"],
                  "name": ["name", "Name", "NAME"], "gene": ["gene", "Gene", "GENE"],
                  "gene_name": ["gene_name", "Gene_Name"], "label": ["label", "LABEL"], "operon": ["operon", "Operon"],
                  "feature_id": ["feature_id", "feature_ID", "FEATURE_ID"], "id": ["id", "ID", "Id"]}
LOOKALIKES = ["xname", "gene_names", "Name ", "names", "my_gene", "gene_synonym", "identity", "idx", "note"]
TYPE_KEYS = ["gbkey", "GBKey", "mol_type", "feature_class", "Feature_Class", "sub_type", "_type", "gbkey2"]
NON_TYPE_KEYS = ["type", "class", "gbk", "subtype", "name", "note"]


def _pick_events(args):
    combos, seed = args
    setup_repo_import()
    from inscripta.biocantor.io.features import extract_feature_name_id

    rnd = random.Random(seed)
    ev = []
    for keys in combos:
        spelled = []
        for k in keys:
            spelled.append(rnd.choice(NAME_SPELLINGS[k]) if k in NAME_SPELLINGS else k)
        for perm in itertools.permutations(spelled):
            q = {k: ["val_" + k.strip(), "second"] for k in perm}
            name, fid = extract_feature_name_id(q)
            ev.append(["pick", [[k, v] for k, v in q.items()], name if name is not None else "<none>",
                       fid if fid is not None else "<none>"])
    return ev


def _other_events(seed):
    setup_repo_import()
    from inscripta.biocantor.io.features import extract_feature_types, merge_qualifiers

    rnd = random.Random(seed)
    ev = []
    val = lambda i: "v%02d" % i  # noqa: E731  order-preserving strings <-> naturals
    for _ in range(400):
        keys = rnd.sample(TYPE_KEYS + NON_TYPE_KEYS, rnd.randrange(0, 6))
        q = {k: [val(rnd.randrange(20)) for _ in range(rnd.randrange(1, 3))] for k in keys}
        init = {val(rnd.randrange(20)) for _ in range(rnd.randrange(0, 3))}
        types = set(init)
        extract_feature_types(types, q)
        ev.append(["types", sorted(init), [[k, v] for k, v in q.items()], sorted(types)])
    for _ in range(600):
        def mk():
            ks = rnd.sample(["a", "b", "c", "d", "Name", "note"], rnd.randrange(0, 5))
            return {k: [rnd.randrange(30) for _ in range(rnd.randrange(0, 4))] for k in ks}
        q1, q2 = mk(), mk()
        res = merge_qualifiers({k: [val(x) for x in v] for k, v in q1.items()},
                               {k: [val(x) for x in v] for k, v in q2.items()})
        ev.append(["merge", [[k, v] for k, v in q1.items()], [[k, v] for k, v in q2.items()],
                   [[k, [int(x[1:]) for x in v]] for k, v in res.items()]])
    return ev


def _genbank_text(features, seqlen):
    from Bio.Seq import Seq
    from Bio.SeqFeature import SeqFeature, SimpleLocation, CompoundLocation
    from Bio.SeqRecord import SeqRecord
    from Bio import SeqIO

    rnd = random.Random(seqlen)
    rec = SeqRecord(Seq("".join(rnd.choice("ACGT") for _ in range(seqlen))), id="chrT", name="chrT",
                    description="bcverif", annotations={"molecule_type": "DNA"})
    for (ftype, blocks, strand, quals) in features:
        parts = [SimpleLocation(s, e, strand=strand) for (s, e) in blocks]
        if strand == -1:
            parts = parts[::-1]
        loc = parts[0] if len(parts) == 1 else CompoundLocation(parts)
        f = SeqFeature(loc, type=ftype)
        f.qualifiers.update({k: list(v) for k, v in quals.items()})
        rec.features.append(f)
    out = io.StringIO()
    SeqIO.write([rec], out, "genbank")
    return out.getvalue()


def _project(collection):
    genes = []
    for g in collection.genes:
        txs = []
        for t in g.transcripts:
            txs.append([list(t._genomic_starts), list(t._genomic_ends), t.strand.to_symbol(),
                        list(t.cds._genomic_starts) if t.is_coding else [], list(t.cds._genomic_ends) if t.is_coding
                        else [], [f.value for f in t.cds.frames] if t.is_coding else [],
                        str(t.transcript_symbol), str(t.protein_id), str(t.product),
                        # the free-form qualifiers each transcript ends up with (what its own records said)
                        sorted([str(k), sorted(map(str, v))] for k, v in (t.qualifiers or {}).items())])
        genes.append([g.start, g.end, str(g.locus_tag), str(g.gene_symbol), str(g.gene_type), sorted(txs),
                      sorted([str(k), sorted(map(str, v))] for k, v in (g.qualifiers or {}).items())])
    fcs = []
    for fc in collection.feature_collections:
        fcs.append([fc.start, fc.end, str(fc.locus_tag), sorted(
            [[list(f._genomic_starts), list(f._genomic_ends), f.strand.to_symbol(), sorted(f.feature_types)] for f in
             fc.feature_intervals])])
    return ["v", sorted(genes), sorted(fcs)]


def _perm_events(args):
    seed, nfiles, maxperm = args
    setup_repo_import()
    from inscripta.biocantor.io.genbank.constants import GenBankParserType
    from inscripta.biocantor.io.genbank.parser import parse_genbank

    rnd = random.Random(seed)
    ev = []
    for _f in range(nfiles):
        feats = []
        pos = 10
        ngenes = rnd.randrange(1, 4)
        for g in range(ngenes):
            strand = rnd.choice([1, -1])
            nb = rnd.randrange(1, 3)
            blocks = []
            for _b in range(nb):
                s = pos + rnd.randrange(0, 10)
                e = s + 3 * rnd.randrange(2, 8)
                blocks.append((s, e))
                pos = e + rnd.randrange(3, 10)
            tag = "LT_%03d" % (g + 1)
            feats.append(("gene", [(blocks[0][0], blocks[-1][1])], strand, {"locus_tag": [tag], "gene": ["g%d" % g]}))
            kind = rnd.choice(["cds", "mrna+cds", "trna", "mrna+2cds", "mrna+2cds", "mrna+2cds-same"])
            if kind == "trna":
                feats.append(("tRNA", blocks, strand, {"locus_tag": [tag], "product": ["tRNA-X"]}))
            else:
                if kind != "cds":
                    feats.append(("mRNA", blocks, strand, {"locus_tag": [tag], "gene": ["g%d" % g],
                                                           "note": ["mrna note %d" % g], "db_xref": ["DB:m%d" % g]}))
                feats.append(("CDS", blocks, strand, {"locus_tag": [tag], "codon_start": ["1"],
                                                      "protein_id": ["P%d" % g], "product": ["prod %d" % g],
                                                      "note": ["cds note %d" % g]}))
                if kind == "mrna+2cds-same":
                    # two proteins annotated on the very same coding region: two records that differ in what they say
                    feats.append(("CDS", blocks, strand, {"locus_tag": [tag], "codon_start": ["1"], "protein_id": ["P%dc" % g],
                                                          "product": ["prod %d c" % g], "note": ["cds note %d" % g]}))
                if kind == "mrna+2cds":
                    # two coding regions annotated on one transcript record (alternative starts): each CDS record says
                    # its own things about itself
                    b2 = [(blocks[0][0] + 3, blocks[0][1])] + blocks[1:] if strand == 1 else blocks[:-1] + [(blocks[-1][0], blocks[-1][1] - 3)]
                    feats.append(("CDS", b2, strand, {"locus_tag": [tag], "codon_start": ["1"], "protein_id": ["P%db" % g],
                                                      "product": ["prod %d b" % g], "note": ["second cds note %d" % g],
                                                      "db_xref": ["DB:c%d" % g]}))
            pos += 20
        seqlen = pos + 50
        if len(feats) <= 7:
            perms = list(itertools.permutations(range(len(feats))))
            if len(perms) > maxperm:
                perms = [perms[0]] + rnd.sample(perms[1:], maxperm - 1)
        else:  # too many to enumerate: distinct random shuffles, the file order first
            seen = {tuple(range(len(feats)))}
            while len(seen) < maxperm:
                q = list(range(len(feats)))
                rnd.shuffle(q)
                seen.add(tuple(q))
            perms = sorted(seen, key=lambda t: (t != tuple(range(len(feats))), t))
        projs = []
        for p in perms:
            text = _genbank_text([feats[i] for i in p], seqlen)
            try:
                recs = list(parse_genbank(io.StringIO(text), gbk_type=GenBankParserType.LOCUS_TAG))
                projs.append(_project(recs[0].annotation.to_annotation_collection()))
            except Exception as ex:
                projs.append(["x", E.exc_name(ex)])
        ev.append(["perm", projs, len(feats)])
    return ev


def _gbfeat_events(args):
    """a non-gene GenBank feature read by the library's parser: the feature interval AND the collection inferred around it
    are named / identified by the same documented priority pick over the record's qualifiers (judged as `pick` events)"""
    seed, n = args
    setup_repo_import()
    from inscripta.biocantor.io.genbank.constants import GenBankParserType
    from inscripta.biocantor.io.genbank.parser import parse_genbank

    rnd = random.Random(seed)
    pool = ["standard_name", "name", "label", "operon", "id"]   # (no rank-0 keys here: their deviation is judged elsewhere)
    ev = []
    for _ in range(n):
        keys = rnd.sample(pool, rnd.randrange(1, len(pool) + 1))
        if rnd.random() < 0.7 and "id" not in keys:
            keys.append("id")
        spelled = [rnd.choice(NAME_SPELLINGS[k]) for k in keys]
        rnd.shuffle(spelled)
        q = {k: ["val_" + k, "second"] for k in spelled}
        text = _genbank_text([(rnd.choice(["regulatory", "repeat_region", "misc_binding"]), [(10, 40)], 1, q)], 120)
        try:
            mode = rnd.choice([GenBankParserType.LOCUS_TAG, GenBankParserType.HYBRID, GenBankParserType.SORTED])
            recs = list(parse_genbank(io.StringIO(text), gbk_type=mode))
            fc = recs[0].annotation.feature_collections[0]
            fi = fc.feature_intervals[0]
            got = [(fc.feature_collection_name, fc.feature_collection_id), (fi.feature_name, fi.feature_id)]
        except Exception as ex:
            got = [("!" + type(ex).__name__, "!"), ("!", "!")]
        for (nm, fid) in got:
            ev.append(["pick", [[k, v] for k, v in q.items()], nm if nm is not None else "<none>",
                       fid if fid is not None else "<none>"])
    return ev


def _gbprio_events(args):
    """an mRNA record and its CDS record that both say /product, /gene, /transcript_id or /protein_id, differently: the
    transcript-level record is asked first, the CDS record is the fall-back (get_qualifier_from_tx_or_cds_features)"""
    seed, n = args
    setup_repo_import()
    from inscripta.biocantor.io.genbank.constants import GenBankParserType
    from inscripta.biocantor.io.genbank.parser import parse_genbank

    rnd = random.Random(seed)
    ev = []
    KEYS = [("product", "product"), ("gene", "transcript_symbol"), ("transcript_id", "transcript_id"),
            ("protein_id", "protein_id")]
    for _ in range(n):
        blocks = [(10, 40), (60, 90)]
        mq = {"locus_tag": ["LT_1"]}
        cq = {"locus_tag": ["LT_1"], "codon_start": ["1"]}
        rows = []
        for key, attr in KEYS:
            m = rnd.choice(["", "m_" + key])
            c = rnd.choice(["", "c_" + key])
            if m:
                mq[key] = [m]
            if c:
                cq[key] = [c]
            rows.append([key, m, c])
        feats = [("gene", [(10, 90)], 1, {"locus_tag": ["LT_1"], "gene": ["gsym"]}), ("mRNA", blocks, 1, mq), ("CDS", blocks, 1, cq)]
        rnd.shuffle(feats)
        text = _genbank_text(feats, 150)
        try:
            recs = list(parse_genbank(io.StringIO(text), gbk_type=rnd.choice([GenBankParserType.LOCUS_TAG, GenBankParserType.HYBRID])))
            t = recs[0].annotation.genes[0].transcripts[0]
            got = [str(getattr(t, attr) or "") for _key, attr in KEYS]
        except Exception as ex:
            got = ["!" + type(ex).__name__] * len(KEYS)
        ev.append(["gbprio", [r + [g] for r, g in zip(rows, got)]])
    return ev


def _gffmerge_events(args):
    """top-level non-gene features with 2..4 children that carry tool-specific attributes: the parsed feature interval's
    qualifiers are the key-wise sorted union of all of them"""
    seed, n = args
    setup_repo_import()
    import os
    import tempfile

    from inscripta.biocantor.io.gff3.parser import parse_standard_gff3

    rnd = random.Random(seed)
    KEYS = ["experiment", "evidence", "tool", "score_src"]
    ev = []
    for _ in range(n):
        k = rnd.randrange(2, 5)
        children = []
        lines = ["##gff-version 3", "chrM\tbcverif\trepeat_region\t1\t60\t.\t+\t.\tID=top"]
        for c in range(k):
            q = {key: sorted(rnd.sample(range(30), rnd.randrange(1, 3))) for key in rnd.sample(KEYS, rnd.randrange(0, 4))}
            children.append([[key, v] for key, v in q.items()])
            attr = "ID=u%d;Parent=top" % c + "".join(";%s=%s" % (key, ",".join("v%02d" % x for x in v)) for key, v in q.items())
            lines.append("chrM\tbcverif\trepeat_unit\t%d\t%d\t.\t+\t.\t%s" % (5 + 12 * c, 12 + 12 * c, attr))
        order = lines[2:]
        rnd.shuffle(order)
        fd, path = tempfile.mkstemp(suffix=".gff3")
        os.write(fd, ("\n".join(lines[:2] + order) + "\n").encode())
        os.close(fd)
        try:
            recs = list(parse_standard_gff3(path))
            f = recs[0].annotation.feature_collections[0].feature_intervals[0]
            res = [[key, [int(x[1:]) for x in v]] for key, v in (f.qualifiers or {}).items() if key in KEYS]
        except Exception as ex:
            res = [["!" + type(ex).__name__, []]]
        finally:
            os.unlink(path)
        ev.append(["gffmerge", children, res])
    return ev


GFF_KEYS = {"gene_name": "nm", "gene_symbol": "sy", "gene": "ge", "Name": "Nm", "gene_biotype": "protein_coding",
            "gene_type": "lncRNA", "gene_id": "gid", "ID": "theid"}


def _gff_pick_events(args):
    """GFF3 gene rows carrying several of the recognised gene-attribute keys, in every order of column 9"""
    orders, seed = args
    setup_repo_import()
    import os

    from bcverif.runner import BUILD
    from inscripta.biocantor.io.gff3.parser import parse_standard_gff3

    tmpdir = os.path.join(BUILD, "C18", "gff")
    os.makedirs(tmpdir, exist_ok=True)
    ev = []
    for n, keys in enumerate(orders):
        attrs = ";".join("%s=%s" % (k, GFF_KEYS[k]) for k in keys)
        text = ("##gff-version 3\n"
                "chr1\tx\tgene\t11\t40\t.\t+\t.\t%s\n"
                "chr1\tx\tmRNA\t11\t40\t.\t+\t.\tID=tx1;Parent=theid\n"
                "chr1\tx\texon\t11\t40\t.\t+\t.\tID=ex1;Parent=tx1\n") % attrs
        path = os.path.join(tmpdir, "g_%d_%d.gff3" % (seed, n))
        with open(path, "w") as f:
            f.write(text)

        def parsed():
            recs = list(parse_standard_gff3(path))
            g = recs[0].annotation.genes[0]
            return (str(g.gene_symbol), str(g.gene_type.name if hasattr(g.gene_type, "name") else g.gene_type),
                    str(g.gene_id))

        ev.append(["gffpick", [[k, GFF_KEYS[k]] for k in keys], E.outcome(parsed, lambda r: (list(r),))])
        os.unlink(path)
    return ev



def _export_events(seed):
    """siblings exporting their qualifiers against one parent dictionary, in both orders"""
    setup_repo_import()
    from inscripta.biocantor.gene.biotype import Biotype
    from inscripta.biocantor.gene.feature import FeatureInterval
    from inscripta.biocantor.location.strand import Strand
    from bcverif.props.c06 import mk_tx

    rnd = random.Random(seed)
    ev = []
    # keys a parent may carry: ordinary ones and the very keys the children add their own attributes to
    TXK = ["transcript_id", "transcript_name", "transcript_biotype", "protein_id"]
    CDSK = ["protein_id", "product"]
    FTK = ["feature_name", "feature_id"]
    COMMON = ["note", "db_xref", "a"]

    def rdict(keys, lo=0, hi=3):
        return {k: sorted({"v%02d" % rnd.randrange(12) for _ in range(rnd.randrange(1, 3))})
                for k in rnd.sample(keys, rnd.randrange(lo, min(hi, len(keys)) + 1))}

    def enc(d):
        return [[str(k), sorted(str(x) for x in v)] for k, v in sorted(d.items(), key=lambda kv: str(kv[0]))]

    for _ in range(300):
        kind = rnd.choice(["tx", "cds", "feature"])
        special = {"tx": TXK, "cds": CDSK, "feature": FTK}[kind]
        P = rdict(COMMON + special, 1, 4)
        children = []
        for ci in range(rnd.choice([2, 2, 3])):
            own = rdict(COMMON + special, 0, 2)
            if kind in ("tx", "cds"):
                tid, sym, pid, prod = "id%d" % ci, rnd.choice(["symA", "symB"]), "prot%d" % ci, rnd.choice(["kinase", "isoform %d" % ci])
                bt = rnd.choice([Biotype.protein_coding, Biotype.lncRNA])
                t = mk_tx([[2, 20]], "+", [[2, 20]], None, transcript_id=tid, transcript_symbol=sym, transcript_type=bt,
                          protein_id=pid, product=prod, qualifiers={k: list(v) for k, v in own.items()})
                if kind == "tx":
                    obj = t
                    attrs = [["transcript_id", tid], ["transcript_name", sym], ["transcript_biotype", bt.name],
                             ["protein_id", pid]]
                else:
                    obj = t.cds
                    attrs = [["protein_id", pid], ["product", prod]]
                    own = {k: sorted(map(str, v)) for k, v in (obj.qualifiers or {}).items()}
            else:
                fn, fid = "fname%d" % ci, "fid%d" % ci
                obj = FeatureInterval([2], [9], Strand.PLUS, feature_name=fn, feature_id=fid,
                                      qualifiers={k: list(v) for k, v in own.items()})
                attrs = [["feature_name", fn], ["feature_id", fid]]
            children.append((obj, own, attrs))

        def run_order(order):
            p = {k: set(v) for k, v in P.items()}
            res = {}
            for i in order:
                try:
                    res[i] = enc(children[i][0].export_qualifiers(p))
                except Exception:
                    res[i] = [["!fail", []]]
            return res, enc(p)

        idx = list(range(len(children)))
        r1, p1 = run_order(idx)
        r2, p2 = run_order(idx[::-1])
        ev.append(["export", kind, enc(P), [[enc(children[i][1]), children[i][2], r1[i], r2[i]] for i in idx], p1, p2])
    return ev


def _key(ev, clause):
    if clause == "priority:rank0-key-treated-as-unset":
        return "quals:rank0-key-unset"
    return None


def run(chk):
    quick = chk.quick
    rnd = random.Random(chk.seed * 67867979 + 18)
    chk.mc("QualsMC", "QualsMC.cfg", note="repaired fold = order-free pick over all insertion orders up to 5 keys")
    chk.mc("QualsMC", "QualsMC_code.cfg", note="the code's fold (rank 0 read as unset) is wrong ONLY when a rank-0 key "
           "competes: the key of the C18 known finding is exact")
    chk.mc("QualsMC", "QualsMC_known.cfg", expect_violation=True, note="the code's fold is not order-free (known finding)")
    chk.mc("QualsMC", "QualsMC_neg.cfg", expect_violation=True, note="fold that overwrites without comparing")
    recognised = list(NAME_SPELLINGS)
    combos = []
    maxn = 4 if quick else 5
    for n in range(0, maxn + 1):
        for c in itertools.combinations(recognised + LOOKALIKES[:4] + ["note"], n):
            combos.append(c)
    if quick:
        combos = [c for c in combos if len(c) <= 3] + rnd.sample([c for c in combos if len(c) == 4], 300)
    parts = pmap(_pick_events, [(combos[i::32], chk.seed * 19 + i) for i in range(32)])
    evs = [e for p in parts for e in p]
    evs += _other_events(chk.seed + 5)
    evs += _export_events(chk.seed + 6)
    parts = pmap(_perm_events, [(chk.seed * 23 + i, 2 if quick else 12, 24 if quick else 120) for i in range(16)])
    evs += [e for p in parts for e in p]
    # the GFF3 parser's own priority lists for gene symbol / biotype / id: every subset containing ID, every order
    opt = [k for k in GFF_KEYS if k != "ID"]
    orders = []
    for n in range(0, 4 if quick else 5):
        for c in itertools.combinations(opt, n):
            for perm in itertools.permutations(c + ("ID",)):
                orders.append(list(perm))
    if quick:
        orders = [o for o in orders if len(o) <= 3] + rnd.sample([o for o in orders if len(o) == 4], 400)
    parts = pmap(_gff_pick_events, [(orders[i::16], chk.seed * 29 + i) for i in range(16)])
    evs += [e for p in parts for e in p]
    chk.extra["gff3_attribute_orders"] = len(orders)
    parts = pmap(_gbprio_events, [(chk.seed * 43 + i, 20 if quick else 300) for i in range(16)])
    evs += [e for p in parts for e in p]
    parts = pmap(_gbfeat_events, [(chk.seed * 41 + i, 20 if quick else 300) for i in range(16)])
    evs += [e for p in parts for e in p]
    parts = pmap(_gffmerge_events, [(chk.seed * 37 + i, 25 if quick else 400) for i in range(16)])
    evs += [e for p in parts for e in p]
    chk.validate("C18Trace", evs, shard=4000, label="quals", keyfn=_key)
    chk.exhaustive = not quick
    chk.nontrivial = len({str(e[1]) for e in evs})
    chk.extra["constants"] = {"key_subsets": len(combos), "max_subset_size": maxn,
                              "pick_events": sum(1 for e in evs if e[0] == "pick"),
                              "genbank_permutation_classes": sum(1 for e in evs if e[0] == "perm"),
                              "genbank_parses": sum(len(e[1]) for e in evs if e[0] == "perm")}
    chk.trusted += ["TLC", "Quals.tla (Canon table over the key-spelling pool)", "Biopython GenBank writer (builds the "
                    "permuted files)"]
    return chk.finish("all subsets (size<=5, quick<=4) of the 9 recognised keys + look-alikes in ALL orderings with "
                      "random case spellings and distinct values; feature-type collection and dictionary merge on "
                      "random dictionaries; GenBank records in every permutation (<=24/120 per file) parsed in "
                      "LOCUS_TAG mode; distinct = distinct dictionaries / permutation classes")
