"""C13 — variant haplotypes: alternative sequence and lift-over match the literal edit model."""
import random

from bcverif import encode as E
from bcverif.props.c05 import layouts
from bcverif.props.c06 import cds_blocks
from bcverif.runner import pmap, setup_repo_import

ALTS = ["", "T", "GA", "CCT", "N"]


def premise(blocks, variants):
    for (s, e, _a) in variants:
        inside = any(b[0] <= s and e <= b[1] for b in blocks)
        outside = all(e <= b[0] or s >= b[1] for b in blocks)
        if not (inside or outside):
            return False
    return True


def _parents(R, window, minus=False):
    from inscripta.biocantor.io.parser import seq_chunk_to_parent
    from inscripta.biocantor.parent import Parent, SequenceType
    from inscripta.biocantor.sequence import Sequence
    from inscripta.biocantor.sequence.alphabet import Alphabet

    if window is None:
        return Parent(id="chr", sequence=Sequence(R, Alphabet.NT_STRICT_UNKNOWN, id="chr", type=SequenceType.CHROMOSOME))
    return E.chunk_parent(R, window[0], window[1], minus=minus, alphabet=Alphabet.NT_STRICT_UNKNOWN)


def _mk_variants(variants, parent):
    from inscripta.biocantor.gene.variants import VariantInterval, VariantIntervalCollection

    # the type label is free text to the library (PyVCF labels a padded deletion with a one-base ALT "SNV"): a third of
    # the variants carry a label that does not describe their shape -- the edit model never looks at it
    def label(s, e, a):
        natural = "deletion" if len(a) < e - s else ("insertion" if len(a) > e - s else "SNV")
        k = (s * 7 + e * 3 + len(a)) % 9
        return natural if k >= 3 else ("SNV", "MNV", "indel")[k]

    vis = [VariantInterval(s, e, a, label(s, e, a), parent_or_seq_chunk_parent=parent) for (s, e, a) in variants]
    # the order in which the caller lists the variants of a haplotype is not part of its meaning: reversed / rotated lists
    k = (sum(s for (s, _e, _a) in variants) + len(variants)) % 3
    listed = vis if k == 0 else (vis[::-1] if k == 1 else vis[1:] + vis[:1])
    return vis, (VariantIntervalCollection(listed, parent_or_seq_chunk_parent=parent) if vis else None)


def _to_chrom(l):
    from inscripta.biocantor.parent import SequenceType

    if l.is_empty:
        return l
    if l.has_ancestor_of_type(SequenceType.SEQUENCE_CHUNK):
        return l.lift_over_to_first_ancestor_of_type(SequenceType.CHROMOSOME)
    return l


def _events(args):
    items, seed = args
    setup_repo_import()
    from inscripta.biocantor.gene.feature import FeatureInterval
    from inscripta.biocantor.gene.interval import AbstractInterval
    from inscripta.biocantor.location.strand import Strand
    from bcverif.props.c06 import cds_blocks, mk_tx

    rnd = random.Random(seed)
    ev = []
    for (G, blocks, st, variants, window) in items:
        R = "".join(rnd.choice("ACGT") for _ in range(G))
        Vj = [[s, e, list(a)] for (s, e, a) in variants]
        lj = [blocks, st]
        if window is not None and rnd.random() < 0.06:
            # a sequence chunk on the MINUS strand of the chromosome: the alternative sequence of the chunk is the edited
            # window, read in the chunk's orientation (only this question is asked there; keyed known finding)
            try:
                mpar = _parents(R, window, minus=True)
                mvis, mcoll = _mk_variants(variants, mpar)
                ev.append(["altm", list(R), Vj, window[0], window[1],
                           E.outcome(lambda: list(str(mcoll.alternative_genomic_sequence)))])
            except Exception as ex:
                ev.append(["altm", list(R), Vj, window[0], window[1], ["x", E.exc_name(ex)]])
        par = _parents(R, window)
        try:
            vis, coll = _mk_variants(variants, par)
        except Exception as ex:
            ev.append(["alt", list(R), Vj, 0, G, ["x", "ctor:" + type(ex).__name__]])
            continue
        if rnd.random() < 0.3:
            # the same haplotype built the way the VCF / data-model path builds it (marshmallow model -> object on the
            # given parent): from here on it is the object under test
            try:
                from inscripta.biocantor.io.models import VariantIntervalCollectionModel

                mdl = VariantIntervalCollectionModel.Schema().load(coll.to_dict())
                coll = mdl.to_variant_interval_collection(par)
                vis = list(coll.variant_intervals)
            except Exception as ex:
                ev.append(["alt", list(R), Vj, 0, G, ["x", "model:" + type(ex).__name__]])
                continue
        ws, we = window if window else (0, G)
        ev.append(["alt", list(R), Vj, ws, we, E.outcome(lambda: list(str(
            (vis[0] if len(vis) == 1 and rnd.random() < 0.5 else coll).alternative_genomic_sequence))),
            # field 7: every variant's own account of what it does to the length (<<start, end, length_difference>>)
            E.outcome(lambda: [[v.start, v.end, v.length_difference] for v in vis])])
        loc = AbstractInterval.liftover_location_to_seq_chunk_parent(E.make_loc(blocks, st), par)
        for use_coll in ([False, True] if len(vis) == 1 else [True]):
            obj = coll if use_coll else vis[0]
            holder = []
            o = E.outcome(lambda: holder.append(obj.lift_over_location(loc)) or 1)
            if holder:
                r = holder[0]
                lo = E.outcome(lambda: E.loc(_to_chrom(r)))
                sp = E.outcome(lambda: list(str(r.extract_sequence()))) if not r.is_empty else ["x", "empty"]
            else:
                lo, sp = o, ["x", "n/a"]
            ev.append(["lift", list(R), Vj, lj, use_coll, lo, sp])
            # incorporate_variants on a feature and on a (non-coding) transcript built on the same parent
            for kind in ("feature", "transcript"):
                try:
                    if kind == "feature":
                        feat = FeatureInterval([b[0] for b in blocks], [b[1] for b in blocks], Strand.from_symbol(st),
                                               parent_or_seq_chunk_parent=par)
                    else:
                        feat = mk_tx(blocks, st, None, None, parent=par)
                except Exception:
                    continue
                io = E.outcome(lambda: (lambda n: (E.loc(n.chromosome_location), list(str(n.get_spliced_sequence()))))(
                    feat.incorporate_variants(obj)))
                ev.append(["inc", kind, list(R), Vj, lj, use_coll, io])
                if kind == "transcript" and rnd.random() < 0.5:
                    # the same through a GENE around that transcript, built with or WITHOUT repeating the parent
                    from inscripta.biocantor.gene.gene import GeneInterval

                    try:
                        tg = mk_tx(blocks, st, None, None, parent=par)
                        gene = GeneInterval([tg], gene_id="g") if rnd.random() < 0.6 else \
                            GeneInterval([tg], gene_id="g", parent_or_seq_chunk_parent=par)
                    except Exception:
                        continue
                    io = E.outcome(lambda: (lambda n: (E.loc(n.transcripts[0].chromosome_location),
                                                       list(str(n.transcripts[0].get_spliced_sequence()))))(
                        gene.incorporate_variants(obj)))
                    ev.append(["inc", "gene", list(R), Vj, lj, use_coll, io])
            # a CODING transcript: after incorporating variants its CDS is the edited image of the reference CDS
            n_tx = sum(b[1] - b[0] for b in blocks)
            if n_tx >= 4:
                ca = rnd.randrange(0, n_tx - 2)
                cb = rnd.randrange(ca + 1, n_tx + 1)
                cds = cds_blocks(blocks, st, ca, cb)
                try:
                    ctx = mk_tx(blocks, st, cds, None, parent=par)
                except Exception:
                    continue

                def cds_after(n):
                    if n.cds is None:
                        return ([[], "e"], [])
                    return (E.loc(n.cds.chromosome_location), list(str(n.cds.get_spliced_sequence())))

                io = E.outcome(lambda: cds_after(ctx.incorporate_variants(obj)))
                ev.append(["inccds", list(R), Vj, lj, [cds, st], use_coll, io])
    return ev



def _hapmap_events(args):
    """AnnotationCollection.alternative_haplotype_mapping: every variant collection (haplotype) handed to the collection
    is applied to every gene / feature collection it overlaps; haplotypes in any number and order"""
    seed, n = args
    setup_repo_import()
    from inscripta.biocantor.gene.collections import AnnotationCollection
    from inscripta.biocantor.gene.gene import GeneInterval
    from inscripta.biocantor.gene.variants import VariantInterval, VariantIntervalCollection
    from bcverif.props.c06 import mk_tx

    rnd = random.Random(seed)
    ev = []
    G = 36
    for _ in range(n):
        R = "".join(rnd.choice("ACGT") for _ in range(G))
        par = _parents(R, None)
        genes, spans, layouts_ = [], [], []
        pos = rnd.randrange(0, 4)
        for gi in range(rnd.randrange(1, 4)):
            a = pos + rnd.randrange(0, 3)
            b = a + rnd.randrange(3, 7)
            blocks = [[a, b]]
            if rnd.random() < 0.5:
                c = b + rnd.randrange(1, 4)
                blocks.append([c, c + rnd.randrange(2, 5)])
            if blocks[-1][1] > G - 2:
                break
            st = rnd.choice("+-")
            genes.append(GeneInterval([mk_tx(blocks, st, None, None, parent=par, transcript_id="t%d" % gi)],
                                      gene_id="g%d" % gi, parent_or_seq_chunk_parent=par))
            spans.append([blocks[0][0], blocks[-1][1]])
            layouts_.append([blocks, st])
            pos = blocks[-1][1] + rnd.randrange(1, 4)
        if not genes:
            continue
        vcs, vspans, vlist = [], [], []
        for vi in range(rnd.randrange(1, 4)):
            s0 = rnd.randrange(0, G - 3)
            e0 = s0 + rnd.randrange(1, 3)
            alt = rnd.choice(["A", "CC", "", "GTA", "T"])
            try:
                v = VariantInterval(s0, e0, alt, "x", parent_or_seq_chunk_parent=par, variant_name="v%d" % vi)
                vcs.append(VariantIntervalCollection([v], parent_or_seq_chunk_parent=par, variant_collection_name="h%d" % vi))
            except Exception:
                continue
            vspans.append([s0, e0])
            vlist.append([s0, e0, list(alt)])
        if not vcs:
            continue
        order = list(range(len(vcs)))
        rnd.shuffle(order)
        try:
            coll = AnnotationCollection(genes=genes, variant_collections=[vcs[i] for i in order], sequence_name="chr",
                                        parent_or_seq_chunk_parent=par)
            m = coll.alternative_haplotype_mapping
        except Exception as ex:
            ev.append(["hapmap", spans, vspans, [[0, [E.exc_name(ex)]]]])
            continue
        got = []
        for vi, vc in enumerate(vcs):
            members = m.get(vc.guid, [])
            idx = sorted(int(str(x.gene_id)[1:]) + 1 for x in members if getattr(x, "gene_id", None))
            got.append([vi + 1, idx])
            # ... and each alternative member is the member with that haplotype's edits applied
            for x in members:
                gi = int(str(x.gene_id)[1:])
                t = x.transcripts[0]
                io = E.outcome(lambda t=t: (E.loc(t.chromosome_location), list(str(t.get_spliced_sequence()))))
                ev.append(["inc", "transcript", list(R), [vlist[vi]], layouts_[gi], True, io])
        ev.append(["hapmap", spans, vspans, got])
    return ev


class _Alt:
    def __init__(self, seq, typ):
        self.sequence, self.type = seq, typ


class _Data:
    pass


class _Sample:
    def __init__(self, ps):
        self.data = _Data()
        if ps is not None:
            self.data.PS = ps


class _Rec:
    def __init__(self, chrom, start, end, alts, ps):
        self.CHROM, self.POS = chrom, start + 1
        self.affected_start, self.affected_end = start, end
        self.ALT = [_Alt(a, "indel" if len(a) != end - start else "snp") for a in alts]
        self.samples = [_Sample(ps)]


def _vcf_events(seed):
    setup_repo_import()
    from inscripta.biocantor.io.vcf.parser import convert_vcf_records_to_model

    rnd = random.Random(seed)
    ev = []
    for _ in range(300):
        n = rnd.randrange(1, 6)
        recs, desc, pos = [], [], 5
        for _k in range(n):
            s = pos + rnd.randrange(0, 5)
            e = s + rnd.choice([0, 1, 1, 2, 3])
            alts = rnd.sample(["A", "C", "GT", "TTT", "G"], rnd.choice([1, 1, 2]))
            ps = rnd.choice([None, None, 0, 100, 200])   # PS=0 is a legal phase-set id
            recs.append(_Rec("chr1", s, e, alts, ps))
            desc.append([s, e, [list(a) for a in alts], ps if ps is not None else -1])
            pos = max(e, s + 1) + 1
        try:
            models = convert_vcf_records_to_model(recs)
            groups = [[[v.start, v.end, list(v.sequence)] for v in m.variant_intervals] for m in models.get("chr1", [])]
            ev.append(["vcf", desc, groups])
        except Exception as ex:
            ev.append(["vcf", desc, [[[0, 0, [type(ex).__name__]]]]])
    return ev


def _key(ev, clause):
    if clause == "collection-lift:sequential-shift":
        return "variants:sequential-shift"
    if clause == "alternative-sequence:minus-strand-chunk":
        return "variants:minus-strand-chunk"
    return None


def run(chk):
    quick = chk.quick
    rnd = random.Random(chk.seed * 122949829 + 13)
    chk.mc("VariantsMC", "VariantsMC.cfg", note="one variant (span<=3, 4 alternative alleles) x all locations K<=2 over a "
           "length-7 reference satisfying the premise: EditedImage, SplicedIsEdited")
    chk.mc("VariantsMC", "VariantsMC_two_r2l.cfg", note="two variants applied right to left: EditedImage holds")
    chk.mc("VariantsMC", "VariantsMC_two_code.cfg", note="two variants applied left to right with original coordinates "
           "(the code): wrong ONLY when a non-last variant changes the length -> the known-finding key is exact")
    chk.mc("VariantsMC", "VariantsMC_known.cfg", expect_violation=True,
           note="strict EditedImage for the code's left-to-right order is refuted (spec-level image of the finding)")
    G = 9 if quick else 11
    items = []
    onevars = [(s, e, a) for s in range(G) for e in range(s + 1, min(G, s + 3) + 1) for a in ALTS]
    lay = [(bl, st) for bl in layouts(G, 2) for st in "+-"]
    for (bl, st) in lay:
        for v in onevars:
            if premise(bl, [v]):
                items.append((G, bl, st, [v], None))
    n1 = len(items)
    if quick:
        items = rnd.sample(items, 5000)
    # two and three variants, chunks
    more = []
    for _ in range(3000 if quick else 60000):
        bl, st = rnd.choice(lay)
        k = rnd.choice([2, 2, 3])
        vs = sorted(rnd.sample(onevars, k), key=lambda v: v[0])
        if any(vs[i][1] > vs[i + 1][0] for i in range(k - 1)) or not premise(bl, vs):
            continue
        more.append((G, bl, st, vs, None))
    for _ in range(2500 if quick else 40000):
        bl, st = rnd.choice(lay)
        v = rnd.choice(onevars)
        ws = rnd.randrange(0, min(bl[0][0], v[0]) + 1)
        we = rnd.randrange(max(bl[-1][1], v[1]), G + 1)
        if premise(bl, [v]):
            more.append((G, bl, st, [v], (ws, we)))
    items += more
    parts = pmap(_events, [(items[i::64], chk.seed * 503 + i) for i in range(64)])
    evs = [e for p in parts for e in p]
    evs += _vcf_events(chk.seed + 13)
    parts = pmap(_hapmap_events, [(chk.seed * 509 + i, 25 if quick else 500) for i in range(16)])
    evs += [e for p in parts for e in p]
    chk.validate("C13Trace", evs, shard=2500, label="variants", keyfn=_key)
    chk.exhaustive = not quick
    chk.nontrivial = len({str(e[1:6]) for e in evs})
    chk.extra["constants"] = {"G": G, "single_variant_cases_in_space": n1, "cases_driven": len(items),
                              "events": len(evs)}
    chk.trusted += ["TLC", "Variants.tla (Alt, Shift, SemLiftBlocks)", "encode.py", "duck-typed VCF records (the pyvcf3 "
                    "reader is absent: reading VCF files is not claimed)"]
    chk.assumptions += ["VCF files are not read (pyvcf3 absent); convert_vcf_records_to_model is driven with duck-typed "
                        "records"]
    return chk.finish("every single variant (span<=3 x {deletion, padded deletion, SNV-like, insertions}) x every location "
                      "K<=2 over 0..G, both strands, satisfying the inside/outside premise (quick: 5000 sampled), random "
                      "2-3 variant haplotypes, chunk parents; lift_over_location, alternative sequences, "
                      "incorporate_variants on features and transcripts; VCF record grouping; distinct = distinct "
                      "(reference, variants, location, window)")
