"""C08 — serialised forms round-trip; identifiers are deterministic functions of content.
Direction A: TLC enumerates every route of length D through the conversion graph (SerialMC); each route is replayed on
real objects of every kind and the replay is judged by TLC.  Plus a PYTHONHASHSEED / insertion-order sweep in fresh
interpreters."""
import copy
import enum
import json
import os
import pickle
import random
import re
import subprocess
import sys
import uuid

from bcverif.runner import MachineryError, REPO, VERIF, pmap, setup_repo_import


def norm(x):
    """JSON-able canonical form of dict / model dumps"""
    if isinstance(x, dict):
        return {str(k): norm(v) for k, v in x.items()}
    if isinstance(x, (list, tuple)):
        return [norm(v) for v in x]
    if isinstance(x, (set, frozenset)):
        return sorted(norm(v) for v in x)
    if isinstance(x, uuid.UUID):
        return str(x)
    if isinstance(x, enum.Enum):
        return x.name
    return x


GUID_KEY = re.compile(r"(^guid$|_guid$)")


def split_guids(d, path=""):
    """(content without computed identifiers, list of identifiers)"""
    guids = []

    def rec(v, p):
        if isinstance(v, dict):
            out = {}
            for k, w in v.items():
                if GUID_KEY.search(k) and k not in ("sequence_guid", "feature_guid", "transcript_guid", "variant_guid"):
                    guids.append((p + "/" + k, w))
                else:
                    out[k] = rec(w, p + "/" + k)
            # qualifiers: order of keys and values is not content
            return out
        if isinstance(v, list):
            return [rec(w, p + "/%d" % i) for i, w in enumerate(v)]
        return v

    return rec(d, path), guids


def strip_guids(d):
    def rec(v):
        if isinstance(v, dict):
            return {k: (None if (GUID_KEY.search(k) and k not in ("sequence_guid", "feature_guid", "transcript_guid",
                                                                   "variant_guid")) else rec(w)) for k, w in v.items()}
        if isinstance(v, list):
            return [rec(w) for w in v]
        return v

    return rec(d)


def shuffle_qualifiers(d, rnd):
    def rec(v):
        if isinstance(v, dict):
            items = list(v.items())
            out = {}
            for k, w in items:
                if k == "qualifiers" and isinstance(w, dict):
                    qi = list(w.items())
                    rnd.shuffle(qi)
                    out[k] = {a: rnd.sample(b, len(b)) for a, b in qi}
                else:
                    out[k] = rec(w)
            return out
        if isinstance(v, list):
            return [rec(w) for w in v]
        return v

    return rec(d)


def kinds():
    from inscripta.biocantor.gene.cds import CDSInterval
    from inscripta.biocantor.gene.collections import AnnotationCollection
    from inscripta.biocantor.gene.feature import FeatureInterval, FeatureIntervalCollection
    from inscripta.biocantor.gene.gene import GeneInterval
    from inscripta.biocantor.gene.transcript import TranscriptInterval
    from inscripta.biocantor.gene.variants import VariantInterval, VariantIntervalCollection
    from inscripta.biocantor.io import models as M

    return {
        "feature": (FeatureInterval, M.FeatureIntervalModel, "from_feature_interval", "to_feature_interval"),
        "transcript": (TranscriptInterval, M.TranscriptIntervalModel, "from_transcript_interval",
                       "to_transcript_interval"),
        "gene": (GeneInterval, M.GeneIntervalModel, "from_gene_interval", "to_gene_interval"),
        "fcollection": (FeatureIntervalCollection, M.FeatureIntervalCollectionModel, "from_feature_collection",
                        "to_feature_collection"),
        "variant": (VariantInterval, M.VariantIntervalModel, "from_variant_interval", "to_variant_interval"),
        "vcollection": (VariantIntervalCollection, M.VariantIntervalCollectionModel,
                        "from_variant_interval_collection", "to_variant_interval_collection"),
        "annotation": (AnnotationCollection, M.AnnotationCollectionModel, "from_annotation_collection",
                       "to_annotation_collection"),
        "cds": (CDSInterval, None, None, None),
    }


def obj_dict(kind, o):
    if kind == "annotation":
        return o.to_dict(export_parent=True)
    return o.to_dict()


def parent_of(kind, o):
    if kind == "annotation":
        return None  # travels inside the dictionary (export_parent)
    return o._parent_or_seq_chunk_parent


QUALS = [None, {"note": ["b", "a"], "count": [3, 1], "flag": [True]}, {"k1": ["x"], "K2": ["y", "z", "x"]},
         {"pseudo": [], "note": ["a"]}, {"x": [1.5, "1.5"], "": ["empty key"], "unicode \u00e9": ["\u00fc", "a b"]},
         {"gene": ["Adh1", "ADH1", "adh1", "aDH1"], "Note": ["x"], "note": ["X", "x"]}]


def zoo(rnd):
    """one object of every kind, random structure / parent"""
    from bcverif.props.c09 import _build
    from inscripta.biocantor.gene.cds import CDSInterval

    out = []
    built = None
    while built is None:
        built = _build(rnd, False, rnd.random() < 0.7, rnd.random() < 0.4)
    coll = built[0]
    out.append(("annotation", coll))
    # a collection that is itself the answer of a range query (carries the query's flags and bounds)
    try:
        cw = rnd.random() < 0.5
        sub = coll.query_by_position(coll.start, coll.end, completely_within=cw) if rnd.random() < 0.5 else \
            coll.query_by_position(coll.start + (coll.end - coll.start) // 4, coll.end, completely_within=cw)
        if not sub.is_empty:
            out.append(("annotation", sub, agg_guids(coll)))
    except Exception:
        pass
    for g in coll.genes[:1]:
        out.append(("gene", g))
        out.append(("transcript", g.transcripts[0]))
        if g.transcripts[0].is_coding:
            out.append(("cds", g.transcripts[0].cds))
    for fc in coll.feature_collections[:1]:
        out.append(("fcollection", fc))
        out.append(("feature", fc.feature_intervals[0]))
    for vc in coll.variant_collections[:1]:
        out.append(("vcollection", vc))
        out.append(("variant", vc.variant_intervals[0]))
    # a coding transcript (and its gene) on a chunk that holds one of its exons but NOT ONE base of its CDS, and one on a
    # chunk that cuts its CDS: what is exported is the chromosome structure, whatever the chunk shows of it
    try:
        from bcverif import encode as E
        from bcverif.props.c06 import mk_tx
        from inscripta.biocantor.gene.gene import GeneInterval

        root = "".join(rnd.choice("ACGT") for _ in range(80))
        a = rnd.randrange(3, 10)
        ex = [[a, a + rnd.randrange(6, 12)], [30 + rnd.randrange(0, 5), 60 + rnd.randrange(0, 8)]]
        cds = [[ex[1][0] + rnd.randrange(1, 4), ex[1][0] + 4 + 3 * rnd.randrange(2, 6)]]
        st = rnd.choice("+-")
        for win in ((0, ex[0][1] + rnd.randrange(1, 6)), (0, cds[0][0] + rnd.randrange(1, 5))):
            cp = E.chunk_parent(root, win[0], win[1])
            tx = mk_tx(ex, st, cds, None, parent=cp, transcript_id="tx_off", protein_id="p_off", sequence_name="chr")
            out.append(("transcript", tx))
            out.append(("gene", GeneInterval([tx], gene_id="g_off", sequence_name="chr", parent_or_seq_chunk_parent=cp)))
    except ImportError:
        raise
    # the same kinds again with qualifiers (rebuilt from dictionaries with qualifiers injected)
    K = kinds()
    extra = []
    for kind, o in [x[:2] for x in out]:
        d = obj_dict(kind, o)
        q = rnd.choice(QUALS)
        if q and "qualifiers" in d:
            d = dict(d)
            d["qualifiers"] = copy.deepcopy(q)
            d = strip_guids(d)
            try:
                extra.append((kind, K[kind][0].from_dict(d, parent_of(kind, o)) if kind != "annotation"
                              else K[kind][0].from_dict(d)))
            except Exception:
                pass
    return out + extra


def perturb(kind, d, rnd):
    """change one coordinate, strand or frame of a dictionary form (identifiers stripped)"""
    d = copy.deepcopy(strip_guids(d))

    def first_leaf(v):
        for key in ("exon_starts", "interval_starts", "cds_starts"):
            if isinstance(v, dict) and key in v and v[key]:
                return v, key
        if isinstance(v, dict):
            for w in v.values():
                r = first_leaf(w)
                if r:
                    return r
        if isinstance(v, list):
            for w in v:
                r = first_leaf(w)
                if r:
                    return r
        return None

    if kind in ("variant",):
        d["sequence"] = d["sequence"] + "A"
        return d
    if kind == "vcollection":
        d["variant_intervals"][0]["sequence"] += "A"
        return d
    leaf = first_leaf(d)
    if leaf is None:
        if "variant_collections" in d and d["variant_collections"]:
            d["variant_collections"][0]["variant_intervals"][0]["sequence"] += "A"
        return d
    node, key = leaf
    choice = rnd.choice(["strand", "coord", "frame", "coord-", "strand"])
    if choice == "frame" and node.get("cds_frames"):
        fr = list(node["cds_frames"])
        fr[0] = {"ZERO": "ONE", "ONE": "TWO", "TWO": "ZERO"}.get(fr[0], "ZERO")
        node["cds_frames"] = fr
    elif choice == "strand" and "strand" in node:
        node["strand"] = "MINUS" if node["strand"] == "PLUS" else "PLUS"
    elif choice == "coord-" and node[key][0] > 0:
        st = list(node[key])
        st[0] = st[0] - 1
        node[key] = st
        if key == "cds_starts" and "exon_starts" in node:
            es = list(node["exon_starts"])
            es[0] = min(es[0], st[0])
            node["exon_starts"] = es
    else:
        ends_key = key.replace("starts", "ends")
        ends = list(node[ends_key])
        ends[-1] = ends[-1] + 1
        node[ends_key] = ends
        if key == "cds_starts" and "exon_ends" in node:  # keep the CDS inside the exons
            ee = list(node["exon_ends"])
            ee[-1] = max(ee[-1], ends[-1])
            node["exon_ends"] = ee
    return d


AGG_KEYS = ("gene_guid", "feature_collection_guid", "variant_collection_guid")


def agg_guids(coll):
    """identifiers of the aggregates (genes, feature collections, variant collections) of a collection"""
    return {str(x.guid) for x in list(coll.genes) + list(coll.feature_collections) + list(coll.variant_collections)}


def scramble(v):
    """edit an exported dictionary the way a caller deriving another annotation would: keys re-bound to other values
    (identifiers blanked, strand flipped, coordinates and children replaced), nested dictionaries edited likewise.
    Lists are replaced, not emptied in place: the library documents no copy semantics for the coordinate lists it
    exports (on the unchanged tree they ARE the interval's own lists), so in-place list surgery is not held against it."""
    if isinstance(v, dict):
        for k in list(v):
            w = v[k]
            if isinstance(w, dict):
                scramble(w)
                v[k] = {}
            elif isinstance(w, list):
                for x in w:
                    if isinstance(x, dict):
                        scramble(x)
                v[k] = []
            else:
                v[k] = "!edited" if isinstance(w, str) else (-7 if isinstance(w, (int, float)) and not isinstance(w, bool) else None)


def export_read(kind, o):
    """the export operations of an object, run for their side effects only (there must be none): rows / qualifiers for
    GFF3, with parent qualifiers that share the object's own keys but carry other values"""
    pq = {k: {"from-parent-1", "from-parent-2"} for k in list(getattr(o, "qualifiers", None) or {}) + [
        "note", "product", "protein_id", "transcript_id", "transcript_name", "feature_name", "feature_id"]}
    for fn in (lambda: o.export_qualifiers(pq), lambda: o.export_qualifiers(),
               lambda: list(o.to_gff(parent="P", parent_qualifiers=pq)), lambda: list(o.to_gff()),
               lambda: str(o.to_bed12())):
        try:
            fn()
        except Exception:
            pass  # whether an export succeeds is not this property's question; what it leaves behind is


def replay(kind, obj, path, rnd, inherit=None):
    """returns steps = [action, status, contentSame, guidSame, equalToOriginal(, named deviation)]
    inherit: for a collection that is the answer of a query, the aggregate identifiers of the collection it was taken
    from (the named deviation of known finding serial:agg-guid-inherited-across-chunks is recognised against them)"""
    K = kinds()
    cls, Model, from_name, to_name = K[kind]
    par = parent_of(kind, obj)
    cur, form = obj, "OBJ"
    orig = obj

    def canon(v, f):
        if f == "OBJ":
            return norm(obj_dict(kind, v))
        if f == "DICT" or f == "PLAIN":
            return norm(v)
        if f == "MODEL":
            return norm(Model.Schema().dump(v))
        if f == "JSON":
            return norm(json.loads(v))
        return None

    steps = []
    for a in path:
        before = canon(cur, form) if form != "PICKLE" else last_canon
        try:
            if a == "ToDict":
                if rnd.random() < 0.5:
                    # an exported dictionary belongs to the caller: wrecking it in place (a derived annotation is often
                    # made by editing an export) must not reach the object nor its next export
                    scramble(obj_dict(kind, cur))
                nxt, nf = obj_dict(kind, cur), "DICT"
            elif a == "FromDict":
                nxt = cls.from_dict(cur, par) if kind != "annotation" else cls.from_dict(cur)
                nf = "OBJ"
            elif a == "SchemaLoad":
                if Model is None:
                    return steps
                nxt, nf = Model.Schema().load(cur), "MODEL"
            elif a == "FromObject":
                if Model is None:
                    return steps
                nxt = getattr(Model, from_name)(cur, export_parent=True) if kind == "annotation" else \
                    getattr(Model, from_name)(cur)
                nf = "MODEL"
            elif a == "ToObject":
                nxt = getattr(cur, to_name)() if kind == "annotation" else getattr(cur, to_name)(par)
                nf = "OBJ"
            elif a == "SchemaDump":
                nxt, nf = Model.Schema().dump(cur), "PLAIN"
            elif a == "PlainLoad":
                nxt, nf = Model.Schema().load(cur), "MODEL"
            elif a == "JsonDumps":
                nxt, nf = json.dumps(cur), "JSON"
            elif a == "JsonLoads":
                nxt, nf = json.loads(cur), "PLAIN"
            elif a == "Pickle":
                nxt, nf = pickle.dumps(cur), "PICKLE"
            elif a == "Unpickle":
                nxt, nf = pickle.loads(cur), "OBJ"
            elif a == "Export":
                export_read(kind, cur)
                nxt, nf = cur, "OBJ"
            elif a == "Rebuild":
                d = shuffle_qualifiers(strip_guids(obj_dict(kind, cur)), rnd)
                nxt = cls.from_dict(d, par) if kind != "annotation" else cls.from_dict(d)
                nf = "OBJ"
            elif a == "Perturb":
                nxt = None
                for _try in range(8):  # a perturbed content must itself be constructible
                    d = perturb(kind, obj_dict(kind, cur), rnd)
                    try:
                        nxt = cls.from_dict(d, par) if kind != "annotation" else cls.from_dict(d)
                        break
                    except Exception:
                        continue
                if nxt is None:
                    return steps
                nf = "OBJ"
            else:
                raise MachineryError("unknown action " + a)
            if nf != "PICKLE":
                after = canon(nxt, nf)
            else:
                after = before
        except MachineryError:
            raise
        except Exception as ex:
            steps.append([a, type(ex).__name__, False, False, False])
            return steps
        last_canon = after
        cb, gb = split_guids(before)
        ca, ga = split_guids(after)
        if a == "Perturb":
            steps.append([a, "ok", ca == cb, nxt.guid == cur.guid, False])
            orig = nxt
        else:
            same_content = ca == cb
            same_guid = sorted(map(str, ga)) == sorted(map(str, gb))
            eq = True
            if nf == "OBJ":
                same_guid = same_guid and nxt.guid == orig.guid
                try:
                    eq = (nxt == orig) and hash(nxt) == hash(orig)
                except Exception:
                    eq = False
            step = [a, "ok", same_content, same_guid, eq]
            if a == "Rebuild" and same_content and not same_guid and kind == "annotation" and inherit is not None \
                    and getattr(cur, "_parent_or_seq_chunk_parent", None) is not None:
                # Named deviation (known finding): genes / feature collections / variant collections digest their
                # CHUNK-RELATIVE location, and a query hands the aggregates of its source collection on with the
                # identifier computed on the source's chunk.  Recognised only if nothing but aggregate-level
                # identifiers differ and every differing one is literally an identifier of the source collection.
                db, da = dict(gb), dict(ga)
                diff = [p for p in db if db[p] != da.get(p)]
                if diff and set(db) == set(da) and all(
                        p.rsplit("/", 1)[1] in AGG_KEYS and str(db[p]) in inherit for p in diff):
                    step.append("agg-guid-from-other-chunk")
                    orig = nxt
            steps.append(step)
        cur, form = nxt, nf
    return steps


def _replay_events(args):
    seed, paths, nzoo = args
    setup_repo_import()
    rnd = random.Random(seed)
    ev = []
    for _ in range(nzoo):
        for item in zoo(rnd):
            kind, obj = item[:2]
            for path in rnd.sample(paths, min(len(paths), 25)):
                ev.append(["path", kind, replay(kind, obj, path, rnd, inherit=item[2] if len(item) > 2 else None)])
    return ev


SWEEP_CHILD = r"""
import json, sys, random
sys.path.insert(0, %(harness)r); sys.path.insert(0, %(repo)r)
from bcverif.runner import setup_repo_import
setup_repo_import()
from bcverif.props import c08
K = c08.kinds()
items = json.load(open(sys.argv[1]))
rnd = random.Random(int(sys.argv[2]))
out = [None] * len(items)
# every interpreter meets the same contents in ANOTHER order (what was built earlier in the process is no part of an
# object's content): even seeds start with the last items, odd seeds shuffle
order = list(range(len(items)))
if int(sys.argv[2]) %% 2:
    rnd.shuffle(order)
else:
    order.reverse()
for i in order:
    it = items[i]
    d = c08.shuffle_qualifiers(it["dict"], rnd)
    cls = K[it["kind"]][0]
    try:
        o = cls.from_dict(d) if it["kind"] == "annotation" else cls.from_dict(d, None)
        out[i] = str(o.guid)
    except Exception as ex:
        out[i] = "!" + type(ex).__name__
print(json.dumps(out))
"""


def sweep(chk, seeds):
    """identifier of the same content in fresh interpreters under different PYTHONHASHSEED and insertion orders"""
    setup_repo_import()
    rnd = random.Random(chk.seed + 808)
    items = []
    K = kinds()
    for _ in range(12 if chk.quick else 60):
        for kind, o in [x[:2] for x in zoo(rnd)]:
            d = norm(strip_guids(obj_dict(kind, o)))
            if kind != "annotation":
                pass
            items.append({"kind": kind, "dict": d})
    # contents whose digests hold the scalars 0 / 1 next to contents whose digests hold False / True
    from inscripta.biocantor.gene.feature import FeatureInterval
    from inscripta.biocantor.gene.variants import VariantInterval
    from inscripta.biocantor.location.strand import Strand

    small = [("variant", VariantInterval(0, 1, "A", "SNV", phase_block=1)), ("variant", VariantInterval(1, 2, "T", "SNV", phase_block=0)),
             ("feature", FeatureInterval([0], [1], Strand.PLUS, is_primary_feature=True)),
             ("feature", FeatureInterval([1], [2], Strand.PLUS, is_primary_feature=False))]
    extra = [{"kind": k, "dict": norm(strip_guids(obj_dict(k, o)))} for k, o in small]
    items = extra[:2] + items + extra[2:]
    path = os.path.join(chk.dir, "sweep_items.json")
    json.dump(items, open(path, "w"))
    script = os.path.join(chk.dir, "sweep_child.py")
    open(script, "w").write(SWEEP_CHILD % {"harness": os.path.join(VERIF, "harness"), "repo": REPO})
    cols = []
    for s in seeds:
        env = dict(os.environ, PYTHONHASHSEED=str(s))
        p = subprocess.run([sys.executable, script, path, str(s)], env=env, stdout=subprocess.PIPE,
                           stderr=subprocess.PIPE, text=True, timeout=600)
        if p.returncode != 0:
            raise MachineryError("hash-seed child failed: " + p.stderr[-800:])
        cols.append(json.loads(p.stdout.strip().splitlines()[-1]))
    ev = []
    for i, it in enumerate(items):
        ev.append(["rebuild", "%s#%d" % (it["kind"], i), [c[i] for c in cols]])
        # perturbation neighbours, in-process
        cls = K[it["kind"]][0]
        try:
            base = cls.from_dict(copy.deepcopy(it["dict"])) if it["kind"] == "annotation" else \
                cls.from_dict(copy.deepcopy(it["dict"]), None)
            nb = []
            for _ in range(3):
                pd = perturb(it["kind"], it["dict"], rnd)
                try:
                    q = cls.from_dict(pd) if it["kind"] == "annotation" else cls.from_dict(pd, None)
                    nb.append(str(q.guid))
                except Exception:
                    pass
            ev.append(["neighbours", "%s#%d" % (it["kind"], i), str(base.guid), nb])
        except Exception as ex:
            ev.append(["rebuild", "%s#%d" % (it["kind"], i), ["!" + type(ex).__name__, "?"]])
    return ev


def _key(ev, clause):
    if clause == "Pickle:fails" and ev[0] == "path" and ev[1] != "annotation":
        return "serial:pickle-non-collection"
    if clause == "Rebuild:aggregate-identifier-inherited-from-other-chunk":
        return "serial:agg-guid-inherited-across-chunks"
    return None


def run(chk):
    quick = chk.quick
    r = chk.mc("SerialMC", "SerialMC.cfg", workers=1, note="conversion graph: all routes of length 5 (emitted for replay); "
               "identifier = function of content; round trips keep content; Perturb changes the identifier")
    paths = []
    for line in r["out"].splitlines():
        if line.startswith('<<"PATH"'):
            paths.append(re.findall(r'"([A-Za-z]+)"', line)[1:])
    if len(paths) < 100:
        raise MachineryError("TLC emitted only %d routes" % len(paths))
    chk.mc("SerialMC", "SerialMC_neg.cfg", expect_violation=True, note="a model load that re-derives the identifier")
    parts = pmap(_replay_events, [(chk.seed * 811 + i, paths, 2 if quick else 25) for i in range(32)])
    evs = [e for p in parts for e in p]
    evs += sweep(chk, [0, 1, 2, 3] if quick else list(range(32)))
    chk.validate("C08Trace", evs, shard=3000, label="serial", keyfn=_key)
    chk.nontrivial = len({json.dumps(e[1:3])[:300] for e in evs})
    chk.extra["routes_from_tlc"] = len(paths)
    chk.extra["replays"] = sum(1 for e in evs if e[0] == "path")
    chk.extra["hash_seeds"] = 4 if quick else 32
    chk.trusted += ["TLC", "SerialMC.tla", "harness canonicalisation (norm / split_guids) of dictionary forms",
                    "MD5 assumed injective on the canonical strings (digest collisions out of scope)"]
    return chk.finish("every route of length 5 through the conversion graph (480 routes enumerated by TLC), a random 25 of "
                      "them replayed on each object of a zoo (annotation collection, gene, transcript, CDS, feature, "
                      "feature collection, variant, variant collection; with/without qualifiers, sequence, chunk parent) "
                      "with content / identifier / equality compared after every step; identifiers recomputed in fresh "
                      "interpreters under 4 (thorough 32) hash seeds and shuffled qualifier orders; perturbation "
                      "neighbours; distinct = distinct (kind, replay)")
