"""C05 — CDS codons, frame bookkeeping and translation follow one reading-frame model."""
import itertools
import random

from bcverif import encode as E
from bcverif.runner import pmap, setup_repo_import, suite_events


def layouts(G, K, overlapping=False):
    """Non-empty, pairwise non-overlapping blocks (0-bp gaps allowed) over 0..G, ascending."""
    out = []
    for k in range(1, K + 1):
        for cuts in itertools.combinations_with_replacement(range(G + 1), 2 * k):
            bl = [[cuts[2 * i], cuts[2 * i + 1]] for i in range(k)]
            if all(b[0] < b[1] for b in bl):
                out.append(bl)
    return out


def frameshift_layouts(G):
    """two or three blocks where consecutive blocks overlap by 1 or 2 bases (programmed -1 / -2 frameshift)"""
    out = []
    for a in range(0, G):
        for b in range(a + 2, G + 1):
            for ov in (1, 2):
                s2 = b - ov
                for e2 in range(max(b, s2 + 1) + 1, G + 1):
                    out.append([[a, b], [s2, e2]])
    return out


def _consistent_frames(blocks, st, f0):
    """frames of one uninterrupted reading frame starting at offset f0 (the model's ConstructFrames)"""
    ex = blocks if st == "+" else blocks[::-1]
    fr, consumed = [], 0
    for j, b in enumerate(ex):
        fr.append(f0 if j == 0 else (consumed - f0) % 3)
        consumed += b[1] - b[0]
    return tuple(fr if st == "+" else fr[::-1])


def mk_cds(blocks, st, frames, root, alphabet="NT_EXTENDED"):
    from inscripta.biocantor.gene.cds import CDSInterval
    from inscripta.biocantor.gene.cds_frame import CDSFrame
    from inscripta.biocantor.location.strand import Strand
    from inscripta.biocantor.parent import Parent, SequenceType
    from inscripta.biocantor.sequence import Sequence
    from inscripta.biocantor.sequence.alphabet import Alphabet

    par = Parent(id="chr", sequence=Sequence(root, Alphabet[alphabet], id="chr", type=SequenceType.CHROMOSOME))
    return CDSInterval([b[0] for b in blocks], [b[1] for b in blocks], Strand.from_symbol(st),
                       [CDSFrame(f) for f in frames], parent_or_seq_chunk_parent=par)


def _root(rnd, n, mode):
    if mode == 0:
        return "".join(rnd.choice("ACGT") for _ in range(n))
    if mode == 1:  # rich in starts / stops
        s = ""
        while len(s) < n:
            s += rnd.choice(["ATG", "TAA", "TAG", "TGA", "CAT", "TTA", "CTA", "TCA", "GTG", "CAC", "A", "C", "TG"])
        return s[:n]
    return "".join(rnd.choice("ACGTNRYacgtn") for _ in range(n))


def _loclist(x):
    return [E.loc(l) for l in x]


def _cds_events(args):
    items, G, seed, nwin = args
    setup_repo_import()
    from inscripta.biocantor.gene.cds import CDSInterval
    from inscripta.biocantor.gene.cds_frame import CDSFrame
    from inscripta.biocantor.gene.codon import TranslationTable

    rnd = random.Random(seed)
    tables = {0: TranslationTable.DEFAULT, 1: TranslationTable.STANDARD, 11: TranslationTable.PROKARYOTE}
    ev = []
    for (blocks, st, frames) in items:
        root = _root(rnd, G, rnd.choice([0, 0, 1, 1, 2]))
        try:
            cds = mk_cds(blocks, st, frames, root)
        except Exception as ex:  # construction of a valid layout must not fail
            ev.append(["cds", [blocks, st], list(frames), list(root), ["x", E.exc_name(ex)]] + [["x", "ctor"]] * 4
                      + [[], []])
            continue
        # the fast sequence path first (fresh object), then the codon lists, then the sequence again
        seq0 = E.outcome(lambda: list(str(cds.extract_sequence())))
        cod = E.outcome(lambda: _loclist(cds.chromosome_codon_locations))
        ccod = E.outcome(lambda: _loclist(cds.chunk_relative_codon_locations))
        ncod = E.outcome(lambda: cds.num_codons)
        # extract_sequence is memoised: "the sequence after the codons were listed" needs an object whose codons were
        # listed BEFORE its sequence was ever asked for
        try:
            cdsB = mk_cds(blocks, st, frames, root)
            E.outcome(lambda: (cdsB.num_chunk_relative_codons if rnd.random() < 0.5 else cdsB.chunk_relative_codon_locations))
        except Exception:
            cdsB = cds
        seq1 = E.outcome(lambda: list(str(cdsB.extract_sequence())))
        overl = any(blocks[i][1] > blocks[j][0] for i in range(len(blocks)) for j in range(i + 1, len(blocks)))
        if rnd.random() < 0.5 and not overl:
            cds = cdsB  # translations and flags asked of either object (overlapping layouts: the keyed order finding)
        trs = []
        for (tr, tb, strict) in [(False, 0, True), (True, 11, False), (rnd.random() < 0.5, rnd.choice([0, 1, 11]),
                                                                        rnd.random() < 0.5)]:
            # (the table is an IntEnum: named by its NCBI number half the time, which is the same table)
            tsel = tables[tb] if rnd.random() < 0.5 else int(tables[tb])
            # (documented defaults -- no truncation, the default table, strict -- are left out half of the time)
            tkw = dict(truncate_at_in_frame_stop=tr, translation_table=tsel, strict=strict)
            if rnd.random() < 0.5:
                if not tr:
                    tkw.pop("truncate_at_in_frame_stop")
                if tb == 0:
                    tkw.pop("translation_table")
                if strict:
                    tkw.pop("strict")
            trs.append([tr, tb, strict, E.outcome(lambda tkw=tkw: list(str(cds.translate(**tkw))))])
        # the same translations asked of a TRANSCRIPT whose exons are the CDS blocks (get_protein_sequence hands its
        # arguments on to the coding sequence)
        if not overl:
            try:
                from bcverif.props.c06 import mk_tx

                txp = mk_tx([list(b) for b in blocks], st, [list(b) for b in blocks], root, frames=list(frames))
            except Exception:
                txp = None
            if txp is not None:
                for (tr, tb) in [(False, 11), (True, 1), (rnd.random() < 0.5, rnd.choice([0, 1, 11]))]:
                    tsel = tables[tb] if rnd.random() < 0.5 else int(tables[tb])
                    trs.append([tr, tb, True, E.outcome(lambda tr=tr, tsel=tsel: list(str(txp.get_protein_sequence(
                        truncate_at_in_frame_stop=tr, translation_table=tsel))))])
        flags = [E.outcome(lambda: cds.has_valid_stop), E.outcome(lambda: cds.has_in_frame_stop),
                 E.outcome(lambda: cds.has_canonical_start_codon)] + [
            E.outcome(lambda t=t: cds.has_start_codon_in_specific_translation_table(tables[t])) for t in (0, 1, 11)]
        ev.append(["cds", [blocks, st], list(frames), list(root), cod, ccod, ncod, seq0, seq1, trs, flags])
        # windows (a fresh object per CDS: window preparation is memoised per object)
        wins = []
        allw = [(a, b) for a in range(0, G + 1) for b in range(a + 1, G + 1)]  # inside the chromosome
        chosen = allw if nwin is None else rnd.sample(allw, min(nwin, len(allw)))
        cds2 = mk_cds(blocks, st, frames, root)
        for (ws, we) in chosen:
            for expand in (False, True):
                wins.append([ws, we, expand, E.outcome(
                    lambda ws=ws, we=we, expand=expand: _loclist(cds2.scan_chromosome_codon_locations(ws, we, expand)))])
        ev.append(["win", [blocks, st], list(frames), wins])
        if frames == tuple([0] * len(frames)):
            l = E.make_loc(blocks, st)
            for f0 in (0, 1, 2):
                ev.append(["cf", [blocks, st], f0, E.outcome(
                    lambda f0=f0: [f.value for f in CDSInterval.construct_frames_from_location(l, CDSFrame(f0))])])
    return ev


def _key(ev, clause):
    if clause == "codons:selfoverlap-order":
        return "loc:selfoverlap-order"
    return None


def _shift_events(_):
    """the frame bookkeeping itself: CDSFrame.shift in BOTH directions (walking a frame list 3'->5' undoes the 5'->3' walk)"""
    setup_repo_import()
    from inscripta.biocantor.gene.cds_frame import CDSFrame

    ev = []
    for f in CDSFrame:
        if f.name == "NONE":
            continue
        for n in range(-12, 13):
            ev.append(["fsh", f.value, n, E.outcome(lambda f=f, n=n: f.shift(n).value),
                       E.outcome(lambda f=f, n=n: f.shift(n).shift(-n).value)])
    return ev


def run(chk):
    quick = chk.quick
    rnd = random.Random(chk.seed * 32452843 + 5)
    chk.mc("CDSMC", "CDSMC.cfg", note="the library's frame-cleaning loop, one action per exon, vs the declarative "
           "walk: all layouts K<=3 over 0..6, both strands, all 3^K frame vectors; ConstructFrames uninterrupted")
    chk.mc("CDSMC", "CDSMC_neg_phase.cfg", expect_violation=True, note="skip = phase instead of frame value")
    chk.mc("CDSMC", "CDSMC_neg_trim.cfg", expect_violation=True, note="trailing partial codon not dropped on resync")
    G = 8 if quick else 10
    items = []
    for bl in layouts(G, 3):
        for st in "+-":
            for fr in itertools.product(range(3), repeat=len(bl)):
                items.append((bl, st, fr))
    for bl in frameshift_layouts(G):
        for st in "+-":
            items.append((bl, st, tuple(rnd.randrange(3) for _ in bl)))
            for f0 in (0, 1, 2):
                items.append((bl, st, _consistent_frames(bl, st, f0)))
    if quick:
        items = rnd.sample(items, 6000)
    nsh = 64
    parts = pmap(_cds_events, [(items[i::nsh], G + 1, chk.seed * 331 + i, 4 if quick else 12) for i in range(nsh)])
    evs = [e for p in parts for e in p]
    # all windows on a smaller space
    small = []
    for bl in layouts(6, 3):
        for st in "+-":
            for fr in itertools.product(range(3), repeat=len(bl)):
                small.append((bl, st, fr))
    if quick:
        small = rnd.sample(small, 500)
    parts = pmap(_cds_events, [(small[i::nsh], 7, chk.seed * 337 + i, None) for i in range(nsh)])
    evs += [e for p in parts for e in p]
    evs += pmap(_shift_events, [0])[0]
    evs += suite_events(chk, "C05Trace")  # leg S: the repository's own tests, traced passively
    chk.validate("C05Trace", evs, shard=800, label="cds", keyfn=_key)
    chk.exhaustive = not quick
    chk.nontrivial = len({(str(e[1]), str(e[2])) for e in evs if e[0] == "cds"})
    chk.extra["constants"] = {"G": G, "K": 3, "cds_objects": sum(1 for e in evs if e[0] == "cds"),
                              "window_calls": sum(len(e[3]) for e in evs if e[0] == "win")}
    chk.trusted += ["TLC", "CDS.tla reading-frame walk (KeptRec)", "Tables.tla genetic code", "encode.py"]
    return chk.finish("every exon layout (1..3 non-empty blocks incl. 0-bp gaps over 0..G, both strands) x every "
                      "annotated frame vector 3^K, plus programmed -1/-2 frameshift (overlapping) layouts, on random "
                      "sequences (plain, start/stop-rich, IUPAC/lower case): codon locations, coding sequence before and "
                      "after listing codons, translation variants, start/stop predicates, windowed scans (all windows "
                      "on the G=6 space), generated frames; distinct = distinct (layout, frames)")
