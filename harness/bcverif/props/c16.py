"""C16 — UCSC bins: Apalache full-range no-hiding proof of the transcribed algorithm, TLC exhaustive scaled model,
and TLC-judged events from the real `bins()` and from real range queries at every bin boundary."""
import os
import random
import subprocess
import time

from bcverif import encode as E
from bcverif.runner import MachineryError, SPEC, pmap, setup_repo_import, suite_events

LEVEL_SHIFTS = [17, 20, 23, 26, 29]
MAXC = 2 ** 29


def _boundary_points(rnd, quick):
    pts = set()
    for sh in LEVEL_SHIFTS:
        size = 1 << sh
        nmult = MAXC // size
        mults = {0, 1, 2, 3, 7, 8, 9, nmult - 1, nmult}
        for _ in range(3 if quick else 12):
            mults.add(rnd.randrange(0, nmult + 1))
        for m in mults:
            for d in (-2, -1, 0, 1, 2):
                p = m * size + d
                if -2 <= p <= MAXC + 2:
                    pts.add(p)
    return sorted(pts)


def _intervals(rnd, quick):
    pts = _boundary_points(rnd, quick)
    lens = {0, 1, 2, 3}
    for sh in LEVEL_SHIFTS:
        lens.update({(1 << sh) - 1, 1 << sh, (1 << sh) + 1})
    out = set()
    for p in pts:
        for ln in lens:
            out.add((p, p + ln))
            out.add((p - ln, p))
    n = 20000 if quick else 400000
    for _ in range(n):
        a = rnd.randrange(0, 2 ** 30)
        b = a + int(2 ** rnd.uniform(0, 29))
        out.add((a, b))
    for _ in range(2000):
        a = rnd.randrange(0, MAXC)
        out.add((a, rnd.randrange(a, MAXC)))
    return sorted(out)


def _bin_events(chunk):
    setup_repo_import()
    from inscripta.biocantor.util.bins import bins

    ev = []
    for (s, e) in chunk:
        for fmt, off in (("bed", 0), ("gff", 1)):
            if off and s == 0:
                continue  # 0 is not a coordinate of the 1-based closed convention
            b = bins(s, e, fmt=fmt)
            ev.append(["bin", s, e, off, b if isinstance(b, int) else -1])
            if (s + e) % 5 == 0:
                # the same coordinates as the integer scalars they arrive in from arrays and tables
                ty = _np_types()[(s + e) // 5 % len(_np_types())] if _np_types() else None
                if ty is not None and 0 <= s <= e < 2 ** 31 - 2:
                    b = bins(ty(s), ty(e), fmt=fmt)
                    ev.append(["bin", s, e, off, int(b) if isinstance(b, (int, _np_integer())) and not isinstance(b, bool) else -1])
    return ev


def _np_types():
    try:
        import numpy as np
    except Exception:
        return []
    return [np.int64, np.int32, np.uint32]


def _np_integer():
    import numpy as np

    return np.integer


def _set_events(chunk):
    setup_repo_import()
    from inscripta.biocantor.util.bins import bins

    ev = []
    for (s, e, off) in chunk:
        first = bins(s, e, fmt="gff" if off else "bed", one=False)
        if (s + e) % 3 == 0:
            # the set handed out belongs to the caller: emptying it must not reach the answer to the next question
            try:
                first.clear()
            except Exception:
                pass
            first = bins(s, e, fmt="gff" if off else "bed", one=False)
        ev.append(["set", s, e, off, sorted(first)])
        if (s + e) % 7 == 0 and _np_types() and 0 <= s <= e < 2 ** 31 - 2:
            ty = _np_types()[(s + e) // 7 % 3]
            ev.append(["set", s, e, off, sorted(int(x) for x in bins(ty(s), ty(e), fmt="gff" if off else "bed", one=False))])
    return ev


def _hide_events(args):
    seed, n = args
    setup_repo_import()
    from inscripta.biocantor.util.bins import bins

    rnd = random.Random(seed)
    ev = []
    for _ in range(n):
        sh = rnd.choice(LEVEL_SHIFTS[:4])
        size = 1 << sh
        m = rnd.randrange(1, max(2, MAXC // size - 1))
        base = m * size
        qs = max(0, base + rnd.choice([-size, -3, -2, -1, 0, 1, 2]))
        qe = min(MAXC - 1, base + rnd.choice([0, 1, 2, 3, size - 1, size, size + 1, 2 * size]))
        if qs > qe:
            qs, qe = qe, qs
        items = []
        for _ in range(30):
            s = max(0, rnd.choice([qs, qe, base, base + size]) + rnd.randrange(-4, 5) + rnd.choice([0, 0, -size, size]))
            e = min(MAXC - 1, s + rnd.choice([1, 2, 3, 5, size - 1, size, size + 1]))
            if s < e:
                items.append([s, e, bins(s, e, fmt="bed")])
        ev.append(["hide", qs, qe, sorted(bins(qs, qe, fmt="bed", one=False)), items])
    return ev


def _rq_events(args):
    """Range queries on real AnnotationCollections whose gene spans straddle bin boundaries."""
    seed, n = args
    setup_repo_import()
    from inscripta.biocantor.gene.collections import AnnotationCollection
    from inscripta.biocantor.gene.gene import GeneInterval
    from inscripta.biocantor.gene.transcript import TranscriptInterval
    from inscripta.biocantor.location.strand import Strand

    rnd = random.Random(seed)
    ev = []
    # collections built on a SEQUENCE CHUNK that straddles a bin boundary: bins are a matter of chromosome coordinates
    from inscripta.biocantor.io.parser import seq_chunk_to_parent

    for _ in range(max(1, n // 3)):
        size = 1 << 17
        base = rnd.randrange(1, 6) * size
        cs = base - rnd.randrange(100, 400)
        ce = base + rnd.randrange(200, 900)
        chunk = seq_chunk_to_parent("ACGT" * ((ce - cs) // 4) + "A" * ((ce - cs) % 4), "chr", cs, ce)
        spans, genes = [], []
        for k in range(rnd.randrange(1, 6)):
            s = rnd.randrange(cs, ce - 3)
            e = min(ce, s + rnd.choice([1, 2, 5, 60, 200]))
            tx = TranscriptInterval([s], [e], Strand.PLUS if k % 2 else Strand.MINUS, parent_or_seq_chunk_parent=chunk)
            genes.append(GeneInterval([tx], parent_or_seq_chunk_parent=chunk))
            spans.append([s, e])
        coll = AnnotationCollection(genes=genes, start=cs, end=ce, sequence_name="chr", parent_or_seq_chunk_parent=chunk)
        for _q in range(8):
            qs = rnd.randrange(cs, ce - 1)
            qe = min(ce, qs + rnd.choice([1, 3, 50, 200, 600]))
            for cw in (True, False):
                try:
                    res = coll.query_by_position(qs, qe, completely_within=cw)
                    got = sorted(i + 1 for i, sp in enumerate(spans)
                                 if any(g.start == sp[0] and g.end == sp[1] and g.guid == genes[i].guid for g in res.genes))
                    if len(res.genes) != len(got):
                        got = got + [0]
                except Exception as ex:  # judged as a wrong answer
                    got = [0, E.exc_name(ex)]
                ev.append(["rq", qs, qe, cw, spans, got])
    for _ in range(n):
        sh = rnd.choice([17, 17, 20])
        size = 1 << sh
        base = rnd.randrange(1, 6) * size
        spans = []
        genes = []
        gaps = []
        len_k = rnd.randrange(1, 7)
        shared_guid = len_k >= 2 and rnd.random() < 0.2
        for k in range(len_k):
            s = max(0, base + rnd.randrange(-6, 7) + rnd.choice([0, 0, -size, size, -3000, 2000]))
            e = s + rnd.choice([1, 2, 5, 1000, size - 1, size, size + 1])
            cut = rnd.randrange(s, e + 1)
            if rnd.random() < 0.5 and s < cut < e - 1:
                tx = TranscriptInterval([s, cut + 1], [cut, e], Strand.PLUS if k % 2 else Strand.MINUS)
            else:
                tx = TranscriptInterval([s], [e], Strand.PLUS if k % 2 else Strand.MINUS)
            txs = [tx]
            if rnd.random() < 0.3 and e - s > 3:  # second, shorter isoform in another bin
                txs.append(TranscriptInterval([s + 1], [e - 1], tx.strand))
            elif rnd.random() < 0.35:
                # a second isoform several bins downstream: the gene's span has a gap no child (hence no child bin) covers
                s2 = e + rnd.choice([size, 2 * size, 3 * size]) + rnd.randrange(0, 3000)
                txs.append(TranscriptInterval([s2], [s2 + rnd.choice([5, 900])], tx.strand))
                gaps.append((e, s2))
                e = txs[-1].end
            # a fifth of the collections hold two genes that carry the SAME user-supplied identifier (accepted by the
            # constructor; position queries are about positions)
            import uuid as _uuid

            gid = _uuid.UUID(int=0xC16) if (shared_guid and k in (0, len_k - 1)) else None
            genes.append(GeneInterval(txs, guid=gid))
            spans.append([s, e])
        coll = AnnotationCollection(genes=genes, start=0, end=max([base + 4 * size] + [sp[1] for sp in spans]))
        for _q in range(6 + 3 * len(gaps)):
            qs = max(0, base + rnd.choice([-size, -7, -2, -1, 0, 1, 2, 5]) + rnd.choice([0, 0, size]))
            qe = qs + rnd.choice([1, 2, 3, 8, size - 1, size, size + 1, 2 * size])
            if _q >= 6:  # a query inside the uncovered middle of a gene
                ga, gb = gaps[(_q - 6) % len(gaps)]
                qs = rnd.randrange(ga + 1, gb - 1)
                qe = min(gb - 1, qs + rnd.choice([1, 50, 2000, size]))
            qe = min(qe, coll.end)
            if qs >= qe:
                continue
            for cw in (True, False):
                try:
                    res = coll.query_by_position(qs, qe, completely_within=cw)
                    got = sorted(i + 1 for i, sp in enumerate(spans)
                                 if any(g.start == sp[0] and g.end == sp[1] and g.guid == genes[i].guid
                                        for g in res.genes))
                    if len(res.genes) != len(got):
                        got = got + [0]
                except Exception as ex:  # judged as a wrong answer
                    got = [0, E.exc_name(ex)]
                ev.append(["rq", qs, qe, cw, spans, got])
    # the END of the binning scheme (2^29): ranges that reach it, end on it, or lie beyond it, over members on either side
    M = 1 << 29
    for _ in range(max(2, n // 4)):
        spans, genes = [], []
        for k in range(rnd.randrange(2, 6)):
            s = M + rnd.choice([-200000, -9000, -5000, -700, -3, 0, 40, 900])
            e = s + rnd.choice([1, 5, 600, 1000])
            genes.append(GeneInterval([TranscriptInterval([s], [e], Strand.PLUS if k % 2 else Strand.MINUS)]))
            spans.append([s, e])
        coll = AnnotationCollection(genes=genes, start=0, end=M + 3000)
        for _q in range(8):
            qs = M + rnd.choice([-300000, -10000, -6000, -1000, -1, 0, 30])
            qe = M + rnd.choice([-4000, -1, 0, 1, 50, 1500, 3000])
            if qs >= qe:
                continue
            for cw in (True, False):
                try:
                    res = coll.query_by_position(qs, qe, completely_within=cw)
                    got = sorted(i + 1 for i, sp in enumerate(spans)
                                 if any(g.start == sp[0] and g.end == sp[1] and g.guid == genes[i].guid for g in res.genes))
                    if len(res.genes) != len(got):
                        got = got + [0]
                except Exception as ex:  # judged as a wrong answer
                    got = [0, E.exc_name(ex)]
                ev.append(["rq", qs, qe, cw, spans, got])
    return ev


def _apalache(chk, module, inv, expect_error):
    out = os.path.join(chk.dir, "apa_" + module + "_" + inv)
    t0 = time.time()
    p = subprocess.run(["timeout", "600", "apalache-mc", "check", "--inv=" + inv, "--length=0", "--out-dir=" + out,
                        module + ".tla"], cwd=os.path.join(SPEC, "apa"), stdout=subprocess.PIPE,
                       stderr=subprocess.STDOUT, text=True)
    ok = "The outcome is: NoError" in p.stdout
    err = "The outcome is: Error" in p.stdout
    rec = {"tool": "apalache-mc 0.58", "module": module, "inv": inv, "outcome": "NoError" if ok else (
        "Error" if err else "failed"), "wall_s": round(time.time() - t0, 1)}
    import shutil

    shutil.rmtree(out, ignore_errors=True)
    if expect_error:
        rec["control"] = True
        chk.controls.append(rec)
        if not err:
            raise MachineryError("Apalache negative control %s/%s not refuted:\n%s" % (module, inv, p.stdout[-1500:]))
    else:
        chk.extra.setdefault("apalache", []).append(rec)
        if not ok:
            raise MachineryError("Apalache failed on %s/%s:\n%s" % (module, inv, p.stdout[-1500:]))



def _object_bin_events(args):
    """the .bin attribute every interval object carries (genes, transcripts, features, feature collections, variants,
    variant collections) is the bin of ITS OWN span -- judged by the same clauses as bins(start, end)"""
    seed, n = args
    setup_repo_import()
    from inscripta.biocantor.gene.feature import FeatureInterval, FeatureIntervalCollection
    from inscripta.biocantor.gene.gene import GeneInterval
    from inscripta.biocantor.gene.variants import VariantInterval, VariantIntervalCollection
    from inscripta.biocantor.location.strand import Strand
    from bcverif.props.c06 import mk_tx

    rnd = random.Random(seed)
    ev = []

    def span_near_boundary():
        sh = rnd.choice(LEVEL_SHIFTS[:4])
        size = 1 << sh
        base = rnd.randrange(1, max(2, min(200, MAXC // size - 2))) * size
        if rnd.random() < 0.15:
            base, size = MAXC, 1 << 17  # the end of the binning scheme itself (2^29): beyond it everything is bin 1
        a = max(0, base + rnd.choice([-1500, -900, -3, -1, 0, 1, 5]))
        return a, size

    for _ in range(n):
        a, size = span_near_boundary()
        # two pieces with a gap between them that may contain the boundary: [a, a+l1) ... [b, b+l2)
        l1, l2 = rnd.choice([1, 3, 500]), rnd.choice([1, 3, 500])
        b = a + l1 + rnd.choice([1, 10, 1400, size - l1, size])
        st = rnd.choice("+-")
        try:
            t1 = mk_tx([[a, a + l1]], st, None, None, transcript_id="t1")
            t2 = mk_tx([[b, b + l2]], st, None, None, transcript_id="t2")
            t3 = mk_tx([[a, a + l1], [b, b + l2]], st, None, None, transcript_id="t3")
            objs = [("transcript", t1), ("transcript", t2), ("transcript", t3),
                    ("gene", GeneInterval([t1, t2], gene_id="g")),
                    ("gene", GeneInterval([t2, t1], gene_id="g")), ("gene", GeneInterval([t3], gene_id="g"))]
            f1 = FeatureInterval([a], [a + l1], Strand.from_symbol(st), feature_name="f1")
            f2 = FeatureInterval([b], [b + l2], Strand.from_symbol(st), feature_name="f2")
            f3 = FeatureInterval([a, b], [a + l1, b + l2], Strand.from_symbol(st), feature_name="f3")
            objs += [("feature", f1), ("feature", f2), ("feature", f3),
                     ("feature_collection", FeatureIntervalCollection([f1, f2], feature_collection_name="fc")),
                     ("feature_collection", FeatureIntervalCollection([f2, f1], feature_collection_name="fc"))]
            v1 = VariantInterval(a, a + l1, "A" * l1, "SNV")
            v2 = VariantInterval(b, b + l2, "A" * l2, "SNV")
            objs += [("variant", v1), ("variant", v2),
                     ("variant_collection", VariantIntervalCollection([v1, v2], variant_collection_name="vc")),
                     ("variant_collection", VariantIntervalCollection([v2, v1], variant_collection_name="vc"))]
            # annotation collections: bounds inferred from the members, given explicitly, and starting at 0 (explicit, and
            # inferred from a member that starts at 0) -- position 0 is a coordinate, not "no bound"
            from inscripta.biocantor.gene.collections import AnnotationCollection

            g12 = GeneInterval([mk_tx([[a, a + l1]], st, None, None, transcript_id="c1")], gene_id="gc")
            objs += [("collection", AnnotationCollection(genes=[g12])),
                     ("collection", AnnotationCollection(genes=[g12], start=max(0, a - 3), end=b + l2)),
                     ("collection", AnnotationCollection(genes=[g12], start=0, end=b + l2))]
            z = rnd.choice([1, 400, 5000, 200000])
            g0 = GeneInterval([mk_tx([[0, z]], st, None, None, transcript_id="c0")], gene_id="g0")
            objs += [("collection", AnnotationCollection(genes=[g0])),
                     ("collection", AnnotationCollection(genes=[g0], start=0, end=z + rnd.choice([0, 1, 7])))]
        except Exception:
            continue
        for kind, o in objs:
            if not hasattr(o, "bin"):
                continue  # variant collections carry no bin
            bn = getattr(o, "bin", None)
            ev.append(["bin", o.start, o.end, 0, bn if isinstance(bn, int) else -1, kind])
    return ev


def _key(ev, clause):
    # known finding: assigned bin not the smallest when the exclusive end sits on a finest-bin boundary
    if ev[0] == "bin" and clause == "bin-smallest":
        s, e = ev[1] - ev[3], ev[2]
        if e % (1 << 17) == 0 and s >= e - (1 << 29):
            return "bins:end-on-bin-boundary"
    return None


def run(chk):
    quick = chk.quick
    rnd = random.Random(chk.seed * 7919 + 16)
    _apalache(chk, "BinsApaOK", "NoHide", False)
    _apalache(chk, "BinsApaOK", "BinContains", False)
    _apalache(chk, "BinsApaNeg", "NoHide", True)
    chk.mc("BinsMC", "BinsMC.cfg", note="scaled scheme (F,N,L)=(1,2,3): all (s,e) x (qs,qe) < 32; NoHide, "
           "BinContains, SmallestOrBoundary")
    chk.mc("BinsMC", "BinsMC_known.cfg", expect_violation=True,
           note="strict minimality fails at spec level on the boundary family = the C16 known finding")
    chk.mc("BinsMC", "BinsMC_neg.cfg", expect_violation=True, note="query range excludes its upper end")
    ivs = _intervals(rnd, quick)
    chunks = [ivs[i::64] for i in range(64)]
    evs = [e for part in pmap(_bin_events, chunks) for e in part]
    sets = []
    for (s, e) in rnd.sample(ivs, min(len(ivs), 6000 if quick else 60000)):
        if e - s <= (1 << 24):  # keep the recorded sets small enough to log
            off = rnd.choice([0, 1])
            sets.append((s, e, off if s > 0 else 0))
    for (s, e) in ivs:
        if e - s in (0, 1, 2, 3) and rnd.random() < 0.3:
            sets.append((s, e, 0))
    evs += [e for part in pmap(_set_events, [sets[i::32] for i in range(32)]) for e in part]
    nh = 40 if quick else 600
    evs += [e for part in pmap(_hide_events, [(chk.seed * 1000 + i, nh) for i in range(32)]) for e in part]
    nq = 12 if quick else 150
    evs += [e for part in pmap(_rq_events, [(chk.seed * 1000 + i, nq) for i in range(32)]) for e in part]
    evs += [e for part in pmap(_object_bin_events, [(chk.seed * 1000 + i, 25 if quick else 400) for i in range(32)]) for e in part]
    evs += suite_events(chk, "C16Trace")  # leg S: the repository's own tests, traced passively
    chk.validate("C16Trace", evs, shard=6000, label="bins", keyfn=_key)
    chk.nontrivial = len({(e[0], e[1], e[2], e[3] if e[0] != "hide" else 0) for e in evs})
    chk.extra["event_kinds"] = {k: sum(1 for e in evs if e[0] == k) for k in ("bin", "set", "hide", "rq")}
    chk.extra["object_bin_attributes_judged"] = sum(1 for e in evs if e[0] == "bin" and len(e) > 5)
    chk.trusted += ["TLC", "Apalache/Z3 (full-range theorem is about the transcription Bins!AlgoBin, bound to the "
                    "code by the Sem-judged events)", "Bins.tla"]
    chk.assumptions += ["cgranges is absent in this sandbox, so the bin pre-filter path of _query_by_position is "
                        "the live one"]
    return chk.finish("every (start,end) with an end in a +-2 band around multiples of 2^17..2^29 x lengths "
                      "{0,1,2,3,size-1,size,size+1 per level}, both conventions, random pairs < 2^30, bin sets, "
                      "query/item no-hiding groups, real range queries at boundaries; distinct = distinct inputs")
