"""C12 — GenBank export is faithful to an independent reader (Bio.SeqIO) and to BioCantor's parsers."""
import io
import random

from bcverif.props.c05 import _consistent_frames
from bcverif.props.c06 import cds_blocks, mk_tx
from bcverif.runner import pmap, setup_repo_import

KINDS = {"protein_coding": "mRNA", "ncRNA": "ncRNA", "tRNA": "tRNA", "rRNA": "rRNA", "misc_RNA": "misc_RNA"}


def _gen(rnd):
    from inscripta.biocantor.gene.biotype import Biotype
    from inscripta.biocantor.gene.collections import AnnotationCollection
    from inscripta.biocantor.gene.feature import FeatureInterval, FeatureIntervalCollection
    from inscripta.biocantor.gene.gene import GeneInterval
    from inscripta.biocantor.location.strand import Strand
    from inscripta.biocantor.parent import Parent, SequenceType
    from inscripta.biocantor.sequence import Sequence
    from inscripta.biocantor.sequence.alphabet import Alphabet

    L = 240
    # a sequence rich in start and stop codons so that translations are interesting
    R = ""
    while len(R) < L:
        R += rnd.choice(["ATG", "GTG", "TTG", "TAA", "TGA", "CAT", "TTA", "GCC", "AAA", "CTG", "ATT", "C", "AG"])
    R = R[:L]
    par = Parent(id="chrG", sequence=Sequence(R, Alphabet.NT_EXTENDED_GAPPED, id="chrG", type=SequenceType.CHROMOSOME))
    model, genes, fcs, twins, anti = [], [], [], [], []
    pos = 5
    tagnums = rnd.sample([2, 9, 10, 11, 19, 100, 101, 20], 5)
    for gi in range(rnd.randrange(1, 5)):
        st = rnd.choice("+-")
        k = rnd.randrange(1, 4)
        blocks, p = [], pos
        for _ in range(k):
            s = p + rnd.randrange(0, 5)
            e = s + rnd.randrange(4, 20)
            blocks.append([s, e])
            p = e + rnd.choice([0, 2, 3, 4, 5, 6, 7, 8, 0, 1])  # 0-bp gaps (touching exons) included
        if blocks[-1][1] > L - 5:
            break
        tag = "LT_%d" % tagnums[gi]  # unique, but not in lexicographic order along the sequence (LT_9 before LT_10)
        if rnd.random() < 0.2:
            # a feature interval may have a name, an identifier, both or neither
            fname = "feat%d" % gi if rnd.random() < 0.6 else None
            fid = "fid%d" % gi if rnd.random() < 0.7 else None
            fs = [FeatureInterval([b[0] for b in blocks], [b[1] for b in blocks], Strand.from_symbol(st),
                                  feature_name=fname, feature_id=fid, sequence_name="chrG", parent_or_seq_chunk_parent=par)]
            fcs.append(FeatureIntervalCollection(fs, feature_collection_name="fcn%d" % gi, locus_tag=tag,
                                                 sequence_name="chrG", parent_or_seq_chunk_parent=par))
            model.append(["fc", blocks[0][0], blocks[-1][1], st, "fcn%d" % gi, tag, [[blocks, fid or ""]]])
        else:
            btype = rnd.choice(["protein_coding", "protein_coding", "protein_coding", "ncRNA", "tRNA", "rRNA", "misc_RNA"])
            txs, tm = [], []
            nt = 1  # GenBank has no identifiers linking an mRNA to its CDS: one isoform per gene (as the quantifier says)
            # ... except isoforms that are written as the SAME records up to their identifiers (two proteins annotated on
            # one CDS): judged in the prokaryotic flavour, where a coding gene is its CDS records
            if btype == "protein_coding" and rnd.random() < 0.15:
                nt = 2
                twins.append(gi)
            keep = None
            for ti in range(nt):
                tb = blocks
                n = sum(b[1] - b[0] for b in tb)
                cds = frames = None
                pid = ""
                if btype == "protein_coding":
                    if keep is None:
                        ca = rnd.randrange(0, max(1, n - 6))
                        cb = rnd.randrange(ca + 3, n + 1)
                        cds = cds_blocks(tb, st, ca, cb)
                        f0 = rnd.choice([0, 0, 0, 1, 2])
                        if cds[0][1] - cds[0][0] <= f0 or cds[-1][1] - cds[-1][0] <= f0:
                            f0 = 0
                        frames = list(_consistent_frames(cds, st, f0))
                        keep = (cds, frames)
                    else:
                        cds, frames = keep
                    pid = "prot_%d_%d" % (gi, ti)
                # free-form qualifiers, as a model read from a file carries them: a note, and (a gene that was renamed or
                # re-tagged after reading) the /gene and /locus_tag the records had in the file they came from
                quals = {}
                if rnd.random() < 0.5:
                    quals["note"] = ["note %d" % gi]
                if rnd.random() < 0.3:
                    quals[rnd.choice(["locus_tag", "gene"])] = ["OLD_%d" % gi]
                    if rnd.random() < 0.4:
                        quals.update(locus_tag=["OLD_%d" % gi], gene=["oldsym%d" % gi])
                txs.append(mk_tx(tb, st, cds, None, frames=frames, parent=par, transcript_id="tx_%d_%d" % (gi, ti),
                                 transcript_type=Biotype[btype], protein_id=pid or None,
                                 product="product %d" % gi if cds else None, sequence_name="chrG",
                                 qualifiers=quals or None))
                tm.append([tb, cds or [], KINDS[btype], pid])
            genes.append(GeneInterval(txs, gene_id="gid%d" % gi, gene_symbol="sym%d" % gi, gene_type=Biotype[btype],
                                      locus_tag=tag, sequence_name="chrG", parent_or_seq_chunk_parent=par))
            model.append(["gene", min(t[0][0][0] for t in tm), max(t[0][-1][1] for t in tm), st, "sym%d" % gi, tag, tm])
        pos = blocks[-1][1] + rnd.randrange(3, 15)
        if model[-1][0] == "gene" and gi not in twins and len(tagnums) > 4 and rnd.random() < 0.2 and not anti:
            # an antisense gene annotated over the very same span (a non-coding RNA on the opposite strand)
            ast = {"+": "-", "-": "+"}[st]
            atag = "LT_%d" % tagnums[4]
            atx = mk_tx(blocks, ast, None, None, parent=par, transcript_id="tx_as", transcript_type=Biotype["ncRNA"],
                        sequence_name="chrG")
            genes.append(GeneInterval([atx], gene_id="gid_as", gene_symbol="sym_as", gene_type=Biotype["ncRNA"],
                                      locus_tag=atag, sequence_name="chrG", parent_or_seq_chunk_parent=par))
            model.append(["gene", blocks[0][0], blocks[-1][1], ast, "sym_as", atag, [[blocks, [], "ncRNA", ""]]])
            anti.append(gi)
    if not genes and not fcs:
        return None
    coll = AnnotationCollection(feature_collections=fcs, genes=genes, sequence_name="chrG",
                                parent_or_seq_chunk_parent=par)
    model.sort(key=lambda m: m[1])
    return coll, model, R, bool(twins), bool(anti)


def _loc_blocks(loc):
    parts = loc.parts if hasattr(loc, "parts") else [loc]
    return sorted([[int(p.start), int(p.end)] for p in parts])


def _project(c, flavour):
    out = []
    for g in sorted(c.genes, key=lambda x: (str(x.locus_tag), x.start, x.end)):
        rows = []
        for t in g.transcripts:
            ex = list(map(list, zip(t._genomic_starts, t._genomic_ends)))
            cd = list(map(list, zip(t.cds._genomic_starts, t.cds._genomic_ends))) if t.is_coding else []
            # prokaryotic flavour has no transcript-level record for coding genes: the CDS structure is what survives
            st = [cd if (flavour == "PROKARYOTIC" and t.is_coding) else ex, cd]
            f5 = (t.cds.frames[0] if t.strand.to_symbol() == "+" else t.cds.frames[-1]).value if t.is_coding else -1
            rows.append((st, f5, str(t.protein_id) if t.is_coding else ""))
        rows.sort(key=lambda r: (r[0], r[2]))
        txs = list(g.transcripts)
        structure, frames, idents = [r[0] for r in rows], [r[1] for r in rows], [r[2] for r in rows]
        out.append([structure, sorted({t.strand.to_symbol() for t in txs}), frames,
                    [str(g.gene_symbol), str(g.locus_tag), idents]])
    return out


def _events(args):
    seed, n = args
    setup_repo_import()
    from Bio import SeqIO
    from Bio.Data import CodonTable
    from inscripta.biocantor.io.genbank.constants import GenBankParserType, GenbankFlavor
    from inscripta.biocantor.io.genbank.parser import parse_genbank
    from inscripta.biocantor.io.genbank.writer import collection_to_genbank

    rnd = random.Random(seed)
    ev = []
    for _ in range(n):
        b = _gen(rnd)
        if not b:
            continue
        coll, model, R, has_twins, lapped = b
        # what must come back is fixed before ANY export runs (an export must not be able to alter its source and the
        # expectation with it)
        src_by_flavour = {fl: _project(coll, fl) for fl in ("PROKARYOTIC", "EUKARYOTIC")}
        for flavour in (("PROKARYOTIC",) if has_twins else ("PROKARYOTIC", "EUKARYOTIC")):
            buf = io.StringIO()
            src = src_by_flavour[flavour]
            try:
                # (the prokaryotic flavour is the documented default: not named half of the time)
                if flavour == "PROKARYOTIC" and rnd.random() < 0.5:
                    collection_to_genbank([coll], buf, update_translations=True)
                else:
                    collection_to_genbank([coll], buf, genbank_type=GenbankFlavor[flavour], update_translations=True)
            except Exception as ex:
                ev.append(["gbk", flavour, model, [["!" + type(ex).__name__, [], "", "", "", ""]], False, [], []])
                continue
            text = buf.getvalue()
            rec = list(SeqIO.parse(io.StringIO(text), "genbank"))[0]
            records, translations, orders = [], [], []
            table = 11 if flavour == "PROKARYOTIC" else 1
            starts = set(CodonTable.unambiguous_dna_by_id[11].start_codons) if table == 11 else {"ATG"}
            for f in rec.features:
                if f.type == "source":
                    continue
                q = f.qualifiers
                strand = {1: "+", -1: "-"}.get(f.location.strand, ".")
                records.append([f.type, _loc_blocks(f.location), strand, q.get("gene", [""])[0], q.get("locus_tag", [""])[0],
                                q.get("protein_id", [""])[0] if f.type == "CDS" else
                                (q.get("feature_id", [""])[0] if f.type == "feat_interval" else "")])
                parts = f.location.parts if hasattr(f.location, "parts") else [f.location]
                if len(parts) > 1:
                    orders.append([strand, [int(p.start) for p in parts]])
                if f.type == "CDS" and "translation" in q:
                    # independent splice in biological order, whatever the order in which the parts are listed
                    # (the listing order on the minus strand is a separate, keyed finding)
                    from Bio.Seq import Seq

                    ordered = sorted(parts, key=lambda p: int(p.start), reverse=(strand == "-"))
                    pieces = [rec.seq[int(p.start):int(p.end)] for p in ordered]
                    nt = Seq("".join(str(x.reverse_complement() if strand == "-" else x) for x in pieces))
                    off = int(q.get("codon_start", ["1"])[0]) - 1
                    nt = nt[off:]
                    nt = nt[:len(nt) - len(nt) % 3]
                    prot = str(nt.translate(table=1))
                    if len(nt) >= 3 and str(nt[:3]).upper() in starts:
                        prot = "M" + prot[1:]
                    translations.append([q["translation"][0], prot, strand, len(parts)])
            ev.append(["gbk", flavour, model, records, str(rec.seq) == R, translations, orders])
            outs, orders_by_mode = [], []
            for mode in ("SORTED", "LOCUS_TAG", "HYBRID"):
                try:
                    recs = list(parse_genbank(io.StringIO(text), gbk_type=GenBankParserType[mode]))
                    outs.append(["v", _project(recs[0].annotation.to_annotation_collection(), flavour)])
                    # the order in which the parsed record lists its genes (locus tags), as returned
                    orders_by_mode.append([str(g.locus_tag) for g in (recs[0].annotation.genes or [])])
                except Exception as ex:
                    outs.append(["x", type(ex).__name__ + ":" + str(ex)[:60]])
                    orders_by_mode.append(["!"])
            src_order = [str(g.locus_tag) for g in sorted(coll.genes, key=lambda x: (x.start, x.end))]
            ev.append(["reparse", flavour, src] + outs + [src_order, orders_by_mode, lapped])
    return ev


def _key(ev, clause):
    if clause == "independent-reader:minus-strand-parts-not-in-biological-order":
        return "genbank:minus-strand-join-order"
    if clause == "reparse:touching-blocks-merged":
        return "genbank:parser-merges-touching-blocks"
    return None


def run(chk):
    quick = chk.quick
    chk.mc("GenBankMC", "GenBankMC.cfg", note="sorted reader (one action per record, the library's group-in-progress) vs "
           "locus-tag partition over all files of <=3 genes in the shapes the writer produces (+ isolated records): "
           "ReadersAgree, NeverMergesTags, CdsNeverJoinsNoncoding")
    chk.mc("GenBankMC", "GenBankMC_neg.cfg", expect_violation=True, note="sorted reader without the non-coding guard")
    n = 12 if quick else 300
    parts = pmap(_events, [(chk.seed * 1301 + i, n) for i in range(32)])
    evs = [e for p in parts for e in p]
    chk.validate("C12Trace", evs, shard=300, label="genbank", keyfn=_key)
    chk.nontrivial = len({str(e[2])[:300] + e[1] for e in evs if e[0] == "gbk"})
    chk.extra["files"] = sum(1 for e in evs if e[0] == "gbk")
    chk.extra["library_parses"] = 3 * sum(1 for e in evs if e[0] == "reparse")
    chk.extra["translations_compared"] = sum(len(e[5]) for e in evs if e[0] == "gbk")
    chk.trusted += ["TLC", "GenBankMC.tla and the record model in C12Trace.tla", "Bio.SeqIO GenBank reader and Bio "
                    "translate (the independent reader / translator)", "the compatibility shim's legacy Biopython names"]
    return chk.finish("random single-strand gene models (1-4 genes: coding with 1-2 isoforms and start frames 0/1/2, ncRNA, "
                      "tRNA, rRNA, misc_RNA, multi-exon, both strands, feature collections) on a start/stop-rich sequence, "
                      "written in prokaryotic and eukaryotic flavour with translations, read by Bio.SeqIO and by the three "
                      "parser modes; distinct = distinct (model, flavour)")
