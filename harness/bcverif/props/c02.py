"""C02 — Location set algebra = position-set semantics; results normalised.  LocMC (Algo = Sem, chains) + every
binary/unary public operation of the real classes over all ordered pairs of Locs(G,2), all flags, parent
configurations, judged by TLC (C02Trace)."""
import random

from bcverif import encode as E
from bcverif.runner import MachineryError, parse_prints, pmap, setup_repo_import, suite_events

# 0 none, 1 id + sequence, 2 id only, 3 another id, 4 sequence WITHOUT id, 5 sequence type only (no id, no sequence):
# a parent without an id is still a parent -- it is a different coordinate system from "no parent"
PARENT_CFGS = [(0, 0), (1, 1), (2, 2), (1, 0), (0, 1), (2, 3), (1, 2), (0, 0), (1, 1),
               (4, 4), (4, 0), (0, 4), (5, 0), (0, 5), (5, 5), (4, 5), (4, 1)]


def _mk_parent(kind, seqlen):
    if kind == 0:
        return None, ["", -1]
    from inscripta.biocantor.parent import Parent
    from inscripta.biocantor.sequence import Sequence
    from inscripta.biocantor.sequence.alphabet import Alphabet

    if kind == 1:
        return Parent(id="chr", sequence=Sequence("ACGT" * (seqlen // 4 + 1), Alphabet.NT_STRICT)[0:seqlen]
                      if False else Sequence(("ACGT" * (seqlen // 4 + 1))[:seqlen], Alphabet.NT_STRICT)), ["chr", seqlen]
    if kind == 2:
        return Parent(id="chr"), ["chr", -1]
    if kind == 4:
        return Parent(sequence=Sequence(("ACGT" * (seqlen // 4 + 1))[:seqlen], Alphabet.NT_STRICT)), ["", seqlen, "idless-seq"]
    if kind == 5:
        return Parent(sequence_type="chromosome"), ["", -1, "idless-type"]
    return Parent(id="other"), ["other", -1]


def _locval(fn):
    def enc(r):
        return (E.loc(r), E.pid(r), E.loc(r.optimize_blocks()))

    return E.outcome(fn, enc)


def _pair_events(args):
    lefts, rights, seqlen, flagmode, seed = args
    setup_repo_import()
    from inscripta.biocantor import DistanceType

    rnd = random.Random(seed)
    kinds = [DistanceType.INNER, DistanceType.OUTER, DistanceType.STARTS, DistanceType.ENDS]
    ev = []
    for (ab, ast) in lefts:
        for n, (bb, bst) in enumerate(rights):
            ka, kb = PARENT_CFGS[rnd.randrange(len(PARENT_CFGS))]
            ppa, da = _mk_parent(ka, seqlen)
            ppb, db = _mk_parent(kb, seqlen)
            a = E.make_loc(ab, ast, ppa, force_compound=rnd.random() < 0.2)
            b = E.make_loc(bb, bst, ppb, force_compound=rnd.random() < 0.2)
            if rnd.random() < 0.25:  # operands that have already been used: no answer may depend on earlier questions
                E.warm(a)
                E.warm(b)
            if flagmode == "all":
                ks = list(range(8))
            else:
                ks = sorted({0, 1, rnd.randrange(8), rnd.randrange(8)})
            # (half of the calls leave out every flag that has its DOCUMENTED default value: the default is part of the API)
            DEFAULTS = {"ov": dict(match_strand=False, full_span=False, strict_parent_compare=False),
                        "it": dict(match_strand=True, full_span=False, strict_parent_compare=False),
                        "mi": dict(match_strand=True, strict_parent_compare=False),
                        "co": dict(match_strand=False, full_span=False, strict_parent_compare=False)}

            def fk(op, k):
                d = dict(match_strand=bool(k & 1), full_span=bool(k & 2), strict_parent_compare=bool(k & 4))
                if op == "mi":
                    d.pop("full_span")
                if rnd.random() < 0.5:
                    d = {kk: v for kk, v in d.items() if DEFAULTS[op][kk] != v}
                return d

            f = lambda k: dict(match_strand=bool(k & 1), full_span=bool(k & 2), strict_parent_compare=bool(k & 4))  # noqa
            # the operation groups are asked in a random order (a quarter of the pairs: twice, the second answers
            # are the ones judged): no answer may depend on what was computed from the same operands before
            groups = {
                "ov": lambda: [[k, E.outcome(lambda k=k: a.has_overlap(b, **fk("ov", k)))] for k in ks],
                "it": lambda: [[k, _locval(lambda k=k: a.intersection(b, **fk("it", k)))] for k in ks],
                "mi": lambda: [[k, _locval(lambda k=k: a.minus(b, **fk("mi", k)))]
                               for k in ks if not k & 2],
                "co": lambda: [[k, E.outcome(lambda k=k: a.contains(b, **fk("co", k)))] for k in ks],
                "un": lambda: _locval(lambda: a.union(b)),
                "up": lambda: _locval(lambda: a.union_preserve_overlaps(b)),
                "di": lambda: [E.outcome(lambda kd=kd: a.distance_to(b, kd)) for kd in kinds],
            }
            order = list(groups)
            rnd.shuffle(order)
            if rnd.random() < 0.25:
                order = order + order
            res = {}
            for g in order:
                res[g] = groups[g]()
            ov, it, mi, co, un, up, di = (res[g] for g in ("ov", "it", "mi", "co", "un", "up", "di"))
            ev.append(["pair", [ab, ast], [bb, bst], da, db, ov, it, mi, co, un, up, di])
    return ev


def _unary_events(args):
    locs, seqlen, seed = args
    setup_repo_import()
    from inscripta.biocantor.location.location_impl import EmptyLocation
    from inscripta.biocantor.location.strand import Strand

    rnd = random.Random(seed)
    strands = {"+": Strand.PLUS, "-": Strand.MINUS, ".": Strand.UNSTRANDED}
    ev = []
    for (blocks, st) in locs:
        k = rnd.choice([0, 1, 2])
        par, da = _mk_parent(k, seqlen)
        a = E.make_loc(blocks, st, par, force_compound=rnd.random() < 0.3)
        if rnd.random() < 0.25:
            E.warm(a)
        exts = [(0, 0), (1, 0), (0, 1), (2, 3), (-1, 0), (0, -1), (seqlen, 0), (0, seqlen)]
        ev.append(["un", [blocks, st], da,
                   _locval(a.gaps_location), _locval(a.optimize_blocks),
                   # optimize_and_combine_blocks exists on CompoundInterval only
                   _locval(getattr(a, 'optimize_and_combine_blocks', a.optimize_blocks)),
                   _locval(a.merge_overlapping), _locval(a.reverse), _locval(a.reverse_strand),
                   [[s, _locval(lambda s=s: a.reset_strand(strands[s]))] for s in "+-."],
                   [[d, _locval(lambda d=d: a.shift_position(d))] for d in (-2, -1, 0, 1, 2, seqlen)],
                   [[x, y, _locval(lambda x=x, y=y: a.extend_absolute(x, y))] for (x, y) in exts],
                   [[x, y, _locval(lambda x=x, y=y: a.extend_relative(x, y))] for (x, y) in exts]])
        e = EmptyLocation()
        ev.append(["empty", [blocks, st], da,
                   _locval(lambda: e.intersection(a)), _locval(lambda: a.intersection(e)),
                   _locval(lambda: e.minus(a)), _locval(lambda: a.minus(e)),
                   E.outcome(lambda: e.has_overlap(a)), E.outcome(lambda: a.has_overlap(e)),
                   _locval(lambda: e.union(a)), _locval(lambda: e.extend_absolute(1, 1)),
                   _locval(lambda: e.shift_position(1))])
    return ev


def _chain_events(args):
    """Direction A: behaviours of LocSim (TLC -simulate) performed on real objects, one event per real step."""
    chains, _seed = args
    setup_repo_import()
    from inscripta.biocantor.location.strand import Strand

    strands = {"+": Strand.PLUS, "-": Strand.MINUS, ".": Strand.UNSTRANDED}
    np = ["", -1]
    ev2, ev1 = [], []
    steps = same = 0
    diverged = []
    for h in chains:
        cur = E.make_loc(h[0][0], h[0][1], None)
        for (act, algo) in h[1:]:
            name = act[0]
            a = E.loc(cur)
            holder = []

            def keep(r):
                holder.append(r)
                return r

            if name == "sub":
                x, y, rs = act[1], act[2], act[3]
                o = E.outcome(lambda: keep(cur.relative_interval_to_parent_location(x, y, strands[rs])),
                              lambda r: (E.loc(r), "*"))
                ev2.append(["sub1", a, x, y, rs, o])
            elif name in ("and", "minus", "or"):
                other = E.make_loc(act[1][0], act[1][1], None)
                ms = bool(act[2]) if name != "or" else False
                fn = {"and": lambda: cur.intersection(other, match_strand=ms),
                      "minus": lambda: cur.minus(other, match_strand=ms), "or": lambda: cur.union(other)}[name]
                o = _locval(lambda: keep(fn()))
                ev2.append(["bin1", {"and": "intersection", "minus": "minus", "or": "union"}[name], a, E.loc(other), np, np,
                            1 if ms else 0, o])
            else:
                fn = {"opt": cur.optimize_blocks, "optc": getattr(cur, "optimize_and_combine_blocks", cur.optimize_blocks),
                      "gaps": cur.gaps_location}[name]
                o = _locval(lambda: keep(fn()))
                ev2.append(["un1", name, a, np, o])
            if not holder:
                break
            steps += 1
            got = E.loc(holder[0])
            if got == algo or (holder[0].is_empty and not algo[0]):
                same += 1
            elif len(diverged) < 5:
                diverged.append([a, act, algo, got])
            cur = holder[0]
            if cur.is_empty:
                break
    return ev2, ev1, steps, same, diverged


def run(chk):
    quick = chk.quick
    rnd = random.Random(chk.seed * 15485863 + 2)
    chk.mc("LocMC", "LocMC.cfg", note="Location calculator: Algo=Sem for optimise/combine, intersection, minus, "
           "union, gaps over all Locs(4,2)^2 and all flags, chained to depth 2; WellFormed invariant")
    chk.mc("LocMC", "LocMC_neg_union.cfg", expect_violation=True,
           note="union merges with first/last overlapping block instead of min/max")
    G = 4 if quick else 5
    seqlen = G + 3
    locs = E.enum_locs(G, 2)
    kw = dict(shard=1200, label="algebra")
    chk.validate("C02Trace", [["cert", G, 2, [[b, st] for (b, st) in locs]]], **kw)
    nsh = 64 if quick else 1024
    npairs = chk.leg("C02Trace", _pair_events, [(locs[i::nsh], locs, seqlen, "some" if quick else "all",
                                                  chk.seed * 977 + i) for i in range(nsh)], **kw)[0]
    # three-block and unstranded operands, larger coordinates (random)
    from bcverif.props.c01 import _random_locs

    l3 = rnd.sample(E.enum_locs(G + 1, 3), 120 if quick else 600)
    big = _random_locs(rnd, 80 if quick else 500, 1000, 6)
    bigu = [(b, rnd.choice("+-.")) for (b, _s) in big]
    chk.leg("C02Trace", _pair_events,
            [(l3[i::16], l3[:60 if quick else 300], G + 4, "some", chk.seed * 31 + i) for i in range(16)] +
            [(bigu[i::16], bigu[:40 if quick else 200], 1003, "some", chk.seed * 53 + i) for i in range(16)], batch=16, **kw)
    ul = E.enum_locs(G + 1, 3) + [(b, ".") for (b, s) in E.enum_locs(G, 2) if s == "+"]
    if quick:
        ul = rnd.sample(ul, 2500)
    chk.leg("C02Trace", _unary_events, [(ul[i::64], G + 4, chk.seed * 71 + i) for i in range(64)], batch=32, **kw)
    # direction A: behaviours of the calculator machine chosen by TLC, performed on real objects
    r = chk.mc("LocSim", "LocSim.cfg", workers=1, simulate="num=%d" % (1500 if quick else 20000),
               extra=["-depth", "5", "-seed", str(chk.seed + 11)],
               note="simulated behaviours of LocMC (Locs(6,3) start, operands Locs(6,2), 4 steps) emitted for replay")
    chains = [c[0] for c in parse_prints(r["out"], "CHAIN")]
    if len(chains) < 200:
        raise MachineryError("TLC emitted only %d calculator behaviours" % len(chains))
    parts = pmap(_chain_events, [(chains[i::32], i) for i in range(32)], empty=lambda: ([], [], 0, 0, []))
    chk.extra["calculator_behaviours_replayed"] = len(chains)
    chk.extra["algo_fidelity"] = {"real_steps": sum(p[2] for p in parts), "identical_to_transcribed_algorithm":
                                  sum(p[3] for p in parts), "divergent_examples": [d for p in parts for d in p[4]][:5]}
    chk.validate("C02Trace", [e for p in parts for e in p[0]], **kw)
    del parts
    # leg S: the calls the repository's own tests make, judged with the same clauses
    chk.validate("C02Trace", suite_events(chk, "C02Trace"), **kw)
    chk.exhaustive = True
    chk.nontrivial = npairs + len(ul)
    chk.extra["constants"] = {"G": G, "K": 2, "locations": len(locs), "ordered_pairs": npairs,
                              "unary_receivers": len(ul), "flag_vectors_per_pair": "4 of 8 (rotating)" if quick else 8}
    chk.trusted += ["TLC", "Loc.tla Sem layer (position sets)", "harness/bcverif/encode.py projections"]
    return chk.finish("all ordered pairs of Locs(G,2) (certified complete by TLC) x overlap/intersection/minus/"
                      "contains under flag vectors (match_strand, full_span, strict_parent_compare), union, "
                      "union_preserve_overlaps, 4 distance types, 9 parent configurations; unary ops over "
                      "Locs(G+1,3) + unstranded; random 3..6-block operands; distinct = distinct operand pairs + "
                      "receivers")
