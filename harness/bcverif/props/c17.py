"""C17 — NCBI feature-table export lists the model's genes 5'->3', partial marks correct."""
import io
import random
import re

from bcverif.props.c05 import _consistent_frames
from bcverif.props.c06 import cds_blocks, mk_tx
from bcverif.runner import pmap, setup_repo_import


def read_tbl(text):
    """5-column reader: header, features = [type, intervals, partial5, partial3, pseudo, codon_start, locus_tag]"""
    header = None
    feats = []
    cur = None
    for line in text.split("\n"):
        if not line.strip():
            continue
        if line.startswith(">"):
            header = line[1:].split(None, 1)[1] if len(line.split(None, 1)) > 1 else ""
            continue
        c = line.split("\t")
        c += [""] * (5 - len(c))
        if c[0] != "" or c[1] != "":
            a, b = c[0], c[1]
            if c[2] != "":
                cur = [c[2], [], False, False, False, 0, 0]
                feats.append(cur)
            if a.startswith("<"):
                cur[2] = True
                a = a[1:]
            if b.startswith(">"):
                cur[3] = True
                b = b[1:]
            cur[1].append([int(a), int(b)])
        else:
            k, v = c[3], c[4]
            if k == "pseudo":
                cur[4] = True
            elif k == "codon_start":
                cur[5] = int(v)
            elif k == "locus_tag":
                m = re.match(r"^PFX_(\d+)$", v)
                cur[6] = int(m.group(1)) if m else -1
    return header, feats


def merged(blocks):
    out = []
    for b in blocks:
        if out and out[-1][1] >= b[0]:
            out[-1][1] = max(out[-1][1], b[1])
        else:
            out.append(list(b))
    return out


def _gen(rnd, mutate=None):
    """mutate: a Random of its own -- the SAME annotation (every draw from rnd is repeated) on a sequence that differs in a
    few bases (another strain / a corrected assembly of the same chromosome)"""
    from inscripta.biocantor.gene.biotype import Biotype
    from inscripta.biocantor.gene.collections import AnnotationCollection
    from inscripta.biocantor.gene.gene import GeneInterval
    from inscripta.biocantor.parent import Parent, SequenceType
    from inscripta.biocantor.sequence import Sequence
    from inscripta.biocantor.sequence.alphabet import Alphabet

    L = 200
    R = ""
    while len(R) < L:
        R += rnd.choice(["ATG", "GTG", "TTG", "TAA", "TGA", "TAG", "CAT", "TTA", "TCA", "CTA", "GCC", "AAA", "C", "AG", "T"])
    R = R[:L]
    if rnd.random() < 0.4:
        # a soft-masked assembly: runs of lower-case bases (a codon is the same codon in either case)
        chars = list(R)
        for _ in range(rnd.randrange(1, 6)):
            a0 = rnd.randrange(0, L)
            for i in range(a0, min(L, a0 + rnd.randrange(1, 25))):
                chars[i] = chars[i].lower()
        R = "".join(chars)
    if mutate is not None:
        chars = list(R)
        for _ in range(mutate.randrange(3, 12)):
            i = mutate.randrange(0, L - 2)
            chars[i:i + 3] = list(mutate.choice(["TAA", "TGA", "CAA", "GCC", "ATG", "CTC"]))
        R = "".join(chars)
    par = Parent(id="seqT", sequence=Sequence(R, Alphabet.NT_EXTENDED_GAPPED, id="seqT", type=SequenceType.CHROMOSOME))
    genes, model = [], []
    pos = 4
    for gi in range(rnd.randrange(1, 5)):
        st = rnd.choice("+-")
        k = rnd.randrange(1, 4)
        blocks, p = [], pos
        for _ in range(k):
            s = p + rnd.randrange(0, 4)
            e = s + rnd.randrange(3, 16)
            blocks.append([s, e])
            p = e + rnd.choice([0, 0, 3, 6])  # adjacent blocks included
        if blocks[-1][1] > L - 4:
            break
        kind = rnd.choice(["coding", "coding", "coding", "rRNA", "tRNA", "ncRNA"])
        cds = frames = None
        f0 = 0
        if kind == "coding":
            n = sum(b[1] - b[0] for b in blocks)
            ca = rnd.randrange(0, max(1, n - 5))
            cb = rnd.randrange(ca + 3, n + 1)
            cds = cds_blocks(blocks, st, ca, cb)
            f0 = rnd.choice([0, 0, 1, 2])
            first = cds[0] if st == "+" else cds[-1]
            if first[1] - first[0] <= f0:
                f0 = 0
            frames = list(_consistent_frames(cds, st, f0))
        btype = {"coding": Biotype.protein_coding, "rRNA": Biotype.rRNA, "tRNA": Biotype.tRNA, "ncRNA": Biotype.lncRNA}[kind]
        tx = mk_tx(blocks, st, cds, None, frames=frames, parent=par, transcript_id="t%d" % gi, transcript_type=btype,
                   protein_id="p%d" % gi if cds else None, sequence_name="seqT")
        genes.append(GeneInterval([tx], gene_id="g%d" % gi, gene_symbol="sym%d" % gi, gene_type=btype, locus_tag="old%d" % gi,
                                  sequence_name="seqT", parent_or_seq_chunk_parent=par))
        model.append([blocks, st, merged(cds) if cds else [], f0, kind])
        pos = blocks[-1][1] + rnd.randrange(2, 12)
    if not genes:
        return None
    coll = AnnotationCollection(genes=genes, sequence_name="seqT", parent_or_seq_chunk_parent=par)
    return coll, model, R


def _events(args):
    seed, n = args
    setup_repo_import()
    from inscripta.biocantor.gene.codon import TranslationTable
    from inscripta.biocantor.io.genbank.constants import GenbankFlavor
    from inscripta.biocantor.io.ncbi.tbl_writer import collection_to_tbl

    rnd = random.Random(seed)
    ev = []
    cases = []
    for _ in range(n):
        state = rnd.getstate()
        b = _gen(rnd)
        if not b:
            continue
        cases.append(b)
        if rnd.random() < 0.35:
            # the same annotation exported again, in the same process, for a sequence that differs in a few bases
            r2 = random.Random()
            r2.setstate(state)
            b2 = _gen(r2, mutate=random.Random(seed * 7 + len(cases)))
            if b2:
                cases.append(b2)
    for (coll, model, R) in cases:
        for flavour in ("EUKARYOTIC", "PROKARYOTIC"):
            table = rnd.choice([0, 1, 11])
            step = rnd.choice([1, 5, 10])
            rs = rnd.choice([0, 1, 7, 12345])
            one_shot = rnd.random() < 0.4
            bare = rnd.random() < 0.5

            def write():
                buf = io.StringIO()
                # the collections are an Iterable: a list, or something that can be walked only once
                colls = [coll] if one_shot is False else (c for c in [coll])
                # (documented defaults -- the default table, the eukaryotic flavour, a step of 5 -- are left out when they
                # are what is asked for and `bare` says so)
                kw = dict(translation_table=TranslationTable(table), locus_tag_prefix="PFX",
                          genbank_flavor=GenbankFlavor[flavour], locus_tag_jump_size=step, submitter_lab_name="LAB",
                          random_seed=rs)
                if bare:
                    if table == 0:
                        kw.pop("translation_table")
                    if flavour == "EUKARYOTIC":
                        kw.pop("genbank_flavor")
                    if step == 5:
                        kw.pop("locus_tag_jump_size")
                collection_to_tbl(colls, buf, **kw)
                return buf.getvalue()

            try:
                t1 = write()
                t2 = write()
            except Exception as ex:
                ev.append(["tbl", flavour, table, model, list(R.upper()), "!" + type(ex).__name__, "seqT", [], step, False])
                continue
            header, feats = read_tbl(t1)
            header = header if isinstance(header, str) else "<no header line>"
            groups = []
            for f in feats:
                if f[0] == "gene":
                    groups.append([])
                if groups:
                    groups[-1].append(f)
            ev.append(["tbl", flavour, table, model, list(R.upper()), header, "seqT", groups, step, t1 == t2])
    return ev


def run(chk):
    quick = chk.quick
    chk.mc("TblMC", "TblMC.cfg", note="5'/3' partial marks and pseudo flag as the writer computes them vs the statement, for "
           "every coding sequence of length <= 8 over {A,T,G} typed base by base, every start frame and table")
    chk.mc("TblMC", "TblMC_neg.cfg", expect_violation=True, note="3' completeness tested with (frame + len) % 3")
    n = 25 if quick else 600
    parts = pmap(_events, [(chk.seed * 1409 + i, n) for i in range(32)])
    evs = [e for p in parts for e in p]
    chk.validate("C17Trace", evs, shard=400, label="tbl")
    chk.nontrivial = len({str(e[1:4]) for e in evs})
    chk.extra["files"] = len(evs)
    chk.trusted += ["TLC", "CDS.tla/Tables.tla and the feature model in C17Trace.tla", "the harness 5-column reader read_tbl"]
    return chk.finish("random collections with sequence (1-4 genes: coding with start frames 0/1/2, rRNA, tRNA, ncRNA; 1-3 "
                      "exons, adjacent blocks, both strands, start/stop-rich sequence) x {prokaryotic, eukaryotic} x "
                      "translation tables x locus-tag steps x seeds (0 included), each written twice; distinct = distinct "
                      "(flavour, table, model)")
