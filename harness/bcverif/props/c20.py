"""C20 — gene and collection aggregates are the stated functions of their children."""
import itertools
import random

from bcverif import encode as E
from bcverif.props.c06 import cds_blocks, mk_tx
from bcverif.runner import pmap, setup_repo_import

# a pool of child structures over a 40 bp genome: (blocks, strand, (ca, cb) or None)
POOL = [
    ([[2, 8]], "+", None), ([[2, 8]], "+", (0, 6)), ([[2, 8]], "+", (1, 4)), ([[4, 10]], "+", (0, 6)),
    ([[2, 5], [7, 10]], "+", (0, 6)), ([[2, 5], [7, 10]], "+", None), ([[1, 4], [6, 12]], "+", (3, 9)),
    ([[2, 8]], "-", (0, 6)), ([[3, 6], [9, 12]], "-", (0, 6)), ([[3, 6], [9, 12]], "-", None),
    ([[0, 3], [5, 8], [10, 13]], "+", (0, 9)), ([[0, 3], [5, 8], [10, 13]], "+", (3, 6)), ([[20, 30]], "+", (0, 9)),
    ([[5, 11]], "+", (0, 3)), ([[15, 18], [18, 21]], "+", (0, 6)),
]


def _sv(fn):
    def enc(s):
        return "<none>" if s is None else str(s)

    return E.outcome(fn, enc)


def _gene_events(args):
    combos, seed = args
    setup_repo_import()
    from inscripta.biocantor.gene.biotype import Biotype
    from inscripta.biocantor.gene.feature import FeatureInterval, FeatureIntervalCollection
    from inscripta.biocantor.gene.gene import GeneInterval
    from inscripta.biocantor.location.strand import Strand

    rnd = random.Random(seed)
    root = "".join(rnd.choice("ACGT") for _ in range(40))
    ev = []
    from inscripta.biocantor.io.parser import seq_chunk_to_parent

    for (idxs, flags) in combos:
        ch_desc, txs = [], []
        # a third of the genes live on a sequence chunk that may miss some of their isoforms (or some CDSs) entirely:
        # span, merged blocks, coding flag and primary choice are statements about the CHROMOSOME structure
        chunk, cwin = None, (-1, -1)
        if rnd.random() < 0.35:
            ws = rnd.randrange(0, 30)
            cwin = (ws, len(root)) if rnd.random() < 0.5 else (0, ws + 6)
            chunk = E.chunk_parent(root, cwin[0], cwin[1], minus=rnd.random() < 0.3)
        for n, (i, fl) in enumerate(zip(idxs, flags)):
            bl, st, cacb = POOL[i]
            cds = cds_blocks(bl, st, *cacb) if cacb else None
            txs.append(mk_tx(bl, st, cds, root if chunk is None else None, parent=chunk,
                             is_primary_tx={1: True, 0: False, -1: None}[fl], transcript_id="t%d" % n))
            ch_desc.append([[bl, st], [cds, st] if cds else [[], "e"], fl == 1])
        holder = []
        ctor = E.outcome(lambda: holder.append(GeneInterval(txs, gene_type=Biotype.protein_coding,
                                                            parent_or_seq_chunk_parent=chunk)) or 1)
        if not holder:
            ev.append(["gene", ch_desc, ctor] + [0] * 12)
            continue
        g = holder[0]
        if rnd.random() < 0.25:  # a gene (and isoforms) that was already asked everything
            for t in txs:
                E.warm(t)
            E.warm(g)
        def emit(g, txs, ch_desc, ctor):
            pidx = [k for k, t in enumerate(g.transcripts) if t is g.primary_transcript]
            # the shared-API spellings name the same member: get_primary_feature() is the primary transcript, and
            # get_primary_cds() its CDS
            if len(pidx) == 1 and not (g.get_primary_feature() is g.primary_transcript
                                       and g.get_primary_cds() is g.primary_transcript.cds):
                pidx = []
            ev.append(["gene", ch_desc, ctor, g.start, g.end, g.is_coding, pidx[0] + 1 if len(pidx) == 1 else 0,
                       E.outcome(lambda: E.loc(g.get_merged_transcript().chromosome_location)),
                       E.outcome(lambda: E.loc(g.get_merged_cds().chromosome_location)),
                       _sv(g.get_primary_transcript_sequence), [_sv(t.get_spliced_sequence) for t in txs],
                       _sv(g.get_primary_cds_sequence), [_sv(t.get_cds_sequence) for t in txs],
                       _sv(g.get_primary_protein), [_sv(t.get_protein_sequence) for t in txs],
                       cwin[0], cwin[1]])

        emit(g, txs, ch_desc, ctor)
        if len(txs) >= 2 and rnd.random() < 0.5:
            # a gene that is the ANSWER of a query (isoforms named in any order, all or some of them): the same rules hold
            # for it, over its own children in its own order
            sel = rnd.sample(list(g.transcripts), rnd.randrange(2, len(txs) + 1))
            hold2 = []
            o2 = E.outcome(lambda: hold2.append(g.query_by_guids([t.guid for t in sel])) or 1)
            if hold2 and len(hold2[0].transcripts) == len(sel):
                sub = hold2[0]
                order = [int(str(t.transcript_id)[1:]) for t in sub.transcripts]
                emit(sub, list(sub.transcripts), [ch_desc[k] for k in order], o2)
        # feature collections from the same structures (non-coding view)
        feats, fdesc = [], []
        for n, (i, fl) in enumerate(zip(idxs, flags)):
            bl, st, _ = POOL[i]
            types = rnd.sample(["promoter", "enhancer", "tss", "orf"], rnd.randrange(0, 3))
            feats.append(FeatureInterval([b[0] for b in bl], [b[1] for b in bl], Strand.from_symbol(st),
                                         feature_types=types, feature_name="f%d" % n,
                                         is_primary_feature={1: True, 0: False, -1: None}[fl],
                                         parent_or_seq_chunk_parent=txs[n]._parent_or_seq_chunk_parent))
            fdesc.append([[bl, st], types, fl == 1])
        holder = []
        ctor = E.outcome(lambda: holder.append(FeatureIntervalCollection(feats)) or 1)
        if not holder:
            ev.append(["fc", fdesc, ctor] + [0] * 7)
            continue
        fc = holder[0]
        if rnd.random() < 0.25:
            E.warm(fc)
        pidx = [k for k, t in enumerate(fc.feature_intervals) if t is fc.primary_feature]
        ev.append(["fc", fdesc, ctor, fc.start, fc.end, sorted(fc.feature_types), pidx[0] + 1 if len(pidx) == 1 else 0,
                   E.outcome(lambda: E.loc(fc.get_merged_feature().chromosome_location)),
                   _sv(fc.get_primary_feature_sequence), [_sv(f.get_spliced_sequence) for f in feats]])
    return ev


def _iter_events(seed):
    setup_repo_import()
    from inscripta.biocantor.gene.collections import AnnotationCollection
    from inscripta.biocantor.gene.feature import FeatureInterval, FeatureIntervalCollection
    from inscripta.biocantor.gene.gene import GeneInterval
    from inscripta.biocantor.location.strand import Strand

    rnd = random.Random(seed)
    ev = []
    from inscripta.biocantor.gene.variants import VariantInterval, VariantIntervalCollection

    for _ in range(220):
        n = rnd.randrange(1, 8)
        genes, fcs, vcs, starts = [], [], [], []
        for k in range(n):
            s = rnd.randrange(0, 12) * 5
            e = s + rnd.choice([rnd.randrange(2, 30), rnd.randrange(2, 30), 90])  # some members contain later ones
            r = rnd.random()
            if r < 0.45:
                genes.append(GeneInterval([mk_tx([[s, e]], rnd.choice("+-"), None, None, transcript_id="g%d" % k)]))
            elif r < 0.7:
                fcs.append(FeatureIntervalCollection([FeatureInterval([s], [e], Strand.PLUS, feature_name="f%d" % k)]))
            else:  # variant collections are members too, handed over in any order
                vcs.append(VariantIntervalCollection([VariantInterval(s, s + 1, "A", "SNV", variant_name="v%d" % k)],
                                                     variant_collection_name="vc%d" % k))
        order = genes + fcs + vcs  # construction order as the library chains them
        starts = [x.start for x in order]
        coll = AnnotationCollection(feature_collections=fcs, genes=genes, variant_collections=vcs)
        it = [next(i for i, y in enumerate(order) if y is x) + 1 for x in coll]
        if rnd.random() < 0.5:  # asked twice (the member list is memoised), and through the other accessors
            it2 = [next(i for i, y in enumerate(order) if y is x) + 1 for x in coll.iter_children()]
            ev.append(["iter", starts, it2])
        ev.append(["iter", starts, it])
        # bounds of a collection built without bounds and without a parent: those of its members
        if hasattr(coll, "start") and hasattr(coll, "end"):
            ev.append(["collspan", [[x.start, x.end] for x in order], coll.start, coll.end])
        # the view without the variant collections, and the per-type accessors: same order, nothing lost
        nv = genes + fcs
        if nv:
            ev.append(["iter", [x.start for x in nv],
                       [next(i for i, y in enumerate(nv) if y is x) + 1 for x in coll.iter_non_variant_children()]])
        for typ, lst in (("transcript", genes), ("feature", fcs), ("variant", vcs)):
            got = coll.get_children_by_type(typ)
            if lst or got:
                # (per-type lists promise the members, not an order: membership is what is judged)
                idx = [next((i for i, y in enumerate(lst) if y is x), -1) + 1 for x in got]
                ok = 0 not in idx and sorted(idx) == list(range(1, len(lst) + 1))
                ev.append(["iter", [x.start for x in lst],
                           sorted(range(1, len(lst) + 1), key=lambda i: (lst[i - 1].start, i)) if ok else [0]])
    return ev


def _key(ev, clause):
    if clause == "merged:mixed-strand-rejected":
        return "agg:merged-mixed-strand"
    return None


def run(chk):
    quick = chk.quick
    rnd = random.Random(chk.seed * 982451653 + 20)
    chk.mc("AggMC", "AggMC.cfg", note="primary selection as the library sorts vs the documented lexicographic rule: all "
           "child tuples of length <=4 over (cdsLen<=len<=3, flag), ties included")
    chk.mc("AggMC", "AggMC_neg.cfg", expect_violation=True, note="sorted(..., reverse=True): the index takes part")
    combos = []
    for n in (1, 2, 3):
        for idxs in itertools.product(range(len(POOL)), repeat=n):
            for flags in ([tuple([-1] * n)] + [tuple(1 if j == k else rnd.choice([0, -1]) for j in range(n))
                                                for k in range(n)] + [tuple([1] * n)]):
                combos.append((idxs, flags))
    total = len(combos)
    if quick:
        combos = rnd.sample(combos, 4000)
    for _ in range(300 if quick else 3000):  # four children, ties likely
        idxs = tuple(rnd.choice([0, 1, 3, 4, 7, 8, 13]) for _ in range(4))
        combos.append((idxs, tuple(rnd.choice([-1, -1, 0, 1]) for _ in range(4))))
    parts = pmap(_gene_events, [(combos[i::64], chk.seed * 211 + i) for i in range(64)])
    evs = [e for p in parts for e in p]
    evs += _iter_events(chk.seed + 77)
    chk.validate("C20Trace", evs, shard=1500, label="agg", keyfn=_key)
    chk.exhaustive = not quick
    chk.nontrivial = len({str(e[1]) for e in evs})
    chk.extra["constants"] = {"pool": len(POOL), "child_tuples_in_space(n<=3)": total, "driven": len(combos)}
    chk.trusted += ["TLC", "Aggregates.tla", "encode.py"]
    return chk.finish("genes and feature collections with 1..3 children drawn from a pool of 15 structures (strand mix, "
                      "coding mix, ties in CDS and spliced length) x primary flags (none / each one / all), plus random "
                      "4-child tuples; annotation collections with permuted members; distinct = distinct child tuples")
