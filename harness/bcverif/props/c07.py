"""C07 — a chunk-relative view is the chromosome view restricted to the chunk (twin comparison)."""
import random

from bcverif import encode as E
from bcverif.props.c05 import _consistent_frames, layouts
from bcverif.props.c06 import cds_blocks, mk_tx
from bcverif.runner import pmap, setup_repo_import


def _events(args):
    items, G, seed = args
    setup_repo_import()
    from inscripta.biocantor.gene.feature import FeatureInterval
    from inscripta.biocantor.io.parser import seq_chunk_to_parent
    from inscripta.biocantor.location.strand import Strand
    from inscripta.biocantor.parent import SequenceType

    rnd = random.Random(seed)
    ev = []
    for (blocks, st, cacb, f0, win) in items:
        R = "".join(rnd.choice("ACGT") for _ in range(G))
        cds = cds_blocks(blocks, st, *cacb) if cacb else None
        frames = list(_consistent_frames(cds, st, f0)) if cds else []
        ws, we = win
        chunk = seq_chunk_to_parent(R[ws:we], "chr", ws, we)
        try:
            A = mk_tx(blocks, st, cds, R, frames=frames, transcript_id="tx", sequence_name="chr")
        except Exception:
            continue
        route = rnd.choice(["ctor", "liftover", "ctor"])
        holder = []
        if route == "ctor":
            ctor = E.outcome(lambda: holder.append(mk_tx(blocks, st, cds, None, frames=frames, parent=chunk,
                                                         transcript_id="tx", sequence_name="chr")) or 1)
        else:
            ctor = E.outcome(lambda: holder.append(A.liftover_to_parent_or_seq_chunk_parent(chunk)) or 1)
        row = ["twin", [blocks, st], [cds, st] if cds else [[], "e"], frames, list(R), ws, we, route, ctor]
        if not holder:
            ev.append(row + [False] * 11)
            continue
        B = holder[0]

        def back(l):
            if l.is_empty:
                return l
            return l.lift_over_to_first_ancestor_of_type(SequenceType.CHROMOSOME)

        row += [B.to_dict() == A.to_dict(), B.guid == A.guid and (not cds or (B.cds is not None and B.cds.guid == A.cds.guid)),
                E.outcome(lambda: E.loc(B.chromosome_location)),
                E.outcome(lambda: E.loc(back(B.chunk_relative_location))),
                E.outcome(lambda: list(str(B.get_spliced_sequence())))]
        if cds and B.cds is not None:
            c = B.cds
            row += [E.outcome(lambda: c.num_codons),
                    E.outcome(lambda: [E.loc(x) for x in c.chromosome_codon_locations]),
                    E.outcome(lambda: [E.loc(back(x)) for x in c.chunk_relative_codon_locations]),
                    E.outcome(lambda: c.num_chunk_relative_codons)]
            c2 = (mk_tx(blocks, st, cds, None, frames=frames, parent=chunk, transcript_id="tx",
                        sequence_name="chr")).cds  # fresh object: sequence before any codon listing
            row += [E.outcome(lambda: list(str(c2.extract_sequence()))), ["v", 0]]
        else:
            row += [["v", 0]] * 6
            if cds:
                row[2] = [[], "e"] if B.cds is None else row[2]
        ev.append(row)
    return ev


def _key(ev, clause):
    if clause == "chunk-codons:single-exon-offset":
        return "cds:single-exon-chunk-offset"
    return None


def run(chk):
    quick = chk.quick
    rnd = random.Random(chk.seed * 141650939 + 7)
    chk.mc("ChunkMC", "ChunkMC.cfg", note="chunk-relative codon scan with the offset reduced mod 3 = codons fully inside "
           "the chunk: all CDS K<=2 over 0..6, all start frames, all windows")
    chk.mc("ChunkMC", "ChunkMC_code.cfg", note="the code's unreduced single-exon offset is wrong ONLY on the keyed family")
    chk.mc("ChunkMC", "ChunkMC_known.cfg", expect_violation=True, note="strict theorem refuted for the code's arithmetic")
    G = 8 if quick else 10
    items = []
    wins = [(a, b) for a in range(0, G) for b in range(a + 1, G + 1)]
    for bl in layouts(G, 3):
        n = sum(b[1] - b[0] for b in bl)
        for st in "+-":
            places = {None, (0, n), (min(1, n - 1), n), (0, max(1, n - 1)), (n // 3, max(n // 3 + 1, n - n // 4))}
            for cacb in places:
                if cacb and not cacb[0] < cacb[1]:
                    continue
                for f0 in ((0, 1, 2) if cacb else (0,)):
                    for w in (wins if not quick else rnd.sample(wins, 2)):
                        items.append((bl, st, cacb, f0, w))
    total = len(items)
    if quick:
        items = rnd.sample(items, 9000)
    elif len(items) > 400000:
        items = rnd.sample(items, 400000)
    parts = pmap(_events, [(items[i::64], G, chk.seed * 601 + i) for i in range(64)])
    evs = [e for p in parts for e in p]
    chk.validate("C07Trace", evs, shard=1500, label="chunk", keyfn=_key)
    chk.nontrivial = len({str(e[1:8]) for e in evs})
    chk.extra["constants"] = {"G": G, "K": 3, "space": total, "twins_driven": len(evs)}
    chk.trusted += ["TLC", "CDS.tla / Lift.tla", "encode.py", "io.parser.seq_chunk_to_parent"]
    return chk.finish("transcripts (1..3 exons over 0..G, both strands; non-coding or CDS at 4 placements x start frames "
                      "0/1/2) built on the whole chromosome and on a chunk (constructor with chunk parent, or "
                      "liftover_to_parent_or_seq_chunk_parent) for chunk windows cutting exons, introns, CDS ends or "
                      "missing the interval: dictionary form, identifiers, chromosome blocks and codons, chunk location "
                      "lifted back, sequences, chunk-relative codons; distinct = distinct (transcript, frames, window)")
