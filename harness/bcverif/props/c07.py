"""C07 — a chunk-relative view is the chromosome view restricted to the chunk (twin comparison)."""
import random

from bcverif import encode as E
from bcverif.props.c05 import _consistent_frames, layouts
from bcverif.props.c06 import cds_blocks, mk_tx
from bcverif.runner import pmap, setup_repo_import


def _same_but_own_guid(da, db):
    """dictionary forms equal once the aggregate's own identifier is left out"""
    own = ("gene_guid", "feature_collection_guid", "variant_collection_guid")
    return {k: v for k, v in da.items() if k not in own} == {k: v for k, v in db.items() if k not in own}


def _events(args):
    items, G, seed = args
    setup_repo_import()
    from inscripta.biocantor.gene.collections import AnnotationCollection
    from inscripta.biocantor.gene.feature import FeatureInterval, FeatureIntervalCollection
    from inscripta.biocantor.gene.gene import GeneInterval
    from inscripta.biocantor.io.parser import seq_chunk_to_parent
    from inscripta.biocantor.location.strand import Strand
    from inscripta.biocantor.parent import Parent, SequenceType
    from inscripta.biocantor.sequence import Sequence
    from inscripta.biocantor.sequence.alphabet import Alphabet

    rnd = random.Random(seed)
    ev = []
    pos_ev = []

    def back(l):
        if l.is_empty:
            return l
        return l.lift_over_to_first_ancestor_of_type(SequenceType.CHROMOSOME)

    def pid_of(l):
        return l.parent.id if l.parent is not None else None

    def chrom_loc(A, B):
        # the chromosome-level location (also of the CDS) names the chromosome, as the whole-chromosome twin's does --
        # also when the object has no base on its chunk
        if pid_of(B.chromosome_location) != pid_of(A.chromosome_location):
            raise AttributeError("chromosome_location of the chunk-built object is not on the twin's chromosome")
        if getattr(A, "cds", None) is not None and getattr(B, "cds", None) is not None and \
                pid_of(B.cds.chromosome_location) != pid_of(A.cds.chromosome_location):
            raise AttributeError("cds.chromosome_location of the chunk-built object is not on the twin's chromosome")
        return E.loc(B.chromosome_location)

    def chunk_codons(c):
        # the memoised tuple and the deprecated iterator scan_codon_locations() (documented: chunk-relative) are one list
        import warnings

        a = [E.loc(back(x)) for x in c.chunk_relative_codon_locations]
        with warnings.catch_warnings():
            warnings.simplefilter("ignore")
            b = [E.loc(back(x)) for x in c.scan_codon_locations()]
        if a != b:
            raise AttributeError("scan_codon_locations() does not list the chunk-relative codons")
        return a

    def twin_row(A, B, blocks, st, cds, frames, R, ws, we, route, ctor, mk_fresh=None):
        """the observations of one interval B built on the chunk against its whole-chromosome twin A"""
        row = ["twin", [blocks, st], [cds, st] if cds else [[], "e"], frames, list(R), ws, we, route, ctor]
        if B is None:
            return row + [False] * 11
        has_cds = bool(cds)
        row += [B.to_dict() == A.to_dict(),
                B.guid == A.guid and (not has_cds or (B.cds is not None and B.cds.guid == A.cds.guid)),
                E.outcome(lambda: chrom_loc(A, B)),
                E.outcome(lambda: E.loc(back(B.chunk_relative_location))),
                E.outcome(lambda: list(str(B.get_spliced_sequence())))]
        if has_cds and B.cds is not None:
            c = B.cds
            row += [E.outcome(lambda: c.num_codons),
                    E.outcome(lambda: [E.loc(x) for x in c.chromosome_codon_locations]),
                    E.outcome(lambda: chunk_codons(c)),
                    # the count is asked of a FRESH object half the time (before its codon list was ever built)
                    E.outcome(lambda: (mk_fresh().cds if (mk_fresh and (ws + we) % 2 == 0) else c).num_chunk_relative_codons)]
            c2 = mk_fresh().cds if mk_fresh else None  # fresh object: sequence before any codon listing
            row += [E.outcome(lambda: list(str((c2 if c2 is not None else c).extract_sequence()))), ["v", 0]]
            row += [E.outcome(lambda: [f.value for f in c.chunk_relative_frames]), bool(minus_chunk)]
            # WINDOWED scans of the chunk-built CDS (chromosome bounds a, b): the whole-chromosome codons that lie fully
            # inside the chunk AND the window -- whatever the window trims off the 5' end, frame is kept
            if not (len(cds) == 1 and frames and frames[0 if st == "+" else -1] != 0):   # (keyed single-exon offset finding)
                lo, hi = cds[0][0], cds[-1][1]
                wins = []
                for _ in range(3):
                    a = rnd.randrange(max(0, lo - 2), hi)
                    b = rnd.randrange(a + 1, hi + 3)
                    wins.append([a, b, E.outcome(lambda a=a, b=b: [E.loc(back(x)) for x in
                                                                     c.scan_chunk_relative_codon_locations(a, b)])])
                ev.append(["cwin", [cds, st], frames, ws, we, wins])
        elif has_cds:
            row += [["x", "CdsMissingOnChunk"]] * 5 + [["v", 0]]  # the chunk-built twin lost its CDS: judged, not hidden
        else:
            row += [["v", 0]] * 6
        # field 23: the sizes.  len() and cds_size are chromosome-level answers (they "do not shrink"); chunk_relative_size
        # and chunk_relative_cds_size count the bases (of the CDS) that lie on the chunk
        row += [["v", 0]] * (21 - len(row)) + [bool(minus_chunk)] * (22 - max(len(row), 21))

        def sizes():
            z = [len(B), B.chunk_relative_size]
            if type(B).__name__ == "TranscriptInterval":
                z += [B.cds_size, B.chunk_relative_cds_size]
            return z
        row.append(E.outcome(sizes))
        # field 24: the UTRs of a coding transcript built on the chunk (documented: chunk-relative), lifted back: the bases,
        # 5'->3', on the chromosome

        def utr(fn):
            r = fn()
            if r.is_empty or len(r) == 0:
                return []
            r = back(r)
            b = [p for blk in sorted(r.blocks, key=lambda x: x.start) for p in range(blk.start, blk.end)]
            return b[::-1] if r.strand == Strand.MINUS else b
        if has_cds and type(B).__name__ == "TranscriptInterval" and B.cds is not None:
            row.append([E.outcome(lambda: utr(B.get_5p_interval)), E.outcome(lambda: utr(B.get_3p_interval))])
        return row

    pending = [0, False]

    def flush():
        # aggregate rows of the item just finished learn whether their chunk sat on the minus strand (field 15)
        for e in ev[pending[0]:]:
            if e[0] == "agg" and len(e) == 14:
                e.append(pending[1])
        pending[0] = len(ev)

    for (blocks, st, cacb, f0, win) in items:
        flush()
        R = "".join(rnd.choice("ACGT") for _ in range(G))
        if rnd.random() < 0.35:
            # a soft-masked chromosome: lower-case stretches (repeats) are part of the sequence text
            a = rnd.randrange(0, G)
            b = rnd.randrange(a, G + 1)
            R = R[:a] + R[a:b].lower() + R[b:]
        cds = cds_blocks(blocks, st, *cacb) if cacb else None
        frames = list(_consistent_frames(cds, st, f0)) if cds else []
        ws, we = win
        # a quarter of the chunks sit on the MINUS strand of the chromosome (their sequence is the reverse complement of
        # the window): every chromosome-level answer is the same
        minus_chunk = rnd.random() < 0.25
        pending[1] = minus_chunk
        if minus_chunk:
            comp = {"A": "T", "C": "G", "G": "C", "T": "A", "a": "t", "c": "g", "g": "c", "t": "a"}
            chunk = seq_chunk_to_parent("".join(comp[c] for c in reversed(R[ws:we])), "chr", ws, we, strand=Strand.MINUS)
        else:
            chunk = seq_chunk_to_parent(R[ws:we], "chr", ws, we)
        try:
            A = mk_tx(blocks, st, cds, R, frames=frames, transcript_id="tx", sequence_name="chr")
        except Exception:
            continue

        def on_chunk(par=chunk):
            return mk_tx(blocks, st, cds, None, frames=frames, parent=par, transcript_id="tx", sequence_name="chr")

        def other_chunk():
            a = rnd.randrange(0, G)
            b = rnd.randrange(a + 1, G + 1)
            return seq_chunk_to_parent(R[a:b], "chr", a, b)

        route = rnd.choice(["ctor", "liftover", "ctor", "chunk2chunk", "from-chunk-relative"])
        if route == "from-chunk-relative" and not (ws <= blocks[0][0] and blocks[-1][1] <= we):
            route = "ctor"  # the classmethod rebuilds from what is ON the chunk: a twin only when nothing is cut off
        holder = []
        if route == "from-chunk-relative":
            from inscripta.biocantor.gene.transcript import TranscriptInterval

            def rebuilt():
                b0 = on_chunk()
                return TranscriptInterval.from_chunk_relative_location(
                    b0.chunk_relative_location, cds=b0.cds, transcript_id="tx", sequence_name="chr")

            ctor = E.outcome(lambda: holder.append(rebuilt()) or 1)
        elif route == "ctor":
            ctor = E.outcome(lambda: holder.append(on_chunk()) or 1)
        elif route == "liftover":
            ctor = E.outcome(lambda: holder.append(A.liftover_to_parent_or_seq_chunk_parent(chunk)) or 1)
        else:  # first built on some other chunk (which may cut or miss it), then lifted to the target chunk
            ctor = E.outcome(lambda: holder.append(
                on_chunk(other_chunk()).liftover_to_parent_or_seq_chunk_parent(chunk)) or 1)
        ev.append(twin_row(A, holder[0] if holder else None, blocks, st, cds, frames, R, ws, we, route, ctor, on_chunk))
        if holder and rnd.random() < 0.5:
            # the chromosome-level conversions of the chunk-built transcript, judged by the C06 trace specification
            B, o = holder[0], E.outcome
            n = sum(b[1] - b[0] for b in blocks)
            m = sum(b[1] - b[0] for b in cds) if cds else 0
            rng_p = range(-1, G + 1)
            aa = [o(lambda p=p: B.cds.sequence_pos_to_amino_acid(p)) for p in rng_p] if (cds and B.cds is not None) \
                else [["x", "CdsMissingOnChunk"] for _ in rng_p]
            pos_ev.append(["txpos", [blocks, st], [cds, st] if cds else [[], "e"], G,
                           [o(lambda p=p: B.sequence_pos_to_transcript(p)) for p in rng_p],
                           [o(lambda i=i: B.transcript_pos_to_sequence(i)) for i in range(-1, n + 1)],
                           [o(lambda p=p: B.sequence_pos_to_cds(p)) for p in rng_p],
                           [o(lambda i=i: B.cds_pos_to_sequence(i)) for i in range(-1, m + 1)],
                           [o(lambda i=i: B.transcript_pos_to_cds(i)) for i in range(-1, n + 1)],
                           [o(lambda i=i: B.cds_pos_to_transcript(i)) for i in range(-1, m + 1)],
                           aa if cds else [o(lambda p=p: B.cds.sequence_pos_to_amino_acid(p)) for p in rng_p],
                           E.loc_outcome(lambda: B.chromosome_intron_location), E.loc_outcome(lambda: B.chromosome_span)])

        kind = rnd.choice(["none", "feature", "gene", "collection", "fcollection"])
        strand = Strand.from_symbol(st)
        chrom = Parent(id="chr", sequence=Sequence(R, Alphabet.NT_EXTENDED, id="chr", type=SequenceType.CHROMOSOME))
        if kind == "feature":
            def mk_f(par):
                return FeatureInterval([b[0] for b in blocks], [b[1] for b in blocks], strand, feature_name="f",
                                       sequence_name="chr", parent_or_seq_chunk_parent=par)
            FA = mk_f(chrom)
            h2 = []
            r2 = rnd.choice(["feature-ctor", "feature-liftover", "feature-chunk2chunk"])
            if r2 == "feature-ctor":
                c2 = E.outcome(lambda: h2.append(mk_f(chunk)) or 1)
            elif r2 == "feature-liftover":
                c2 = E.outcome(lambda: h2.append(FA.liftover_to_parent_or_seq_chunk_parent(chunk)) or 1)
            else:
                c2 = E.outcome(lambda: h2.append(mk_f(other_chunk()).liftover_to_parent_or_seq_chunk_parent(chunk)) or 1)
            ev.append(twin_row(FA, h2[0] if h2 else None, blocks, st, None, [], R, ws, we, r2, c2))
        elif kind in ("gene", "collection"):
            # the second isoform: a sub-structure of the first, or a block beyond it that extends the gene's span
            b2 = blocks[:1]
            r2 = rnd.random()
            if r2 < 0.35 and blocks[-1][1] + 1 < G:
                a2 = rnd.randrange(blocks[-1][1], G - 1)
                b2 = [[a2, rnd.randrange(a2 + 1, G + 1)]]
            elif r2 < 0.7 and blocks[0][0] >= 2:
                e2 = rnd.randrange(1, blocks[0][0] + 1)
                b2 = [[rnd.randrange(0, e2), e2]]

            def mk_gene(par, root):
                t1 = mk_tx(blocks, st, cds, root, frames=frames, parent=par, transcript_id="tx", sequence_name="chr")
                t2 = mk_tx(b2, st, None, root, parent=par, transcript_id="tx2", sequence_name="chr")
                return GeneInterval([t1, t2], gene_id="g", locus_tag="lt", sequence_name="chr",
                                    parent_or_seq_chunk_parent=par if par is not None else t1._parent_or_seq_chunk_parent)

            try:
                GA = mk_gene(None, R)
            except Exception:
                continue
            h3 = []
            if kind == "gene":
                r3 = rnd.choice(["gene-ctor", "gene-liftover"])
                if r3 == "gene-ctor":
                    c3 = E.outcome(lambda: h3.append(mk_gene(chunk, None)) or 1)
                else:
                    c3 = E.outcome(lambda: h3.append(GA.liftover_to_parent_or_seq_chunk_parent(chunk)) or 1)
                GB = h3[0] if h3 else None
                CA, CB = GA, GB
            else:
                r3 = "collection-ctor"
                CA = AnnotationCollection(genes=[GA], sequence_name="chr", parent_or_seq_chunk_parent=chrom)
                c3 = E.outcome(lambda: h3.append(AnnotationCollection(
                    genes=[mk_gene(chunk, None)], sequence_name="chr", start=ws, end=we,
                    parent_or_seq_chunk_parent=chunk)) or 1)
                CB = h3[0] if h3 else None
                GB = CB.genes[0] if CB is not None else None
            allb = sorted(blocks + b2)
            agg = ["agg", kind, r3, c3, ws, we, [allb, st], list(R)]
            if GB is None:
                ev.append(agg + [False, False, ["x", "none"], ["x", "none"], ["x", "none"], False])
                continue
            agg += [GB.to_dict() == GA.to_dict(), GB.guid == GA.guid,
                    E.outcome(lambda: [GB.start, GB.end]),
                    E.outcome(lambda: E.loc(back(GB.chunk_relative_location))),
                    E.outcome(lambda: list(str(GB.get_reference_sequence()))),
                    _same_but_own_guid(GA.to_dict(), GB.to_dict())]
            ev.append(agg)
            # every child transcript of the chunk-built gene is itself a twin of the chromosome-built child
            for i, (tA, tB) in enumerate(zip(GA.transcripts, GB.transcripts)):
                ev.append(twin_row(tA, tB, blocks if i == 0 else b2, st, cds if i == 0 else None,
                                   frames if i == 0 else [], R, ws, we, r3 + "/child", ["v", 1]))
        elif kind == "fcollection":
            def mk_fc(par):
                fs = [FeatureInterval([b[0] for b in blocks], [b[1] for b in blocks], strand, feature_name="f",
                                      sequence_name="chr", parent_or_seq_chunk_parent=par),
                      FeatureInterval([blocks[-1][0]], [blocks[-1][1]], strand, feature_name="f2",
                                      sequence_name="chr", parent_or_seq_chunk_parent=par)]
                return FeatureIntervalCollection(fs, feature_collection_name="fc", sequence_name="chr",
                                                 parent_or_seq_chunk_parent=par)
            FA = mk_fc(chrom)
            h4 = []
            r4 = rnd.choice(["fcollection-ctor", "fcollection-liftover"])
            if r4 == "fcollection-ctor":
                c4 = E.outcome(lambda: h4.append(mk_fc(chunk)) or 1)
            else:
                c4 = E.outcome(lambda: h4.append(FA.liftover_to_parent_or_seq_chunk_parent(chunk)) or 1)
            FB = h4[0] if h4 else None
            agg = ["agg", kind, r4, c4, ws, we, [blocks, st], list(R)]
            if FB is None:
                ev.append(agg + [False, False, ["x", "none"], ["x", "none"], ["x", "none"], False])
                continue
            agg += [FB.to_dict() == FA.to_dict(), FB.guid == FA.guid, E.outcome(lambda: [FB.start, FB.end]),
                    E.outcome(lambda: E.loc(back(FB.chunk_relative_location))),
                    E.outcome(lambda: list(str(FB.get_reference_sequence()))),
                    _same_but_own_guid(FA.to_dict(), FB.to_dict())]
            ev.append(agg)
            for i, (fA, fB) in enumerate(zip(FA.feature_intervals, FB.feature_intervals)):
                ev.append(twin_row(fA, fB, blocks if i == 0 else blocks[-1:], st, None, [], R, ws, we,
                                   r4 + "/child", ["v", 1]))
    flush()
    return ev, pos_ev


def _corrupt_pos(ev, rnd):
    slots = [(k, i) for k in range(4, 11) for i, o in enumerate(ev[k]) if o[0] == "v"]
    if not slots:
        return None
    k, i = rnd.choice(slots)
    ev[k][i] = ["v", ev[k][i][1] + 1]
    return ev


def _key(ev, clause):
    if clause == "chunk-codons:single-exon-offset":
        return "cds:single-exon-chunk-offset"
    if clause == "aggregate-identifier:from-chunk-location":
        return "agg:guid-from-chunk-location"
    if clause == "chunk:utr-accessors-on-cut-transcript":
        return "chunk:utr-accessors-on-cut-transcript"
    if clause == "chunk:from-chunk-relative-location-refuses-touching-blocks":
        return "chunk:from-chunk-relative-merges-touching-blocks"
    return None


def run(chk):
    quick = chk.quick
    rnd = random.Random(chk.seed * 141650939 + 7)
    chk.mc("ChunkMC", "ChunkMC.cfg", note="chunk-relative codon scan with the offset reduced mod 3 = codons fully inside "
           "the chunk: all CDS K<=2 over 0..6, all start frames, all windows")
    chk.mc("ChunkMC", "ChunkMC_code.cfg", note="the code's unreduced single-exon offset is wrong ONLY on the keyed family")
    chk.mc("ChunkMC", "ChunkMC_known.cfg", expect_violation=True, note="strict theorem refuted for the code's arithmetic")
    G = 8 if quick else 10
    items = []
    wins = [(a, b) for a in range(0, G) for b in range(a + 1, G + 1)]
    for bl in layouts(G, 3):
        n = sum(b[1] - b[0] for b in bl)
        for st in "+-":
            places = {None, (0, n), (min(1, n - 1), n), (0, max(1, n - 1)), (n // 3, max(n // 3 + 1, n - n // 4))}
            for cacb in places:
                if cacb and not cacb[0] < cacb[1]:
                    continue
                for f0 in ((0, 1, 2) if cacb else (0,)):
                    for w in (wins if not quick else rnd.sample(wins, 2)):
                        items.append((bl, st, cacb, f0, w))
    total = len(items)
    if quick:
        items = rnd.sample(items, 9000)
    elif len(items) > 400000:
        items = rnd.sample(items, 400000)
    parts = pmap(_events, [(items[i::64], G, chk.seed * 601 + i) for i in range(64)], empty=lambda: ([], []))
    evs = [e for p in parts for e in p[0]]
    pos_evs = [e for p in parts for e in p[1]]
    chk.validate("C07Trace", evs, shard=1500, label="chunk", keyfn=_key)
    chk.validate("C06Trace", pos_evs, shard=600, label="chunk-positions", corrupt=_corrupt_pos)
    chk.extra["chunk_built_transcripts_with_all_position_conversions"] = len(pos_evs)
    chk.nontrivial = len({str(e[1:8]) for e in evs})
    chk.extra["routes"] = {r: sum(1 for e in evs if e[0] == "twin" and e[7] == r) for r in sorted({e[7] for e in evs if e[0] == "twin"})}
    chk.extra["aggregate_twins"] = sum(1 for e in evs if e[0] == "agg")
    chk.extra["constants"] = {"G": G, "K": 3, "space": total, "twins_driven": len(evs)}
    chk.trusted += ["TLC", "CDS.tla / Lift.tla", "encode.py", "io.parser.seq_chunk_to_parent"]
    return chk.finish("transcripts (1..3 exons over 0..G, both strands; non-coding or CDS at 4 placements x start frames "
                      "0/1/2) built on the whole chromosome and on a chunk (constructor with chunk parent, or "
                      "liftover_to_parent_or_seq_chunk_parent) for chunk windows cutting exons, introns, CDS ends or "
                      "missing the interval: dictionary form, identifiers, chromosome blocks and codons, chunk location "
                      "lifted back, sequences, chunk-relative codons; distinct = distinct (transcript, frames, window)")
