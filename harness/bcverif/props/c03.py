"""C03 — extracted sequence = base-by-base image of the coordinate map; Sequence slicing / reverse complement /
append keep the recorded location consistent with the characters."""
import random

from bcverif import encode as E
from bcverif.runner import pmap, setup_repo_import, suite_events

NT_ALPHABETS = ["NT_STRICT", "NT_EXTENDED", "NT_STRICT_GAPPED", "NT_EXTENDED_GAPPED", "NT_STRICT_UNKNOWN"]
LETTERS = {"NT_STRICT": "ACGT", "NT_EXTENDED": "ATUCGNWSMKRYBDHV", "NT_STRICT_GAPPED": "ACGT-",
           "NT_EXTENDED_GAPPED": "ATUCGNWSMKRYBDHV-", "NT_STRICT_UNKNOWN": "ATGCN"}


def _root(rnd, alpha, n):
    ls = LETTERS[alpha]
    return "".join(rnd.choice(ls).lower() if rnd.random() < 0.3 else rnd.choice(ls) for _ in range(n))


def _seqval(s):
    l = s.location_on_parent
    return (list(str(s)), E.loc(l) if l is not None else [[], "e"], l is not None)


def _self_overlaps(blocks):
    return any(a[0] < b[1] and b[0] < a[1] and a[0] < a[1] and b[0] < b[1]
               for i, a in enumerate(blocks) for b in blocks[i + 1:])


def _events(args):
    locs, G, seed, nchain = args
    setup_repo_import()
    from inscripta.biocantor.parent import Parent
    from inscripta.biocantor.sequence import Sequence
    from inscripta.biocantor.sequence.alphabet import Alphabet

    rnd = random.Random(seed)
    ev = []
    for (blocks, st) in locs:
        alpha = rnd.choice(NT_ALPHABETS)
        root = _root(rnd, alpha, G)
        rootseq = Sequence(root, Alphabet[alpha], id="root")
        l = E.make_loc(blocks, st, Parent(id="root", sequence=rootseq), force_compound=rnd.random() < 0.3)
        ev.append(["ext", alpha, list(root), [blocks, st], E.outcome(lambda: list(str(l.extract_sequence())))])
        # the same object asked again (a refusal does not wear off, an answer does not change), and its first block
        ev.append(["ext", alpha, list(root), [blocks, st], E.outcome(lambda: list(str(l.extract_sequence())))])
        if st == "." and blocks and blocks[0][1] > blocks[0][0]:
            b0 = l.blocks[0]
            for _ in range(2):
                ev.append(["ext", alpha, list(root), [[[b0.start, b0.end]], st],
                           E.outcome(lambda: list(str(b0.extract_sequence())))])
        if st in "+-" and not _self_overlaps(blocks) and rnd.random() < 0.5:
            # locations DERIVED from one that has already been read (strand flipped once, twice; single blocks of it):
            # each reads the parent for itself (layouts whose own blocks overlap re-sort on a flip: the keyed order finding)
            flip = {"+": "-", "-": "+"}[st]
            try:
                l2 = l.reverse_strand()
                ev.append(["ext", alpha, list(root), [blocks, flip], E.outcome(lambda: list(str(l2.extract_sequence())))])
                l3 = l2.reverse_strand()
                ev.append(["ext", alpha, list(root), [blocks, st], E.outcome(lambda: list(str(l3.extract_sequence())))])
                for blk in l.blocks[:2]:
                    list(str(blk.extract_sequence()))
                    b2 = blk.reverse_strand().reverse_strand()
                    ev.append(["ext", alpha, list(root), [[[blk.start, blk.end]], st],
                               E.outcome(lambda b2=b2: list(str(b2.extract_sequence())))])
            except Exception:
                pass
        if st == "." or nchain == 0:
            continue
        # a Sequence that records its location on the root, then a chain of operations
        try:
            data = str(l.extract_sequence())
        except Exception:
            continue
        located = rnd.random() < 0.85
        bare = E.make_loc(blocks, st)
        try:
            cur = Sequence(data, Alphabet[alpha], parent=Parent(id="root", location=bare, sequence=rootseq)
                           if located else None)
        except Exception:
            continue  # the extracted characters do not fit their own location: the "ext" event above says so
        pool = [cur]
        taint = {id(cur): _self_overlaps(blocks)}   # lineage: some ancestor sat on a self-overlapping location
        if G >= 20 and located and rnd.random() < 0.4:
            # scenario: two SPLICED pieces are concatenated, then both operands are asked again (slice, reverse
            # complement): an operation leaves its operands as they were
            half = G // 2
            try:
                def piece(lo, hi):
                    cuts = sorted(rnd.sample(range(lo, hi), 4))
                    pl = E.make_loc([[cuts[0], cuts[1]], [cuts[2], cuts[3]]], st)
                    pd = str(pl.reset_parent(Parent(id="root", sequence=rootseq)).extract_sequence())
                    return Sequence(pd, Alphabet[alpha], parent=Parent(id="root", location=pl, sequence=rootseq))

                lo_piece, hi_piece = piece(0, half), piece(half, G)
                s1, s2 = (lo_piece, hi_piece) if st == "+" else (hi_piece, lo_piece)
                p1, p2 = _seqval(s1), _seqval(s2)
                ev.append(["sop", alpha, list(root), p1[0], p1[1], p1[2], "append", [p2[0], p2[1], p2[2]],
                           E.outcome(lambda: s1.append(s2), _seqval), False])
                for sq in (s1, s2):
                    pq = _seqval(sq)
                    k = rnd.randrange(1, max(2, len(sq)))
                    ev.append(["sop", alpha, list(root), pq[0], pq[1], pq[2], "slice", [0, k, 1, False],
                               E.outcome(lambda: sq[0:k], _seqval), False])
                    ev.append(["sop", alpha, list(root), pq[0], pq[1], pq[2], "rc", [],
                               E.outcome(lambda: sq.reverse_complement(), _seqval), False])
                    pool.append(sq)
            except Exception:
                pass
        for _step in range(nchain):
            # any sequence produced so far may be asked again (also the operands of earlier concatenations): an
            # operation leaves its operands as they were
            if len(pool) > 1 and rnd.random() < 0.35:
                cur = rnd.choice(pool)
            pre = _seqval(cur)
            n = len(cur)
            r = rnd.random()
            if r < 0.45:
                a, b = rnd.randrange(-2, n + 3), rnd.randrange(-2, n + 3)
                mode = rnd.random()
                if mode < 0.12:
                    # an EMPTY window inside, at the start or at the very end (the middle piece of a split)
                    a = b = rnd.choice([0, n, rnd.randrange(0, n + 1)])
                    key, ar = slice(a, b), [a, b, 1, False]
                elif mode < 0.6:
                    key, ar = slice(a, b), [a, b, 1, False]
                elif mode < 0.7:
                    key, ar = slice(None, b), [0, b, 1, True]
                elif mode < 0.8:
                    key, ar = slice(a, None), [a, n, 1, True]
                elif mode < 0.9:
                    key, ar = slice(a, b, 2), [a, b, 2, False]
                else:
                    key, ar = slice(a, b, 1), [a, b, 1, False]
                res = []
                o = E.outcome(lambda: res.append(cur[key]) or res[0], _seqval)
                ev.append(["sop", alpha, list(root), pre[0], pre[1], pre[2], "slice", ar, o, taint.get(id(cur), False)])
            elif r < 0.55:
                i = rnd.randrange(-n - 1, n + 2)
                res = []
                o = E.outcome(lambda: res.append(cur[i]) or res[0], _seqval)
                ev.append(["sop", alpha, list(root), pre[0], pre[1], pre[2], "index", [i], o, taint.get(id(cur), False)])
            elif r < 0.75:
                res = []
                o = E.outcome(lambda: res.append(cur.reverse_complement()) or res[0], _seqval)
                ev.append(["sop", alpha, list(root), pre[0], pre[1], pre[2], "rc", [], o, taint.get(id(cur), False)])
            else:
                # another located piece: mostly a run that continues 5'->3', sometimes anything
                cl = cur.location_on_parent
                other = None
                try:
                    if cl is not None and len(cl) > 0 and rnd.random() < 0.7:
                        if cl.strand.to_symbol() == "+":
                            s0 = rnd.randrange(cl.end, G + 1)
                            e0 = rnd.randrange(s0, G + 1)
                        else:
                            e0 = rnd.randrange(0, cl.start + 1)
                            s0 = rnd.randrange(0, e0 + 1)
                        ol = E.make_loc([[s0, e0]], cl.strand.to_symbol())
                        if e0 - s0 >= 3 and rnd.random() < 0.5:  # a spliced (two-block) continuation
                            m0 = rnd.randrange(s0 + 1, e0 - 1)
                            ol = E.make_loc([[s0, m0], [m0 + 1, e0]], cl.strand.to_symbol())
                    else:
                        s0 = rnd.randrange(0, G + 1)
                        ol = E.make_loc([[s0, rnd.randrange(s0, G + 1)]], rnd.choice("+-"))
                    od = str(ol.reset_parent(Parent(id="root", sequence=rootseq)).extract_sequence()) if len(ol) else ""
                    if cur.parent is not None and cur.parent.sequence is None:
                        # after reverse_complement the parent keeps only strand/location: same shape for the operand
                        other = Sequence(od, Alphabet[alpha], parent=Parent(location=ol))
                    else:
                        other = Sequence(od, Alphabet[alpha], parent=Parent(id="root", location=ol, sequence=rootseq)
                                         if located else None)
                except Exception:
                    other = None
                if len(pool) > 1 and rnd.random() < 0.3:
                    # an operand that is itself the result of earlier operations (multi-block), of the same parent shape
                    cand = rnd.choice(pool)
                    try:
                        same_shape = (cand.parent is None and cur.parent is None) or (
                            cand.parent is not None and cur.parent is not None
                            and cur.parent.equals_except_location(cand.parent)
                            and (cand.parent.location is None) == (cur.parent.location is None))
                    except Exception:
                        same_shape = False
                    if same_shape:
                        other = cand
                if other is None:
                    continue
                ov = _seqval(other)
                res = []
                o = E.outcome(lambda: res.append(cur.append(other)) or res[0], _seqval)
                ev.append(["sop", alpha, list(root), pre[0], pre[1], pre[2], "append", [ov[0], ov[1], ov[2]], o,
                           taint.get(id(cur), False) or taint.get(id(other), False)])
            if res:
                t_new = taint.get(id(cur), False) or (r >= 0.75 and other is not None and taint.get(id(other), False))
                cur = res[0]
                taint[id(cur)] = bool(t_new)
                pool.append(cur)
    return ev


def _key(ev, clause):
    if clause in ("slice:selfoverlap-order", "revcomp:selfoverlap-order", "append:selfoverlap-order"):
        return "loc:selfoverlap-order"
    if clause == "slice:empty-at-end-of-compound-location":
        return "seq:empty-slice-at-end-of-compound-location"
    return None


def run(chk):
    quick = chk.quick
    rnd = random.Random(chk.seed * 2750159 + 3)
    chk.mc("SeqMC", "SeqMC.cfg", note="Sequence calculator over a mixed-case IUPAC/gapped root: Slice/RevComp/Append "
           "chains to depth 4; Consistent, Directed, SplitLaw invariants, RevCompTwice")
    chk.mc("SeqMC", "SeqMC_neg.cfg", expect_violation=True, note="reverse complement that keeps the base order")
    G = 6 if quick else 8
    locs = E.enum_locs(G, 3)
    if quick:
        locs = E.enum_locs(5, 3) + rnd.sample(locs, 1500)
    locs = locs + [(b, ".") for (b, s) in rnd.sample(locs, 100)]
    nsh = 64
    parts = pmap(_events, [(locs[i::nsh], G, chk.seed * 613 + i, 4) for i in range(nsh)])
    evs = [e for p in parts for e in p]
    from bcverif.props.c01 import _random_locs

    big = _random_locs(rnd, 300 if quick else 4000, 400, 6)
    parts = pmap(_events, [(big[i::16], 400, chk.seed * 617 + i, 3) for i in range(16)])
    evs += [e for p in parts for e in p]
    # longer chains on a mid-size root: room for spliced operands, and for asking earlier operands again
    mid = _random_locs(rnd, 900 if quick else 8000, 30, 3)
    parts = pmap(_events, [(mid[i::16], 30, chk.seed * 619 + i, 9) for i in range(16)])
    evs += [e for p in parts for e in p]
    # leg S: the calls the repository's own tests make, judged with the same clauses
    evs += suite_events(chk, "C03Trace")
    chk.validate("C03Trace", evs, shard=1500, label="seq", keyfn=_key)
    chk.nontrivial = len({(e[0], str(e[3]) if e[0] == "ext" else str(e[4:9])) for e in evs})
    chk.exhaustive = not quick
    chk.extra["constants"] = {"G": G, "K": 3, "locations": len(locs),
                              "ext_events": sum(1 for e in evs if e[0] == "ext"),
                              "sequence_op_events": sum(1 for e in evs if e[0] == "sop")}
    chk.trusted += ["TLC", "SeqAlg.tla + Tables!Comp (derived from IUPAC base sets)", "encode.py projections"]
    return chk.finish("extract_sequence for every location of Locs(G,3) over random roots of every nucleotide "
                      "alphabet (both cases, IUPAC, gaps); chains of slice (explicit, open, stepped, negative, "
                      "out-of-range bounds) / index / reverse_complement / append on located and bare Sequence "
                      "objects; distinct = distinct (op, operand) tuples")
