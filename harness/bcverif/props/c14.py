"""C14 — BED12 export is valid BED and reproduces the interval in chromosome and chunk coordinates."""
import random

from bcverif import encode as E
from bcverif.props.c05 import layouts
from bcverif.props.c06 import cds_blocks, mk_tx
from bcverif.runner import pmap, setup_repo_import


def read_bed12(line):
    """the independent 12-column reader"""
    c = line.rstrip("\n").split("\t")
    if len(c) != 12:
        raise ValueError("not 12 columns: %d" % len(c))
    ints = lambda s: [int(x) for x in s.split(",") if x != ""]  # noqa: E731
    return [c[0], int(c[1]), int(c[2]), c[3], int(c[4]), c[5], int(c[6]), int(c[7]), c[8], int(c[9]), ints(c[10]),
            ints(c[11])]


def chunk_parent(root, ws, we):
    from inscripta.biocantor.io.parser import seq_chunk_to_parent

    return seq_chunk_to_parent(root[ws:we], "chr", ws, we)


def _events(args):
    items, G, seed = args
    setup_repo_import()
    from inscripta.biocantor.gene.feature import FeatureInterval
    from inscripta.biocantor.location.strand import Strand

    rnd = random.Random(seed)
    ev = []
    for (blocks, st, cacb) in items:
        root = "".join(rnd.choice("ACGT") for _ in range(G))
        cds = cds_blocks(blocks, st, *cacb) if cacb else None
        lo, hi = blocks[0][0], blocks[-1][1]
        windows = [None] + [(ws, we) for ws in range(0, lo + 1) for we in range(hi, G + 1)]
        if len(windows) > 5:
            windows = [None] + rnd.sample(windows[1:], 4)
        # a chunk that lies on the MINUS strand of the chromosome: chunk coordinates are the mirror image
        windows.append(rnd.choice(windows[1:]) + ("-",))
        for w in windows:
            minus = bool(w) and len(w) == 3
            par = (E.chunk_parent(root, w[0], w[1], minus=True) if minus else chunk_parent(root, *w)) if w else None
            for kind in ("tx", "feat"):
                if kind == "tx":
                    # the annotated start frame (0 / 1 / 2) is no part of a BED record: thick bounds = CDS bounds
                    frames = None
                    if cds:
                        from bcverif.props.c05 import _consistent_frames

                        frames = list(_consistent_frames(cds, st, rnd.choice([0, 1, 2])))
                    obj = mk_tx(blocks, st, cds, root, frames=frames, parent=par, transcript_symbol="sym1",
                                sequence_name="chr")
                    # the name column: an attribute of the interval (data attributes and the shared id / name / guid
                    # accessors alike) or, when there is no such attribute, the text itself
                    nm = rnd.choice(["transcript_symbol", "literal name", "transcript_id", "name", "id", "guid", "strand"])
                    want = {"transcript_symbol": "sym1", "literal name": "literal name", "transcript_id": "None",
                            "name": "sym1", "id": "None", "guid": None, "strand": None}[nm]
                else:
                    if cds:
                        continue
                    if w is None and rnd.random() < 0.4:
                        # the other public constructor (from a location), with a name AND an identifier: the name column
                        # is what the CALLER said, not what the object now reports about itself
                        from inscripta.biocantor.location.location_impl import CompoundInterval

                        loc = CompoundInterval([b[0] for b in blocks], [b[1] for b in blocks], Strand.from_symbol(st))
                        obj = FeatureInterval.from_location(loc, feature_name="fn", feature_id="fid", sequence_name="chr")
                        nm, want = rnd.choice([("feature_name", "fn"), ("feature_id", "fid"), ("name", "fn"), ("id", "fid")])
                    else:
                        obj = FeatureInterval([b[0] for b in blocks], [b[1] for b in blocks], Strand.from_symbol(st),
                                              feature_name="fn", sequence_name="chr",
                                              parent_or_seq_chunk_parent=par if par else None)
                        nm, want = rnd.choice([("feature_name", "fn"), ("xyz", "xyz"), ("name", "fn"), ("id", "None"),
                                               ("guid", None)])
                if want is None:
                    want = str(getattr(obj, nm))  # read before the export
                if rnd.random() < 0.25:
                    E.warm(obj)  # an interval that was already asked everything else
                # (chromosome coordinates are the documented default: half of those calls do not name the flag)
                if w is None and rnd.random() < 0.5:
                    o = E.outcome(lambda: read_bed12(str(obj.to_bed12(name=nm))))
                else:
                    o = E.outcome(lambda: read_bed12(str(obj.to_bed12(name=nm, chromosome_relative_coordinates=w is None))))
                ev.append(["bed", [blocks, st], [cds, st] if (cds and kind == "tx") else [[], "e"], w[0] if w else 0,
                           w is not None, want, o, w[1] if minus else -1])
                if w is not None and rnd.random() < 0.35:
                    # an object that LIVES on a chunk, asked without naming the flag: chromosome coordinates are the default
                    od = E.outcome(lambda: read_bed12(str(obj.to_bed12(name=nm))))
                    ev.append(["bed", [blocks, st], [cds, st] if (cds and kind == "tx") else [[], "e"], 0, False, want, od, -1])
                if rnd.random() < 0.5:
                    # the same object exported again (possibly after an export in the other mode): the record is the same
                    if w is not None and rnd.random() < 0.5:
                        E.outcome(lambda: str(obj.to_bed12()))
                    o2 = E.outcome(lambda: read_bed12(str(obj.to_bed12(name=nm, chromosome_relative_coordinates=w is None))))
                    ev.append(["bed", [blocks, st], [cds, st] if (cds and kind == "tx") else [[], "e"], w[0] if w else 0,
                               w is not None, want, o2, w[1] if minus else -1])
    return ev


def run(chk):
    quick = chk.quick
    rnd = random.Random(chk.seed * 86028121 + 14)
    chk.mc("BEDMC", "BEDMC.cfg", note="encode (as to_bed12 computes) then decode: all transcripts K<=3 over 0..5, all CDS "
           "bounds, chromosome mode and every chunk offset; RecordValid, RoundTrip")
    chk.mc("BEDMC", "BEDMC_neg.cfg", expect_violation=True, note="block starts relative to the chromosome start in "
           "chunk mode (the code before fix 3cbc31f)")
    chk.mc("BEDMC", "BEDMC_neg2.cfg", expect_violation=True, note="block sizes / offsets taken from the chromosome blocks "
           "in chunk mode: right on every plus-strand window, refuted on a mirrored (minus-strand) chunk")
    chk.mc("BEDMC", "BEDMC_known.cfg", expect_violation=True, note="the code writes the chromosome strand on a minus-strand "
           "chunk (known finding bed:minus-chunk-keeps-chromosome-strand)")
    G = 7 if quick else 8
    items = []
    for bl in layouts(G, 3):
        n = sum(b[1] - b[0] for b in bl)
        for st in "+-":
            items.append((bl, st, None))
            for (ca, cb) in {(0, n), (0, max(1, n // 2)), (n // 2, n), (min(1, n - 1), n)}:
                if ca < cb:
                    items.append((bl, st, (ca, cb)))
    if quick:
        items = rnd.sample(items, 3000)
    parts = pmap(_events, [(items[i::64], G + 1, chk.seed * 101 + i) for i in range(64)])
    evs = [e for p in parts for e in p]
    chk.validate("C14Trace", evs, shard=4000, label="bed", keyfn=lambda ev, clause: (
        "bed:minus-chunk-keeps-chromosome-strand" if clause == "decode-strand:minus-chunk-keeps-chromosome-strand" else None))
    chk.exhaustive = not quick
    chk.nontrivial = len({(str(e[1]), str(e[2]), e[3], e[4]) for e in evs})
    chk.extra["constants"] = {"G": G, "K": 3, "records": len(evs)}
    chk.trusted += ["TLC", "BED.tla", "the 12-column reader read_bed12 (15 lines)", "io.parser.seq_chunk_to_parent"]
    return chk.finish("every transcript / feature with 1..3 blocks over 0..G, both strands, coding (4 CDS placements) or "
                      "not, in chromosome mode and in chunk mode for chunk windows containing the interval (all, or 4 "
                      "sampled per object); str(to_bed12()) read back by a 12-column reader; distinct = distinct "
                      "(blocks, cds, window, mode); one window per object lies on the MINUS strand (mirrored coordinates)")
