"""C11 — GFF3 export is well-formed and gene models survive export -> parse."""
import io
import os
import random
import re
import urllib.parse

from bcverif.props.c05 import _consistent_frames
from bcverif.props.c06 import cds_blocks, mk_tx
from bcverif.runner import pmap, setup_repo_import

SPECIAL = [";", "=", "%", "\t", "\n", "\r", " ", ">", "&", "'", "é", "😀", "%20", "%3B", "a%41", ",", '"']
WORDS = ["alpha", "Beta", "x1", "kinase", "γ-sub"]


def _text(rnd, allow_comma_quote=True):
    if allow_comma_quote and rnd.random() < 0.04:
        return rnd.choice([" ", "\t", "  ", " \t ", "\n", "\r"])  # non-empty but blank: still text to be carried
    parts = []
    for _ in range(rnd.randrange(1, 4)):
        parts.append(rnd.choice(WORDS))
        if rnd.random() < 0.6:
            c = rnd.choice(SPECIAL)
            if not allow_comma_quote and c in (",", '"'):
                c = ";"
            parts.append(c)
    return "".join(parts)


def lex(text):
    """independent 9-column lexer: (rows, fasta_seen)"""
    rows = []
    fasta = False
    for line in text.split("\n"):
        if line.startswith("##FASTA"):
            fasta = True
            break
        if not line or line.startswith("#"):
            continue
        cols = line.split("\t")
        attrs, raw_ok = [], True
        if len(cols) >= 9:
            for pair in cols[8].split(";"):
                if pair.count("=") != 1:
                    raw_ok = False
                    continue
                k, v = pair.split("=")
                attrs.append([urllib.parse.unquote(k), [urllib.parse.unquote(x) for x in v.split(",")]])
        if "\r" in line:
            raw_ok = False
        try:
            s, e = int(cols[3]), int(cols[4])
        except Exception:
            s, e = -1, -2
        rows.append([len(cols), cols[0], cols[1] if len(cols) > 1 else "", cols[2] if len(cols) > 2 else "", s, e,
                     cols[5] if len(cols) > 5 else "", cols[6] if len(cols) > 6 else "", cols[7] if len(cols) > 7 else "",
                     attrs, raw_ok])
    return rows, fasta


def normalise(text):
    """file text up to the opaque ID / Parent values, the order of attributes within a row and the order of rows
    (isoforms of a gene that start at the same position may swap)"""
    out = []
    for line in text.split("\n"):
        if line.startswith("##FASTA"):
            out.append("##FASTA...")
            break
        cols = line.split("\t")
        if len(cols) == 9:
            pairs = []
            for pair in cols[8].split(";"):
                k, _, v = pair.partition("=")
                if k in ("ID", "Parent"):
                    v = re.sub(r"[0-9a-f]{8}-[0-9a-f]{4}-[0-9a-f]{4}-[0-9a-f]{4}-[0-9a-f]{12}", "GUID", v)
                pairs.append((k, v))
            cols[8] = ";".join("%s=%s" % kv for kv in sorted(pairs))
        out.append("\t".join(cols))
    return "\n".join(sorted(out))


def _gen_collection(rnd, reparse_safe, with_seq, chunk, narrow=False):
    from inscripta.biocantor.gene.biotype import Biotype
    from inscripta.biocantor.gene.collections import AnnotationCollection
    from inscripta.biocantor.gene.feature import FeatureInterval, FeatureIntervalCollection
    from inscripta.biocantor.gene.gene import GeneInterval
    from inscripta.biocantor.io.parser import seq_chunk_to_parent
    from inscripta.biocantor.location.strand import Strand
    from inscripta.biocantor.parent import Parent, SequenceType
    from inscripta.biocantor.sequence import Sequence
    from inscripta.biocantor.sequence.alphabet import Alphabet

    L = rnd.choice([120, 120, 121, 181, 119, 61 + 60 * rnd.randrange(1, 3)])  # lengths around the FASTA line width (60) too
    R = "".join(rnd.choice("ACGT") for _ in range(L))
    off = 0
    par = None
    if with_seq:
        if chunk:
            off = rnd.randrange(0, 10)
            # narrow: a window that ends in the middle of the annotation -- genes straddle its end (an isoform inside, one
            # outside) or lie beyond it; the chromosome-coordinate export is about the chromosome structure all the same
            hi = rnd.randrange(18, 40) if narrow else L - 3
            par = seq_chunk_to_parent(R[off:hi], "chr1", off, hi)
        else:
            par = Parent(id="chr1", sequence=Sequence(R, Alphabet.NT_EXTENDED_GAPPED, id="chr1", type=SequenceType.CHROMOSOME))
    T = lambda: _text(rnd, allow_comma_quote=not reparse_safe)  # noqa: E731

    def quals(share=None):
        q = {}
        for _ in range(rnd.randrange(0, 3)):
            # keys whose lower-case form differs from their case-FOLDED form are keys like any other (documented: keys
            # are lower-cased)
            k = rnd.choice(["note", "Note2", "db xref", "k;ey", "função", "e=q", "Straße", "µmol_per_l", "ΟΔΟΣ", "ǅ"]) \
                if not reparse_safe else rnd.choice(["note", "note2", "db_xref", "funcao", "straße", "µmol_per_l", "οδος"])
            q[k] = [T() for _ in range(rnd.randrange(1, 3))]
        # (only in the leg that is not re-parsed: the library writes such a pair as two tags of one row, a re-export as one)
        if q and not reparse_safe and rnd.random() < 0.15:
            # two keys of one object that are EQUAL after the documented lower-casing: one tag with the union of the values
            k0 = rnd.choice(sorted(q))
            twin_key = k0.upper() if k0.upper() != k0 else k0.lower()
            if twin_key != k0 and twin_key not in q:
                q[twin_key] = [T() for _ in range(rnd.randrange(1, 3))]
        if share and rnd.random() < 0.6:
            # a child that has a qualifier key of its parent's with values of its own
            ks = rnd.choice(sorted(share))
            # (sometimes in another case than the parent spells it; never the capitalised GFF3-reserved spellings like Note)
            q[ks.upper() if (not reparse_safe and rnd.random() < 0.3 and ks.upper() not in q) else ks] = [T() for _ in range(rnd.randrange(1, 3))]
        return q

    model, genes, fcs = [], [], []
    pos = 12
    for gi in range(rnd.randrange(1, 4) if not narrow else 1):
        st = rnd.choice("+-")
        k = rnd.randrange(1, 4) if not narrow else rnd.randrange(2, 4)
        blocks = []
        p = pos
        for _ in range(k):
            s = p + rnd.randrange(0, 4)
            e = s + rnd.randrange(3, 12)
            blocks.append([s, e])
            p = e + rnd.choice([0, 0, 2, 5])  # 0-bp gaps included
        if blocks[-1][1] > L - 6:
            break
        if rnd.random() < 0.25 and not reparse_safe:
            fs = [FeatureInterval([b[0] for b in blocks], [b[1] for b in blocks], Strand.from_symbol(st),
                                  feature_name=T(), feature_id="fid%d" % gi, feature_types=["promoter"], sequence_name="chr1",
                                  qualifiers=quals(), parent_or_seq_chunk_parent=par)]
            fcs.append(FeatureIntervalCollection(fs, feature_collection_name=T(), feature_collection_id="fc%d" % gi,
                                                 locus_tag="flt%d" % gi, sequence_name="chr1", qualifiers=quals(),
                                                 parent_or_seq_chunk_parent=par))
            model.append(["fc", blocks[0][0], blocks[-1][1], [[blocks, st]]])
        else:
            txs, tmodel = [], []
            gquals = quals()
            gtype = rnd.choice([Biotype.protein_coding, Biotype.lncRNA])
            for ti in range(rnd.randrange(1, 3) if not narrow else 2):
                tb = blocks if ti == 0 else (blocks[-1:] if (narrow and rnd.random() < 0.7) else blocks[:max(1, len(blocks) - 1)])
                n = sum(b[1] - b[0] for b in tb)
                coding = rnd.random() < 0.7 and n >= 6
                cds = frames = None
                if coding:
                    ca = rnd.randrange(0, n - 4)
                    cb = rnd.randrange(ca + 3, n + 1)
                    cds = cds_blocks(tb, st, ca, cb)
                    frames = list(_consistent_frames(cds, st, rnd.choice([0, 0, 1, 2])))
                    # (not on a sequence chunk: chunk-relative frames are documented to assume an uninterrupted frame)
                    if len(cds) > 1 and not chunk and rnd.random() < 0.3:
                        # annotated frames that do NOT follow from the block lengths (the documented way to model an
                        # indel / programmed frameshift): all zero, or arbitrary -- they are data, and must come back
                        frames = [0] * len(cds) if rnd.random() < 0.5 else [rnd.randrange(3) for _ in cds]
                ttype = gtype if (reparse_safe and rnd.random() < 0.7) else rnd.choice([Biotype.protein_coding, Biotype.lncRNA,
                                                                                         Biotype.ncRNA])
                txs.append(mk_tx(tb, st, cds, None, frames=frames, parent=par, transcript_id="tx%d_%d" % (gi, ti),
                                 transcript_symbol=T(), transcript_type=ttype, sequence_name="chr1",
                                 protein_id=("prot%d_%d" % (gi, ti)) if coding else None, product=T() if coding else None,
                                 qualifiers=quals(gquals)))
                tmodel.append([tb, st, cds or [], frames or []])
            genes.append(GeneInterval(txs, gene_id="gene%d" % gi, gene_symbol=T(), gene_type=gtype, locus_tag="lt%d" % gi,
                                      sequence_name="chr1", qualifiers=gquals, parent_or_seq_chunk_parent=par))
            model.append(["gene", min(t[0][0][0] for t in tmodel), max(t[0][-1][1] for t in tmodel), tmodel])
        pos = blocks[-1][1] + rnd.randrange(0, 8)
    if not genes and not fcs:
        return None
    try:
        coll = AnnotationCollection(feature_collections=fcs, genes=genes, sequence_name="chr1",
                                    parent_or_seq_chunk_parent=par)
    except Exception:
        if narrow:
            return None
        raise
    model.sort(key=lambda m: m[1])
    return coll, model, off


def _lower_expected(q):
    out = {}
    for k, vals in q.items():
        s = out.setdefault(str(k).lower(), set())
        for v in vals:
            v = str(v)
            s.update(v.split(",") if v != "" else ["nan"])
    return [[k, sorted(v)] for k, v in sorted(out.items()) if v]


def _proj_quals(coll):
    """every qualifier value of every gene / transcript, keyed by object and key (before / after comparisons)"""
    out = []
    for gi, g in enumerate(coll.genes):
        for k, v in _lower_expected(g.qualifiers):
            out.append(["g%d:%s" % (gi, k), v])
        for ti, t in enumerate(g.transcripts):
            for k, v in _lower_expected(t.qualifiers):
                out.append(["g%d.t%d:%s" % (gi, ti, k), v])
    return out


def _proj(coll):
    out = []
    for g in sorted(coll.genes, key=lambda x: (x.start, x.end)):
        txs = sorted(g.transcripts, key=lambda t: str(t.transcript_id))
        struct = [[list(map(list, zip(t._genomic_starts, t._genomic_ends))), t.strand.to_symbol(),
                   list(map(list, zip(t.cds._genomic_starts, t.cds._genomic_ends))) if t.is_coding else [],
                   [f.value for f in t.cds.frames] if t.is_coding else []] for t in txs]
        idents = [str(g.gene_id), str(g.gene_symbol), str(g.locus_tag),
                  [[str(t.transcript_id), str(t.transcript_symbol), str(t.protein_id), str(t.product)] for t in txs]]
        biot = [str(g.gene_type), [str(t.transcript_type) for t in txs]]
        out.append([struct, idents, biot, g, txs])
    return out


def _events(args):
    seed, n = args
    setup_repo_import()
    from inscripta.biocantor.io.gff3.parser import parse_gff3_embedded_fasta, parse_standard_gff3
    from inscripta.biocantor.io.gff3.writer import collection_to_gff3
    from bcverif.runner import BUILD

    rnd = random.Random(seed)
    ev = []
    tmpdir = os.path.join(BUILD, "C11", "files")
    os.makedirs(tmpdir, exist_ok=True)
    for i in range(n):
        reparse_safe = rnd.random() < 0.5
        with_seq = rnd.random() < 0.5
        chunk = with_seq and rnd.random() < 0.4
        narrow = chunk and rnd.random() < 0.35
        try:
            built = _gen_collection(rnd, reparse_safe, with_seq, chunk, narrow)
        except Exception:
            if not narrow:
                raise
            built = None   # an interval constructor refused the narrow window: nothing to export
        if not built:
            continue
        coll, model, off = built
        chunk_mode = chunk and not narrow and rnd.random() < 0.5
        add_seq = with_seq and (chunk_mode or not chunk) and rnd.random() < 0.6
        buf = io.StringIO()
        # what the rows must decode to is fixed BEFORE the export runs (an export that alters the qualifiers it reads
        # must not be able to alter the expectation with them)
        want_attrs = {}
        for g in coll.genes:
            # from the raw qualifier dictionaries (not from the library's export_qualifiers): a gene row carries the
            # gene's qualifiers, a transcript row its own merged key-wise with its gene's (documented)
            want_attrs[str(g.guid)] = _lower_expected(g.qualifiers)
            for t in g.transcripts:
                merged_q = {k: set(v) for k, v in g.qualifiers.items()}
                for k, v in t.qualifiers.items():
                    merged_q.setdefault(k, set()).update(v)
                want_attrs[str(t.guid)] = _lower_expected(merged_q)
        src_before = _proj_quals(coll)
        try:
            # the collections are an Iterable: a list, or something that can be walked only once
            colls = [coll] if rnd.random() < 0.6 else (c for c in [coll])
            collection_to_gff3(colls, buf, add_sequences=add_seq, chromosome_relative_coordinates=not chunk_mode)
        except Exception as ex:
            from bcverif import encode as E

            if narrow and E.exc_name(ex) in E.documented_exceptions():
                continue  # a member with nothing on the chunk cannot always be written: a documented refusal
            ev.append(["gff", 0, model, [[0, type(ex).__name__, "", "", 0, 0, "", "", "", [], False]], False])
            continue
        text = buf.getvalue()
        rows, fasta = lex(text)
        shared = any(len({t.cds.guid for t in g.transcripts if t.is_coding}) < sum(1 for t in g.transcripts if t.is_coding)
                     for g in coll.genes)
        ev.append(["gff", off if chunk_mode else 0, model, rows, shared])
        if not chunk_mode and not narrow and rnd.random() < 0.4:
            # the rows asked of the members THEMSELVES, without naming any flag (chromosome coordinates are the documented
            # default of every to_gff): the same rows as the collection's export
            try:
                members = sorted(list(coll.genes) + list(coll.feature_collections), key=lambda m: m.start)
                direct = "##gff-version 3\n" + "".join(str(r) + "\n" for m in members for r in m.to_gff())
                rows2, _f2 = lex(direct)
                if sorted(map(str, rows2)) != sorted(map(str, rows)):
                    ev.append(["gff", 0, model, rows2, shared])
                rows3, _f4 = lex("##gff-version 3\n" + "".join(str(r) + "\n" for r in coll.to_gff()))
                if sorted(map(str, rows3)) != sorted(map(str, rows)):
                    ev.append(["gff", 0, model, rows3, shared])
                # ... and of every transcript / feature interval on its own: its rows (type, start, end, strand, phase)
                # are rows of the collection's export
                have = {(r[3], r[4], r[5], r[7], r[8]) for r in rows}
                for m in members:
                    for ch in m.iter_children():
                        rws, _f3 = lex("##gff-version 3\n" + "".join(str(r) + "\n" for r in ch.to_gff()))
                        if any((r[3], r[4], r[5], r[7], r[8]) not in have for r in rws):
                            raise AttributeError("rows of a member's own to_gff() are not rows of the collection's export")
            except Exception as ex:
                ev.append(["gff", 0, model, [[0, type(ex).__name__, "", "", 0, 0, "", "", "", [], False]], False])
        # escaping: gene and transcript rows decode back to the source qualifiers
        byid = {r[9][0][1][0]: r for r in rows if r[9] and r[9][0][0] == "ID"}
        for g in coll.genes:
            r = byid.get(str(g.guid))
            if r:
                ev.append(["attrs", "gene", want_attrs[str(g.guid)], r[9]])
            for t in g.transcripts:
                r = byid.get(str(t.guid))
                if r:
                    ev.append(["attrs", "transcript", want_attrs[str(t.guid)], r[9]])
        # exporting is a read: the collection's own qualifiers are what they were
        ev.append(["attrs", "source-unchanged-by-export", src_before, [[kv[0], kv[1]] for kv in _proj_quals(coll)]])
        # export -> parse -> export (comma / double quote excluded, chromosome coordinates)
        if reparse_safe and not chunk_mode:
            path = os.path.join(tmpdir, "f_%d_%d.gff3" % (seed, i))
            open(path, "w").write(text)
            src = _proj(coll)
            # documented: children are written with their parent's qualifiers merged in, so that is what comes back
            def merged(t, g):
                keys = {k for k, _ in _lower_expected(t.qualifiers)}
                return [kv for kv in _lower_expected(t.export_qualifiers(g.export_qualifiers())) if kv[0] in keys]

            srcp = [[s[0], s[1], s[2], [_lower_expected(s[3].qualifiers), [merged(t, s[3]) for t in s[4]]]]
                    for s in src]
            try:
                if add_seq and rnd.random() < 0.5:
                    # the sequence in a FASTA file of its own (collection_to_fasta), the rows in a GFF3 file without one
                    from inscripta.biocantor.io.fasta.fasta import collection_to_fasta
                    from inscripta.biocantor.io.gff3.parser import parse_gff3_fasta

                    fa = path + ".fa"
                    with open(fa, "w") as fh:
                        collection_to_fasta([coll], fh)
                    b0 = io.StringIO()
                    collection_to_gff3([coll], b0, add_sequences=False)
                    open(path, "w").write(b0.getvalue())
                    try:
                        recs = list(parse_gff3_fasta(path, fa))
                        # the FASTA file by an independent reading: one record, named as the sequence, the same residues
                        lines = open(fa).read().splitlines()
                        heads = [ln for ln in lines if ln.startswith(">")]
                        if len(heads) != 1 or heads[0][1:].split()[0] != str(coll.sequence_name) or \
                                "".join(ln.strip() for ln in lines if not ln.startswith(">")) != str(coll.sequence):
                            raise AttributeError("FASTA file does not hold the collection's sequence")
                    finally:
                        os.remove(fa)
                elif add_seq:
                    recs = list(parse_gff3_embedded_fasta(path))
                else:
                    recs = list(parse_standard_gff3(path))
                c2 = recs[0].annotation.to_annotation_collection() if not add_seq else recs[0].to_annotation_collection()
                got = _proj(c2)
                gotp = []
                for s, gsrc in zip(got, src):
                    gq = {k: v for k, v in s[3].qualifiers.items()}
                    want_keys = [k for k, _ in _lower_expected(gsrc[3].qualifiers)]
                    gene_q = [[k, sorted(map(str, gq.get(k, [])))] for k in want_keys]
                    tq = []
                    for t, tsrc in zip(s[4], gsrc[4]):
                        wk = [k for k, _ in _lower_expected(tsrc.qualifiers)]
                        tq.append([[k, sorted(map(str, t.qualifiers.get(k, [])))] for k in wk])
                    gotp.append([s[0], s[1], s[2], [gene_q, tq]])
                buf2 = io.StringIO()
                collection_to_gff3([c2], buf2, add_sequences=add_seq)
                t2 = buf2.getvalue()
                seq_ok = (c2.sequence is not None and str(c2.sequence) == str(coll.sequence)) if add_seq else True
                ev.append(["reparse", srcp, ["v", gotp], t2 == text, bool(add_seq), bool(seq_ok),
                           normalise(t2) == normalise(text)])
            except Exception as ex:
                ev.append(["reparse", srcp, ["x", type(ex).__name__ + ":" + str(ex)[:80]], False, bool(add_seq), False, False])
            finally:
                try:
                    os.remove(path)
                except OSError:
                    pass
    return ev


def _corrupt(ev, rnd):
    """binding control: one observed row field / attribute value / re-parse verdict changed"""
    if ev[0] == "gff" and ev[3]:
        r = rnd.choice(ev[3])
        what = rnd.choice(["start", "strand", "cols", "type"])
        if what == "start":
            r[4] += 1
            r[5] += 1
        elif what == "strand":
            r[7] = {"+": "-", "-": "+"}.get(r[7], "+")
        elif what == "cols":
            r[0] = 8
        else:
            r[3] = "exon" if r[3] != "exon" else "CDS"
        return ev
    if ev[0] == "attrs" and ev[2]:
        want = rnd.choice(ev[2])
        for kv in ev[3]:
            if kv[0] == want[0]:
                kv[1] = list(kv[1]) + ["~corrupted~"]
                return ev
        return None
    if ev[0] == "reparse" and ev[2][0] == "v" and ev[2][1]:
        ev[6] = False
        return ev
    return None


def _key(ev, clause):
    if clause == "reparse:transcript-biotype-survives":
        return "gff3:transcript-biotype-from-gene-row"
    if clause == "reexport-identical":
        return "gff3:reexport-not-byte-identical"
    if clause == "ids-unique:shared-cds":
        return "gff3:shared-cds-id"
    return None


def run(chk):
    quick = chk.quick
    chk.mc("EscapeMC", "EscapeMC.cfg", note="percent-encoding typed character by character over the structural alphabet "
           "(; = % tab LF space > , and hex digits), length <= 4: Dec(Enc(s)) = s, nothing raw, comma kept in values")
    chk.mc("EscapeMC", "EscapeMC_neg.cfg", expect_violation=True, note="'%' left unescaped when two hex digits follow")
    n = 25 if quick else 600
    parts = pmap(_events, [(chk.seed * 1201 + i, n) for i in range(32)])
    evs = [e for p in parts for e in p]
    chk.validate("C11Trace", evs, shard=400, label="gff3", keyfn=_key, corrupt=_corrupt)
    chk.nontrivial = len({str(e[2])[:400] for e in evs if e[0] == "gff"}) + sum(1 for e in evs if e[0] == "reparse")
    chk.extra["files"] = sum(1 for e in evs if e[0] == "gff")
    chk.extra["reparsed_files"] = sum(1 for e in evs if e[0] == "reparse")
    chk.extra["attribute_rows"] = sum(1 for e in evs if e[0] == "attrs")
    chk.trusted += ["TLC", "Escape.tla and the row model in C11Trace.tla", "the harness lexer (tab split, ';'/'=' split, "
                    "urllib percent-decoding) and normalise()", "gffutils (used by the library parser)"]
    return chk.finish("random collections (1-3 genes with 1-2 isoforms, coding / non-coding, both strands, start frames, "
                      "0-bp-gap CDS blocks, feature collections; qualifier keys/values and names with ; = % tab LF CR space "
                      "> & quotes unicode and literal %XX; comma and double quote only outside the re-parse leg), with and "
                      "without embedded FASTA, chromosome and chunk-relative modes; distinct = distinct files")
