"""C06 — chromosome / transcript / CDS coordinate systems of a transcript commute; UTR partition; introns."""
import random

from bcverif import encode as E
from bcverif.props.c05 import layouts
from bcverif.runner import pmap, setup_repo_import, suite_events


def tx_bases(blocks, st):
    out = []
    for b in (blocks if st == "+" else blocks[::-1]):
        rng = list(range(b[0], b[1]))
        out += rng if st == "+" else rng[::-1]
    return out


def cds_blocks(blocks, st, ca, cb):
    sub = tx_bases(blocks, st)[ca:cb]
    lo, hi = min(sub), max(sub) + 1
    return [[max(b[0], lo), min(b[1], hi)] for b in blocks if max(b[0], lo) < min(b[1], hi)]


def mk_tx(blocks, st, cds, root, frames=None, **kw):
    from inscripta.biocantor.gene.cds_frame import CDSFrame
    from inscripta.biocantor.gene.transcript import TranscriptInterval
    from inscripta.biocantor.location.strand import Strand
    from inscripta.biocantor.parent import Parent, SequenceType
    from inscripta.biocantor.sequence import Sequence
    from inscripta.biocantor.sequence.alphabet import Alphabet

    par = kw.pop("parent", None)
    if par is None and root is not None:
        par = Parent(id="chr", sequence=Sequence(root, Alphabet.NT_EXTENDED, id="chr", type=SequenceType.CHROMOSOME))
    args = dict(exon_starts=[b[0] for b in blocks], exon_ends=[b[1] for b in blocks], strand=Strand.from_symbol(st),
                parent_or_seq_chunk_parent=par)
    if cds:
        if frames is None:
            from bcverif.props.c05 import _consistent_frames

            frames = _consistent_frames(cds, st, 0)
        args.update(cds_starts=[b[0] for b in cds], cds_ends=[b[1] for b in cds],
                    cds_frames=[CDSFrame(f) for f in frames])
    args.update(kw)
    return TranscriptInterval(**args)


def _tx_events(args):
    items, G, seed = args
    setup_repo_import()
    from inscripta.biocantor.location.strand import Strand

    rnd = random.Random(seed)
    strands = {"+": Strand.PLUS, "-": Strand.MINUS}
    ev = []
    for (blocks, st, cacb) in items:
        root = "".join(rnd.choice("ACGT") for _ in range(G))
        cds = cds_blocks(blocks, st, *cacb) if cacb else None
        # start frames 0 / 1 / 2: no coordinate conversion (nor the amino-acid index) depends on the annotated frame
        frames = None
        if cds:
            from bcverif.props.c05 import _consistent_frames

            frames = list(_consistent_frames(cds, st, rnd.choice([0, 0, 1, 2])))
        tx = mk_tx(blocks, st, cds, root if rnd.random() < 0.7 else None, frames=frames)
        if rnd.random() < 0.3:  # a transcript that has already been asked everything else
            E.warm(tx)
            if tx.cds is not None:
                E.warm(tx.cds)
        n = len(tx)
        m = sum(b[1] - b[0] for b in cds) if cds else 0
        rng_p = range(-1, G + 1)
        o = E.outcome
        ev.append(["tx", [blocks, st], [cds, st] if cds else [[], "e"], G,
                   [o(lambda p=p: tx.sequence_pos_to_transcript(p)) for p in rng_p],
                   [o(lambda i=i: tx.transcript_pos_to_sequence(i)) for i in range(-1, n + 1)],
                   [o(lambda p=p: tx.sequence_pos_to_cds(p)) for p in rng_p],
                   [o(lambda i=i: tx.cds_pos_to_sequence(i)) for i in range(-1, m + 1)],
                   [o(lambda i=i: tx.transcript_pos_to_cds(i)) for i in range(-1, n + 1)],
                   [o(lambda i=i: tx.cds_pos_to_transcript(i)) for i in range(-1, m + 1)],
                   [o(lambda p=p: tx.cds.sequence_pos_to_amino_acid(p)) for p in rng_p],
                   E.loc_outcome(tx.get_5p_interval), E.loc_outcome(tx.get_3p_interval),
                   E.loc_outcome(lambda: tx.chromosome_intron_location), E.loc_outcome(lambda: tx.chromosome_span)])
        if len(blocks) >= 2 and rnd.random() < 0.3:
            # two transcripts that carry the SAME explicit identifier, lie on the same chromosome and share their outer
            # bounds and strand, but differ in an inner splice site (an edited copy: to_dict -> change -> from_dict keeps
            # the GUID).  The first is asked first; the second answers for its OWN exon structure
            import uuid

            gid = uuid.UUID(int=rnd.getrandbits(128))
            b2 = [list(b) for b in blocks]
            i = rnd.randrange(len(b2) - 1)
            if b2[i][1] - b2[i][0] >= 2:
                b2[i][1] -= 1
            elif b2[i + 1][1] - b2[i + 1][0] >= 2:
                b2[i + 1][0] += 1
            else:
                b2 = None
            if b2:
                par_ = tx._parent_or_seq_chunk_parent
                t1 = mk_tx(blocks, st, None, None, parent=par_, guid=gid)
                t1.chromosome_location, t1.transcript_pos_to_sequence(0)
                t2 = mk_tx(b2, st, None, None, parent=par_, guid=gid)
                n2 = len(t2)
                ev.append(["tx", [b2, st], [[], "e"], G,
                           [o(lambda p=p: t2.sequence_pos_to_transcript(p)) for p in rng_p],
                           [o(lambda i=i: t2.transcript_pos_to_sequence(i)) for i in range(-1, n2 + 1)],
                           [o(lambda p=p: t2.sequence_pos_to_cds(p)) for p in rng_p],
                           [o(lambda i=i: t2.cds_pos_to_sequence(i)) for i in range(-1, 1)],
                           [o(lambda i=i: t2.transcript_pos_to_cds(i)) for i in range(-1, n2 + 1)],
                           [o(lambda i=i: t2.cds_pos_to_transcript(i)) for i in range(-1, 1)],
                           [o(lambda p=p: t2.cds.sequence_pos_to_amino_acid(p)) for p in rng_p],
                           E.loc_outcome(t2.get_5p_interval), E.loc_outcome(t2.get_3p_interval),
                           E.loc_outcome(lambda: t2.chromosome_intron_location), E.loc_outcome(lambda: t2.chromosome_span)])
        if rnd.random() < 0.35:
            # the same transcript built on a sequence chunk (enclosing it, cutting it, or missing its CDS): every
            # chromosome-level conversion must answer as on the whole chromosome (txpos, as C07 records them)
            from inscripta.biocantor.io.parser import seq_chunk_to_parent

            ws = rnd.randrange(0, G)
            we = rnd.randrange(ws + 1, G + 1)
            if rnd.random() < 0.3:
                ws, we = rnd.randrange(0, blocks[0][0] + 1), rnd.randrange(blocks[-1][1], G + 1)
            B = None
            try:
                minus_chunk = rnd.random() < 0.3
                B = mk_tx(blocks, st, cds, None, frames=frames, parent=E.chunk_parent(root, ws, we, minus=minus_chunk))
                if rnd.random() < 0.3:
                    E.warm(B)
            except Exception:
                B = None
            if B is not None:
                aa = [o(lambda p=p: B.cds.sequence_pos_to_amino_acid(p)) for p in rng_p] if (cds and B.cds is not None) \
                    else [["x", "CdsMissingOnChunk"] for _ in rng_p]
                ev.append(["txpos", [blocks, st], [cds, st] if cds else [[], "e"], G,
                           [o(lambda p=p: B.sequence_pos_to_transcript(p)) for p in rng_p],
                           [o(lambda i=i: B.transcript_pos_to_sequence(i)) for i in range(-1, n + 1)],
                           [o(lambda p=p: B.sequence_pos_to_cds(p)) for p in rng_p],
                           [o(lambda i=i: B.cds_pos_to_sequence(i)) for i in range(-1, m + 1)],
                           [o(lambda i=i: B.transcript_pos_to_cds(i)) for i in range(-1, n + 1)],
                           [o(lambda i=i: B.cds_pos_to_transcript(i)) for i in range(-1, m + 1)],
                           aa if cds else [o(lambda p=p: B.cds.sequence_pos_to_amino_acid(p)) for p in rng_p],
                           E.loc_outcome(lambda: B.chromosome_intron_location), E.loc_outcome(lambda: B.chromosome_span)])
                # ... and its chunk-relative coordinate system: the C01 maps of the part that lies on the chunk
                rq = range(-1, we - ws + 1)
                ev.append(["crmap", [blocks, st], [cds, st] if cds else [[], "e"], ws, we, minus_chunk,
                           [o(lambda q=q: B.chunk_relative_pos_to_transcript(q)) for q in rq],
                           [o(lambda i=i: B.transcript_pos_to_chunk_relative(i)) for i in range(-1, n + 1)],
                           [o(lambda q=q: B.chunk_relative_pos_to_cds(q)) for q in rq],
                           [o(lambda i=i: B.cds_pos_to_chunk_relative(i)) for i in range(-1, m + 1)],
                           [o(lambda: B.chunk_relative_start), o(lambda: B.chunk_relative_end), o(lambda: B.chunk_relative_size),
                            o(lambda: B.chunk_relative_strand.to_symbol()), o(lambda: B.cds_start), o(lambda: B.cds_end),
                            o(lambda: B.chunk_relative_cds_start), o(lambda: B.chunk_relative_cds_end)],
                           [[a_, b_, rs_, E.loc_outcome(lambda a_=a_, b_=b_, rs_=rs_: B.transcript_interval_to_chunk_relative(
                               a_, b_, strands[rs_]))]
                            for (a_, b_, rs_) in [(rnd.randrange(-1, n + 1), rnd.randrange(0, n + 2), rnd.choice("+-"))
                                                  for _ in range(4)]],
                           [[a_, b_, rs_, E.loc_outcome(
                               (lambda a_=a_, b_=b_, rs_=rs_: B.cds_interval_to_chunk_relative(a_, b_, strands[rs_])) if k_ % 2 or B.cds is None
                               else (lambda a_=a_, b_=b_, rs_=rs_: B.cds.cds_interval_to_chunk_relative(a_, b_, strands[rs_])))]
                            for k_, (a_, b_, rs_) in enumerate([(rnd.randrange(-1, m + 1), rnd.randrange(0, m + 2), rnd.choice("+-"))
                                                                for _ in range(4)])]])
                # the derived accessors of the chunk-relative (and chromosome) structure
                def lo(fn):
                    return E.outcome(fn, lambda r: (E.loc(r),))

                def bl(fn):
                    def enc(r):
                        r = list(r)
                        return ([[[x.start, x.end] for x in r], r[0].strand.to_symbol() if r else "e"],)
                    return E.outcome(fn, enc)

                acc = [["chunk_relative_blocks", bl(lambda: B.chunk_relative_blocks)], ["relative_blocks", bl(lambda: B.relative_blocks)],
                       ["num_chunk_relative_blocks", o(lambda: B.num_chunk_relative_blocks)],
                       ["chunk_relative_span", lo(lambda: B.chunk_relative_span)],
                       ["chunk_relative_gaps_location", lo(lambda: B.chunk_relative_gaps_location)],
                       ["chunk_relative_intron_location", lo(lambda: B.chunk_relative_intron_location)],
                       ["chromosome_gaps_location", lo(lambda: B.chromosome_gaps_location)],
                       ["cds_location", lo(lambda: B.cds_location)],
                       ["cds_chunk_relative_location", lo(lambda: B.cds_chunk_relative_location)],
                       ["chunk_relative_cds_blocks", bl(lambda: B.chunk_relative_cds_blocks)]]
                # the chunk-relative DICTIONARY form (what is handed to the io models): the same clipped block structure
                def dform(keys):
                    def fn():
                        d = B.to_dict(chromosome_relative_coordinates=False)
                        if d[keys[0]] is None:
                            raise ValueError("no " + keys[0])
                        return d
                    return E.outcome(fn, lambda d: ([[[int(a_), int(b_)] for a_, b_ in zip(d[keys[0]], d[keys[1]])],
                                                      B.chunk_relative_strand.to_symbol()],))

                acc.append(["dict_chunk_exons", dform(("exon_starts", "exon_ends"))])
                if cds:
                    acc.append(["dict_chunk_cds", dform(("cds_starts", "cds_ends"))])
                ev.append(["cracc", [blocks, st], [cds, st] if cds else [[], "e"], ws, we, minus_chunk, acc])
                # the generic point maps of a FeatureInterval on the same chunk
                try:
                    from inscripta.biocantor.gene.feature import FeatureInterval

                    F = FeatureInterval([b[0] for b in blocks], [b[1] for b in blocks], strands[st],
                                        parent_or_seq_chunk_parent=E.chunk_parent(root, ws, we, minus=minus_chunk))
                except Exception:
                    F = None
                if F is not None:
                    ev.append(["fmap", [blocks, st], ws, we, minus_chunk,
                               [o(lambda q=q: F.chunk_relative_pos_to_feature(q)) for q in rq],
                               [o(lambda i=i: F.feature_pos_to_chunk_relative(i)) for i in range(-1, n + 1)],
                               [o(lambda p=p: F.sequence_pos_to_feature(p)) for p in rng_p],
                               [o(lambda i=i: F.feature_pos_to_sequence(i)) for i in range(-1, n + 1)]])
                    ev.append(["cracc", [blocks, st], [[], "e"], ws, we, minus_chunk,
                               [["chunk_relative_blocks", bl(lambda: F.chunk_relative_blocks)],
                                ["chunk_relative_span", lo(lambda: F.chunk_relative_span)],
                                ["chunk_relative_gaps_location", lo(lambda: F.chunk_relative_gaps_location)],
                                ["chromosome_gaps_location", lo(lambda: F.chromosome_gaps_location)]]])
        if rnd.random() < 0.5:
            # intersect(location): the interval restricted to another location (1-2 blocks, any strand, with or without
            # ), as a new transcript / feature
            from inscripta.biocantor.gene.feature import FeatureInterval

            a0 = rnd.randrange(0, G)
            b0 = rnd.randrange(a0 + 1, G + 1)
            qb = [[a0, b0]]
            if b0 - a0 >= 3 and rnd.random() < 0.5:
                m0 = rnd.randrange(a0 + 1, b0 - 1)
                qb = [[a0, m0], [m0 + 1, b0]]
            qst = rnd.choice("+-")
            # (same parent as the interval: locations on different parents are documented never to overlap)
            q = E.make_loc(qb, qst, tx.chromosome_location.parent)
            ev.append(["isect", "tx", [blocks, st], bool(cds), [qb, qst],
                       E.outcome(lambda: tx.intersect(q), lambda r: (E.loc(r.chromosome_location), bool(r.is_coding)))])
            ft = FeatureInterval([b[0] for b in blocks], [b[1] for b in blocks], strands[st],
                                 parent_or_seq_chunk_parent=tx.chromosome_location.parent)
            ev.append(["isect", "feat", [blocks, st], False, [qb, qst],
                       E.outcome(lambda: ft.intersect(q), lambda r: (E.loc(r.chromosome_location), False))])
        ents = []
        for _ in range(10):
            kind = rnd.choice(["t2s", "c2s", "s2t", "s2c"])
            rs = rnd.choice("+-")
            if kind in ("t2s", "c2s"):
                L = n if kind == "t2s" else m
                a, b = rnd.randrange(-1, L + 2), rnd.randrange(-1, L + 2)
                fn = tx.transcript_interval_to_sequence if kind == "t2s" else tx.cds_interval_to_sequence
            else:
                a, b = rnd.randrange(0, G + 1), rnd.randrange(0, G + 1)
                if a > b and rnd.random() < 0.8:
                    a, b = b, a
                fn = tx.sequence_interval_to_transcript if kind == "s2t" else tx.sequence_interval_to_cds
            ents.append([kind, a, b, rs, E.loc_outcome(lambda fn=fn, a=a, b=b, rs=rs: fn(a, b, strands[rs]))])
        ev.append(["txiv", [blocks, st], [cds, st] if cds else [[], "e"], ents])
    return ev


def _gap_events(args):
    """introns / span of transcripts whose exons overlap or nest (the other conversions are not claimed there)"""
    layouts_, seed = args
    setup_repo_import()
    ev = []
    for (blocks, st) in layouts_:
        try:
            tx = mk_tx(blocks, st, None, None)
        except Exception as ex:
            ev.append(["txgap", [blocks, st], ["x", E.exc_name(ex)], ["x", E.exc_name(ex)]])
            continue
        ev.append(["txgap", [blocks, st], E.loc_outcome(lambda: tx.chromosome_intron_location),
                   E.loc_outcome(lambda: tx.chromosome_span)])
    return ev


def overlapping_layouts(G, K):
    """2..K non-empty blocks over 0..G, sorted by (start, end), at least one pair overlapping or nested"""
    import itertools

    blocks = [(a, b) for a in range(G + 1) for b in range(a + 1, G + 1)]
    out = []
    for k in range(2, K + 1):
        for combo in itertools.combinations(blocks, k):
            if any(combo[i][1] > combo[j][0] for i in range(k) for j in range(i + 1, k)):
                out.append([list(b) for b in combo])
    return out


def _corrupt(ev, rnd):
    """binding control: one observed position answer shifted by one"""
    if ev[0] == "tx":
        slots = [(k, i) for k in range(4, 11) for i, o in enumerate(ev[k]) if o[0] == "v"]
        if not slots:
            return None
        k, i = rnd.choice(slots)
        ev[k][i] = ["v", ev[k][i][1] + 1]
        return ev
    if ev[0] == "m1" and ev[5][0] == "v":
        ev[5] = ["v", ev[5][1] + 1]
        return ev
    return None


def run(chk):
    quick = chk.quick
    rnd = random.Random(chk.seed * 49979687 + 6)
    chk.mc("TxMC", "TxMC.cfg", note="cursor converted between chr/tx/cds systems: all exon layouts K<=3 over 0..5, all "
           "(ca,cb), all start positions, all conversion paths; Denotes, InRange, Partition, Introns")
    chk.mc("TxMC", "TxMC_neg.cfg", expect_violation=True,
           note="transcript->CDS bound by the genomic span of the CDS instead of its spliced length")
    G = 7 if quick else 9
    items = []
    for bl in layouts(G, 3):
        n = sum(b[1] - b[0] for b in bl)
        for st in "+-":
            items.append((bl, st, None))
            for ca in range(0, n):
                for cb in range(ca + 1, n + 1):
                    items.append((bl, st, (ca, cb)))
    total = len(items)
    if quick:
        items = rnd.sample(items, 7000)
    nsh = 64
    parts = pmap(_tx_events, [(items[i::nsh], G + 1, chk.seed * 733 + i) for i in range(nsh)])
    evs = [e for p in parts for e in p]
    evs += suite_events(chk, "C06Trace")  # leg S: the repository's own tests, traced passively
    ol = overlapping_layouts(G, 3)
    if quick:
        ol = rnd.sample(ol, min(len(ol), 6000))
    gitems = [(b, st) for b in ol for st in "+-"]
    parts = pmap(_gap_events, [(gitems[i::32], i) for i in range(32)])
    evs += [e for p in parts for e in p]
    chk.extra["overlapping_exon_layouts"] = len(gitems)
    chk.validate("C06Trace", evs, shard=600, label="tx", corrupt=_corrupt)
    chk.exhaustive = not quick
    chk.nontrivial = len(items)
    chk.extra["constants"] = {"G": G, "K": 3, "transcripts_in_space": total, "transcripts_driven": len(items),
                              "position_calls": sum(sum(len(x) for x in e[4:11]) for e in evs if e[0] == "tx")}
    chk.trusted += ["TLC", "Tx.tla/Loc.tla Sem layer", "encode.py"]
    return chk.finish("every transcript with 1..3 non-empty non-overlapping exons (0-bp gaps incl.) over 0..G, both "
                      "strands, every transcript-relative CDS [ca,cb) and the non-coding case: every position of every "
                      "*_pos_to_* conversion in -1..G / -1..len, UTRs, introns, span, and random interval conversions; "
                      "distinct = distinct (exons, strand, CDS placement)")
