"""C15 — built-in tables and enumerated algebras: complete finite domains, judged entry by entry by TLC."""
import itertools

from bcverif.runner import setup_repo_import

IUPAC = "ATUCGNWSMKRYBDHV"


def _tables_events():
    from inscripta.biocantor import constants
    from inscripta.biocantor.gene import codon as codon_mod
    from inscripta.biocantor.gene.codon import TranslationTable

    ev = []
    for c, aa in constants.gencode.items():
        ev.append(["gencode", list(c), aa])
    for c, aa in constants.extended_gencode.items():
        ev.append(["ext", list(c), aa])
    for aa, cs in constants.aacodons.items():
        ev.append(["aacodons", aa, [list(c) for c in cs]])
    for t in TranslationTable:
        ev.append(["starts", int(t), [list(str(c)) for c in codon_mod.START_CODONS_BY_TRANSLATION_TABLE[t]]])
    return ev


def events(seed=0):
    setup_repo_import()
    from inscripta.biocantor.gene.biotype import Biotype
    from inscripta.biocantor.gene.cds_frame import CDSFrame, CDSPhase
    from inscripta.biocantor.gene.codon import Codon, TranslationTable
    from inscripta.biocantor.location.strand import Strand
    from inscripta.biocantor.sequence.alphabet import ALPHABET_TO_NUCLEOTIDE_COMPLEMENT, Alphabet
    from inscripta.biocantor.sequence.sequence import Sequence

    ev = _tables_events()
    import random

    rnd = random.Random(seed)
    triplets = ["".join(t) for t in itertools.product(IUPAC, repeat=3)]
    order = triplets[:]
    rnd.shuffle(order)  # call order is part of the quantifier for a table-backed singleton class
    for trip in order:
        text = trip if rnd.random() < 0.5 else trip.lower()
        c = Codon(text)
        # the table is an IntEnum: half the questions name it by its NCBI number, which is the same table
        byint = rnd.random() < 0.5
        tt = [c.is_start_codon_in_specific_translation_table(int(t) if byint else t) for t in
              (TranslationTable.DEFAULT, TranslationTable.STANDARD, TranslationTable.PROKARYOTE)]
        ev.append(["codon", list(trip), c.translate(strict=True), c.translate(strict=False), c.is_stop_codon,
                   c.is_strict_codon, c.is_canonical_start_codon, tt,
                   [list(str(x)) for x in c.synonymous_codons()],
                   [list(str(x)) for x in c.synonymous_codons(include_self=True)]])
    for alpha, table in ALPHABET_TO_NUCLEOTIDE_COMPLEMENT.items():
        ev.append(["complen", alpha.name, len(table)])
        for letter, comp in table.items():
            try:
                rc = str(Sequence(letter, alpha).reverse_complement())
            except Exception as e:  # judged by the spec as a wrong value
                rc = "!" + type(e).__name__
            ev.append(["comp", alpha.name, letter, comp, rc])
    for alpha in Alphabet:
        # which alphabets are nucleotide alphabets (the ones that can be complemented) is a table too
        try:
            isnt = bool(alpha.is_nucleotide_alphabet())
        except BaseException as e:  # noqa: B902
            isnt = "!" + type(e).__name__
        try:
            Sequence("A", alpha).reverse_complement()
            rc = "v"
        except BaseException as e:  # noqa: B902
            from bcverif import encode as E

            rc = E.exc_name(e)
        ev.append(["isnt", alpha.name, isnt, rc])
    for f in CDSFrame:
        for n in range(-30, 31):
            ev.append(["shift", f.value, n, f.shift(n).value])
        ev.append(["f2p", f.value, f.to_phase().value])
    for p in CDSPhase:
        ev.append(["p2f", p.value, p.to_frame().value])
    for s in Strand:
        ev.append(["srev", s.to_symbol(), s.reverse().to_symbol()])
        ev.append(["ssym", s.to_symbol(), s.value, str(s), Strand.from_symbol(s.to_symbol()).to_symbol(),
                   Strand.from_int(s.value).to_symbol()])
        for o in Strand:
            ev.append(["srel", s.to_symbol(), o.to_symbol(), s.relative_to(o).to_symbol()])
            # the enumeration is ordered (locations sort by it): the six comparison operators, and min / max / sorted,
            # describe ONE total order
            ev.append(["sord", s.to_symbol(), o.to_symbol(), bool(s < o), bool(s > o), bool(s <= o), bool(s >= o),
                       bool(s == o), bool(s != o), min(s, o).to_symbol(), max(s, o).to_symbol(),
                       [x.to_symbol() for x in sorted([s, o])], hash(s) == hash(o)])
    names = list(Biotype.__members__)
    for a in names:
        for b in names:
            ev.append(["biotype", a, b, Biotype[a] == Biotype[b] and Biotype[a].value == Biotype[b].value])
    # the tables again, after every function has been exercised (a table must not be consumed by its readers)
    ev.extend(_tables_events())
    return ev


def run(chk):
    chk.mc("TablesMC", "TablesMC.cfg", note="frame/strand/complement algebra; Tables ASSUMEs (64 codons, partition, "
           "start/stop sets vs NCBI strings, complement involution, group laws)")
    chk.mc("TablesMC", "TablesMC_neg.cfg", expect_violation=True, note="sign slip in the non-positive shift branch")
    evs = events(chk.seed)
    bad = chk.validate("C15Trace", evs, shard=10 ** 9, label="tables",
                       keyfn=lambda ev, clause: None)
    certs = {c[0]: c[1] for c in chk.last_certs}
    chk.extra["certified_domains"] = certs
    if not all(certs.values()) or len(certs) < 7:
        chk.fail_direct("domain-not-complete", {"certs": certs})
    chk.exhaustive = all(certs.values()) and len(certs) == 7
    chk.nontrivial = len({tuple(map(str, e[:3])) for e in evs})
    chk.trusted += ["TLC", "Tables.tla (NCBI compact strings for tables 1/11 transcribed by hand)",
                    "harness/bcverif/props/c15.py table dumper"]
    # binding control: flip one recorded value -> TLC must reject exactly that event
    import copy

    ctl = copy.deepcopy(evs[:50])
    ctl[7][2] = "W" if ctl[7][2] != "W" else "F"
    from bcverif.runner import Check  # noqa

    saved = (chk.violations, chk.events, chk.traces, chk.samples)
    chk.violations, chk.samples = [], list(chk.samples)
    got = chk.validate("C15Trace", ctl, shard=10 ** 9, label="control")
    rejected = [c for (_, c) in got]
    chk.violations, chk.events, chk.traces, chk.samples = saved
    chk.controls.append({"control": "flip one gencode entry", "rejected_clauses": rejected})
    if rejected != ["gencode-table"]:
        from bcverif.runner import MachineryError

        raise MachineryError("binding control not rejected as expected: %r" % (rejected,))
    return chk.finish("complete finite domains: 64 strict codons, 16^3 IUPAC triplets (random call order and case), "
                      "every letter x case x nucleotide alphabet, frames x shifts in [-30,30], strand pairs, all "
                      "biotype pairs; distinct = distinct (op, input) pairs")
