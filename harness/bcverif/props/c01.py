"""C01 — Location <-> parent coordinate maps: LocMC (Algo = Sem, exhaustive), then every public coordinate call of
the real classes over all Locs(G,K), judged by TLC (C01Trace)."""
import random

from bcverif import encode as E
from bcverif.runner import pmap, setup_repo_import, suite_events


def _parent(kind, G):
    if kind == 0:
        return None
    from inscripta.biocantor.parent import Parent
    from inscripta.biocantor.sequence import Sequence
    from inscripta.biocantor.sequence.alphabet import Alphabet

    return Parent(id="chr", sequence=Sequence("ACGTTGCAAGCTAGGCTA"[:G] if G <= 18 else "A" * G, Alphabet.NT_STRICT))


def _map_sub_events(args):
    locs, G, kind_mode = args
    setup_repo_import()
    from inscripta.biocantor.location.strand import Strand

    strands = {"+": Strand.PLUS, "-": Strand.MINUS, ".": Strand.UNSTRANDED}
    ev = []
    for n, (blocks, st) in enumerate(locs):
        kind = (n + kind_mode) % 2
        l = E.make_loc(blocks, st, _parent(kind, G), force_compound=(n % 3 == 0))
        if n % 4 in (1, 2):
            # the maps must not depend on what was asked before: warm every lazily computed member first
            for warm in (lambda: l.extract_sequence(), lambda: l.blocks, lambda: list(l.scan_blocks()),
                         lambda: l.gaps_location(), lambda: l.gap_list(), lambda: l.optimize_blocks(),
                         lambda: l.is_overlapping, lambda: str(l), lambda: hash(l), lambda: l.reverse(),
                         lambda: l.merge_overlapping(), lambda: l.parent_to_relative_pos(blocks[0][0])):
                try:
                    warm()
                except Exception:
                    pass
        ln = len(l)
        r2p = [E.outcome(lambda i=i: l.relative_to_parent_pos(i)) for i in range(-1, ln + 1)]
        p2r = [E.outcome(lambda p=p: l.parent_to_relative_pos(p)) for p in range(-1, G + 1)]
        ev.append(["map", [blocks, st], kind, G, r2p, p2r])
        entries = []
        for a in range(0, ln + 2):
            for b in range(0, ln + 2):
                if a > b and (a + b) % 3:
                    continue  # a third of the inverted requests is enough
                for rs in "+-.":
                    if rs == "." and (a + b) % 2:
                        continue
                    entries.append([a, b, rs, E.loc_outcome(
                        lambda a=a, b=b, rs=rs: l.relative_interval_to_parent_location(a, b, strands[rs]))])
        entries.append([-1, 1, "+", E.loc_outcome(lambda: l.relative_interval_to_parent_location(-1, 1, Strand.PLUS))])
        ev.append(["sub", [blocks, st], kind, entries])
        if n % 2 == 0:
            wins = []
            for (w, step, p0) in [(1, 1, 0), (2, 1, 0), (2, 3, 1), (ln, 1, 0), (max(1, ln - 1), 2, 1), (1, 2, ln - 1),
                                  (0, 1, 0), (1, 0, 0), (ln + 1, 1, 0), (1, 1, ln), (2, 1, -1)]:
                wins.append([w, step, p0, E.outcome(
                    lambda w=w, step=step, p0=p0: [["v", E.loc(x), E.pid(x)] for x in l.scan_windows(w, step, p0)])])
            ev.append(["scanw", [blocks, st], kind, wins])
    return ev


def _rel_events(args):
    outers, qs, G = args
    setup_repo_import()
    ev = []
    for (ob, ost) in outers:
        for n, (qb, qst) in enumerate(qs):
            kind = n % 2
            par = _parent(kind, G)
            outer = E.make_loc(ob, ost, par)
            q = E.make_loc(qb, qst, par)
            if n % 3 == 1:
                for warm in (lambda: outer.extract_sequence(), lambda: q.extract_sequence(), lambda: outer.blocks,
                             lambda: list(q.scan_blocks()), lambda: outer.gaps_location()):
                    try:
                        warm()
                    except Exception:
                        pass
            o1 = E.loc_outcome(lambda: outer.parent_to_relative_location(q, optimize_blocks=True))
            o2 = E.loc_outcome(lambda: q.location_relative_to(outer, optimize_blocks=False))
            ev.append(["rel", [ob, ost], [qb, qst], kind, o1, o2])
            if len(qb) == 1 and n % 2 == 0:
                # the same map through the interval classes' wrappers (a contiguous query given as start, end, strand)
                from inscripta.biocantor.gene.feature import FeatureInterval
                from inscripta.biocantor.gene.transcript import TranscriptInterval
                from inscripta.biocantor.location.strand import Strand

                S = {"+": Strand.PLUS, "-": Strand.MINUS, ".": Strand.UNSTRANDED}
                try:
                    cls = (FeatureInterval, TranscriptInterval)[(n // 2) % 2]
                    f = cls([b[0] for b in ob], [b[1] for b in ob], S[ost], parent_or_seq_chunk_parent=par)
                except Exception:
                    continue
                conv = (f.sequence_interval_to_feature if cls is FeatureInterval else f.sequence_interval_to_transcript)
                conv2 = (f.chunk_relative_interval_to_feature if cls is FeatureInterval
                         else f.chunk_relative_interval_to_transcript)
                w1 = E.loc_outcome(lambda: conv(qb[0][0], qb[0][1], S[qst]))
                w2 = E.loc_outcome(lambda: conv2(qb[0][0], qb[0][1], S[qst]))
                ev.append(["rel", [ob, ost], [qb, qst], kind, w1, w2])
    return ev


def _random_locs(rnd, n, maxc, maxk):
    out = []
    for _ in range(n):
        k = rnd.randrange(1, maxk + 1)
        st = rnd.choice("+-")
        pts = sorted(rnd.randrange(0, maxc) for _ in range(2 * k))
        blocks = [[pts[2 * i], pts[2 * i + 1]] for i in range(k)]
        if rnd.random() < 0.3 and k > 1:  # make two neighbours adjacent or overlapping
            i = rnd.randrange(k - 1)
            blocks[i + 1][0] = max(blocks[i][0], blocks[i][1] - rnd.choice([0, 0, 1, 2]))
            blocks[i + 1][1] = max(blocks[i + 1][0], blocks[i + 1][1])
        key = (lambda b: (b[0], b[1])) if st == "+" else (lambda b: (b[0], -b[1]))
        out.append((sorted(blocks, key=key), st))
    return out


def _key(ev, clause):
    if clause == "order-selfoverlap":
        return "loc:selfoverlap-order"
    if clause == "rel-selfoverlap-outer":
        return "loc:selfoverlap-outer"
    return None


def run(chk):
    quick = chk.quick
    rnd = random.Random(chk.seed * 104729 + 1)
    chk.mc("LocMC", "LocMC.cfg", note="Location calculator: Algo=Sem for sub-interval walk, optimise, intersection, "
           "minus, union, gaps over all Locs(4,2) x operands Locs(4,2), chained to depth 2; WellFormed invariant")
    chk.mc("LocMC", "LocMC_neg_walk.cfg", expect_violation=True, note="off-by-one in the minus-strand walk")
    chk.mc("LocMC", "LocMC_known_order.cfg", expect_violation=True,
           note="strict base order fails on self-overlapping layouts (spec-level image of the keyed known finding)")
    G, K = (5, 3) if quick else (7, 3)
    locs = E.enum_locs(G, K)

    def calls(evs):
        return sum(len(e[4]) + len(e[5]) for e in evs if e[0] == "map") + sum(len(e[3]) for e in evs if e[0] == "sub") \
            + 2 * sum(1 for e in evs if e[0] == "rel")

    kw = dict(shard=1500, label="maps", keyfn=_key)
    chk.validate("C01Trace", [["cert", G, K, [[b, st] for (b, st) in locs]]], **kw)
    nsh = 64 if quick else 1024
    ncalls = chk.leg("C01Trace", _map_sub_events, [(locs[i::nsh], G, i) for i in range(nsh)], stat=calls, **kw)[1]
    # unstranded receivers (a sample) and larger random layouts
    uns = [(b, ".") for (b, st) in rnd.sample(locs, 150) if st == "+"]
    big = _random_locs(rnd, 150 if quick else 3000, 60, 6)
    ncalls += chk.leg("C01Trace", _map_sub_events, [(uns, G, 0)] + [(big[i::16], 60, i) for i in range(16)], stat=calls, **kw)[1]
    # relative-location form: all ordered pairs of Locs(Gp, 2)
    Gp = 4 if quick else 5
    pl = E.enum_locs(Gp, 2)
    nsh = 64 if quick else 512
    nrel, c = chk.leg("C01Trace", _rel_events, [(pl[i::nsh], pl, Gp) for i in range(nsh)], stat=calls, **kw)
    ncalls += c
    bigq = _random_locs(rnd, 60 if quick else 400, 40, 4)
    bigo = _random_locs(rnd, 40 if quick else 200, 40, 4)
    ncalls += chk.leg("C01Trace", _rel_events, [(bigo[i::16], bigq, 40) for i in range(16)], stat=calls, **kw)[1]
    # leg S: the calls the repository's own tests make, judged with the same clauses
    chk.validate("C01Trace", suite_events(chk, "C01Trace"), **kw)
    chk.exhaustive = True
    chk.nontrivial = len(locs) + nrel
    chk.extra["constants"] = {"G": G, "K": K, "pairs_G": Gp, "locations": len(locs), "pairs": nrel,
                              "calls_judged": ncalls}
    chk.trusted += ["TLC", "Loc.tla Sem layer (Bases = 6 lines)", "harness/bcverif/encode.py projections"]
    return chk.finish("every location of Locs(G,K) (certified complete by TLC) x every relative position in -1..len, "
                      "every parent position in -1..G, every (a,b,strand) sub-interval incl. invalid ones; all "
                      "ordered pairs of Locs(G',2) for the relative-location form; random larger layouts; "
                      "distinct = distinct receiver layouts + distinct pairs")
