"""The default GFF3 reader on files it did not write (spec/GffParse.tla, GffParseMC.tla, trace/GffParseTrace.tla): growth
of the specification beyond the listed properties, run as a leg of C19 (a public operation on a legal file returns a
well-formed value or a documented refusal).  Files emitted by TLC (simulation of the row-by-row writer) and files drawn
from the same grammar are written as GFF3 text with shuffled rows, read by parse_standard_gff3, and judged by TLC."""
import os
import random
import tempfile

from bcverif import encode as E
from bcverif.runner import MachineryError, parse_prints, pmap, setup_repo_import

EXON_POOL = [(1, 4), (6, 9), (11, 16)]
CDS_POOL = [(2, 4), (6, 9), (11, 13), (5, 9)]


def _text(rows, bio, rnd):
    """rows -> GFF3 text; the top-level row first or last or in between: children may precede their parents"""
    order = list(range(len(rows)))
    mode = rnd.random()
    if mode < 0.4:
        rest = order[1:]
        rnd.shuffle(rest)
        order = [0] + rest
    elif mode < 0.7:
        rnd.shuffle(order)
    lines = ["##gff-version 3"]
    for i in order:
        rid, par, ty, s, e, st, ph = rows[i]
        attr = "ID=r%d" % rid
        if par:
            attr += ";Parent=r%d" % par
        if i == 0 and bio:
            attr += ";gene_biotype=" + bio
        if par == 1 and ty not in ("exon", "CDS", "repeat_unit"):
            attr += ";transcript_id=r%d" % rid   # so that a parsed transcript can be traced to the row it came from
        lines.append("\t".join(["chrF", "bcverif", ty, str(s), str(e), ".", st, "." if ph < 0 else str(ph), attr]))
    return "\n".join(lines) + "\n"


def _project(rec, rows):
    a = rec.annotation
    out = []
    for g in a.genes or []:
        txs = []
        for t in g.transcripts:
            # key: the row the transcript was read from (0 = built from the direct children / inferred for the gene)
            tid = str(t.transcript_id or "")
            key = int(tid[1:]) if tid[:1] == "r" and tid[1:].isdigit() and tid != "r1" else 0
            txs.append([key, [list(b) for b in zip(t.exon_starts, t.exon_ends)],
                        [list(b) for b in zip(t.cds_starts or [], t.cds_ends or [])],
                        [f.value for f in (t.cds_frames or [])], t.strand.to_symbol()])
        out.append(["gene", g.gene_type.name if g.gene_type is not None else "none", txs])
    for fc in a.feature_collections or []:
        f = fc.feature_intervals[0]
        out.append(["fc", str(fc.feature_collection_type), [[list(b) for b in zip(f.interval_starts, f.interval_ends)],
                                                             f.strand.to_symbol(), sorted(f.feature_types)]])
    return out


def _events(args):
    files, seed = args
    setup_repo_import()
    from inscripta.biocantor.io.gff3.parser import parse_standard_gff3

    rnd = random.Random(seed)
    ev = []
    for (rows, bio) in files:
        text = _text(rows, bio, rnd)
        fd, path = tempfile.mkstemp(suffix=".gff3")
        os.write(fd, text.encode())
        os.close(fd)
        holder = []
        try:
            def parse():
                recs = list(parse_standard_gff3(path))
                if len(recs) != 1:
                    raise AttributeError("one sequence in the file, %d records returned" % len(recs))
                holder.append(recs[0])
                p = _project(recs[0], rows)
                if len(p) != 1:
                    raise AttributeError("one locus in the file, %d members returned" % len(p))
                return p[0]

            o = E.outcome(parse, lambda r: (r,))
            c = ["n", ""]  # not attempted: nothing was read
            if holder:
                c = E.outcome(lambda: holder[0].annotation.to_annotation_collection() and 1)
        finally:
            os.unlink(path)
        ev.append(["gff", rows, bio, o, c])
    return ev


def _draw(rnd):
    """a file from the grammar of GffParseMC (same pools, same guards), up to 8 rows"""
    top = rnd.choice(["gene", "gene", "gene", "pseudogene", "CDS", "repeat_region"])
    st = rnd.choice("+-")
    bio = "" if top == "repeat_region" else rnd.choice(["", "protein_coding", "tRNA", "bogus"])
    rows = [[1, 0, top, 1, 16, st, -1]]
    for _ in range(rnd.randrange(0, 8)):
        nid = len(rows) + 1
        if top == "repeat_region":
            b = rnd.choice(EXON_POOL)
            if any(r[3] <= b[1] and b[0] <= r[4] for r in rows[1:]):
                continue
            rows.append([nid, 1, "repeat_unit", b[0], b[1], st if rnd.random() < 0.85 else rnd.choice("+-"), -1])
            continue
        if top == "CDS":
            break
        parents = [1] + [r[0] for r in rows[1:] if r[1] == 1 and r[2] not in ("exon", "CDS")]
        k = rnd.random()
        if k < 0.04:
            # a row whose end lies before its start, as the only exon row of its parent
            free = [p for p in parents if not any(r[1] == p and r[2] in ("exon", "CDS") for r in rows)]
            if free and not any(r[3] > r[4] for r in rows):
                rows.append([nid, rnd.choice(free), "exon", 9, 6, st, -1])
            continue
        parents = [p for p in parents if not any(r[1] == p and r[3] > r[4] for r in rows)]
        if not parents:
            continue
        if k < 0.25 and len(parents) < 3:
            rows.append([nid, 1, rnd.choice(["mRNA", "transcript", "tRNA", "weird"]), 1, 16, st, -1])
        elif k < 0.6:
            p, b = rnd.choice(parents), rnd.choice(EXON_POOL)
            if any(r[1] == p and r[2] == "exon" and (r[3], r[4]) == b for r in rows):
                continue
            rows.append([nid, p, "exon", b[0], b[1], st, -1])
        else:
            p, b = rnd.choice(parents), rnd.choice(CDS_POOL)
            if any(r[1] == p and r[2] == "CDS" and r[3] <= b[1] and b[0] <= r[4] for r in rows):
                continue
            rows.append([nid, p, "CDS", b[0], b[1], st, rnd.choice([-1, 0, 0, 1, 2])])
    return rows, bio


def leg(chk):
    quick = chk.quick
    chk.mc("GffParseMC", "GffParseMC.cfg", note="the foreign-GFF3 writer/reader machine: every file of <= 4 rows in every "
           "writing order; NoRowLost, EveryTxHasExons, GeneNeverEmpty, OrderFree, PhaseRespected, "
           "FeatureRefusedIffMixedStrands")
    chk.mc("GffParseMC", "GffParseMC_neg.cfg", expect_violation=True,
           note="a reader that keeps only the first CDS row of a transcript (NoRowLost refuted)")
    r = chk.mc("GffParseMC", "GffParseSim.cfg", workers=1, simulate="num=%d" % (600 if quick else 12000),
               extra=["-depth", "9", "-seed", str(chk.seed + 77)],
               note="simulated files of <= 7 rows emitted for replay on the real reader")
    files = [(b[0], b[1]) for b in parse_prints(r["out"], "GFF")]
    if len(files) < 100:
        raise MachineryError("TLC emitted only %d GFF3 files" % len(files))
    rnd = random.Random(chk.seed * 9973 + 5)
    files += [_draw(rnd) for _ in range(900 if quick else 20000)]
    parts = pmap(_events, [(files[i::16], chk.seed * 131 + i) for i in range(16)])
    evs = [e for p in parts for e in p]
    chk.validate("GffParseTrace", evs, shard=1500, label="gffparse", corrupt=_corrupt)
    divs = [c for (_off, c) in chk.last_info if c and c[0] == "DIV"]
    chk.extra["gff3_reader_model"] = {"files_read": len(evs), "emitted_by_tlc": len(files) - (900 if quick else 20000),
                                      "model_divergences": len(divs),
                                      "note": "a divergence is a difference between the library's reader and GffParse!Parse that is "
                                              "neither an internal error nor an ill-formed value; soft (no listed property speaks "
                                              "about foreign files), counted here"}
    # binding control of the soft comparison: a read-back transcript / feature with one block moved must be reported
    # as a divergence by the same module (a model that accepts any answer binds nothing)
    import copy

    ctl = []
    for e in evs:
        if e[3][0] == "v" and len(ctl) < 16:
            e2 = copy.deepcopy(e)
            if e2[3][1][0] == "gene":
                e2[3][1][2][0][1][0][1] += 1
            else:
                e2[3][1][2][0][0][1] += 1
            ctl.append(e2)
    if not divs and ctl:
        chk.validate("GffParseTrace", ctl, shard=1500, label="gffparse-control", corrupt=_corrupt)
        got = len([c for (_off, c) in chk.last_info if c and c[0] == "DIV"])
        chk.extra["gff3_reader_model"]["control_perturbed_answers_flagged"] = "%d/%d" % (got, len(ctl))
        if got != len(ctl):
            raise MachineryError("GffParseTrace accepted %d of %d perturbed answers" % (len(ctl) - got, len(ctl)))
    if divs:
        print("INFO: %d of %d foreign GFF3 files read differently from GffParse!Parse (model divergence, not a violation)"
              % (len(divs), len(evs)))
    return evs


def _corrupt(ev, rnd):
    ev[3] = ["x", rnd.choice(["IndexError", "KeyError", "AttributeError"])]
    return ev
