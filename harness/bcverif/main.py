import argparse
import importlib
import os
import sys
import traceback

from bcverif.runner import Check, MachineryError


def main():
    ap = argparse.ArgumentParser()
    ap.add_argument("pid")
    ap.add_argument("--tier", default=os.environ.get("VERIF_TIER", "quick"), choices=["quick", "thorough"])
    ap.add_argument("--seed", type=int, default=int(os.environ.get("VERIF_SEED", "0") or 0))
    ap.add_argument("--replay", default=None)
    a = ap.parse_args()
    mod = importlib.import_module("bcverif.props." + a.pid.lower())
    if a.replay:
        sys.exit(getattr(mod, "replay")(a.replay) if hasattr(mod, "replay") else generic_replay(a.pid, a.replay))
    chk = Check(a.pid, a.tier, a.seed)
    try:
        rc = mod.run(chk)
    except MachineryError as e:
        print("MACHINERY-FAILURE property=%s: %s" % (a.pid, e))
        sys.exit(2)
    except Exception:
        traceback.print_exc()
        print("MACHINERY-FAILURE property=%s: harness crashed" % a.pid)
        sys.exit(2)
    sys.exit(rc)


def generic_replay(pid, path):
    """Re-judge the recorded event with TLC against the current spec (the event holds the observed outcome)."""
    import json

    rec = json.load(open(path))
    chk = Check(pid + "_replay", "quick", rec.get("seed", 0))
    chk.pid = pid
    bad = chk.validate(rec["trace_module"], [rec["event"]], label="replay")
    print(json.dumps(rec, indent=1)[:4000])
    print("replayed verdict:", [c for _, c in bad] or "ok")
    return 1 if bad else 0


if __name__ == "__main__":
    main()
